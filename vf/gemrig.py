"""GEM handler (host or equipment) under detsim, on the real HsmsProtocol + real TCP classes + simulated sockets,
driven by a scripted raw peer that speaks HSMS/SECS-II through the independent codecs (ref.e37 / ref.e5).
Shared by C07, C08, C11, C12, C13.
"""

from __future__ import annotations

from vf import hsmsrig
from vf.ref import e5, e37

L, A, B, U1, U2, U4, BOOL = "L", "A", "B", "U1", "U2", "U4", "BOOLEAN"


def enc(item):
    return e5.encode(item)


def dec(body):
    """Decode a message body with the independent decoder; b"" -> None."""
    if not body:
        return None
    return e5.decode_all(body)


class GemRig(hsmsrig.Rig):
    """role: 'equipment' | 'host'. The handler is passive by default (the scripted peer connects)."""

    def __init__(self, world, role="equipment", active=False, t3=45, t5=10, t6=5, ec_delay=10, handler_cls=None, handler_kwargs=None, device_id=0):
        import secsgem.common
        import secsgem.gem
        import secsgem.hsms

        self.role = role
        settings = secsgem.hsms.HsmsSettings(
            address=hsmsrig.ADDR,
            port=hsmsrig.PORT,
            connect_mode=secsgem.hsms.HsmsConnectMode.ACTIVE if active else secsgem.hsms.HsmsConnectMode.PASSIVE,
            device_id=device_id,
            device_type=secsgem.common.DeviceType.EQUIPMENT if role == "equipment" else secsgem.common.DeviceType.HOST,
            establish_communication_timeout=ec_delay,
        )
        settings.timeouts.t3 = t3
        settings.timeouts.t5 = t5
        settings.timeouts.t6 = t6
        cls = handler_cls or (secsgem.gem.GemEquipmentHandler if role == "equipment" else secsgem.gem.GemHostHandler)
        self.h = cls(settings, **(handler_kwargs or {}))
        super().__init__(world, active=active, device_id=device_id, t3=t3, t5=t5, t6=t6, protocol=self.h.protocol)
        self.settings = settings
        self.h.protocol._linktest_timeout = 1e12  # the endpoint's periodic Linktest.req is not part of these checks
        self._sys = 0x50000
        self._cursor = 0  # index into frames_out up to which data_out() has reported

    # ---- lifecycle through the handler (GEM enable/disable, not only the protocol's)
    def enable(self, horizon=60):
        return self.sim.run(self.h.enable, horizon=horizon, name="enable")

    def disable(self, horizon=300):
        return self.sim.run(self.h.disable, horizon=horizon, name="disable")

    def comm_state(self):
        return self.h.communication_state.current.name

    def next_sys(self):
        self._sys += 1
        return self._sys

    # ---- peer helpers
    def send_sf(self, stream, function, wbit, item=None, system=None, body=None, settle=True):
        """Peer sends a data message; body = raw bytes or item tree for ref.e5."""
        s = self.next_sys() if system is None else system
        raw = body if body is not None else (b"" if item is None else enc(item))
        self.feed(e37.data_frame(self.settings.device_id, stream, function, wbit, s, raw), settle=settle)
        return s

    def data_out(self):
        """New data frames sent by the handler since the last call (control frames dropped, Linktest.req answered)."""
        self.drain()
        out = []
        for f in self.frames_out[self._cursor:]:
            if f["stype"] == e37.DATA:
                out.append(f)
            elif f["stype"] == e37.LINKTEST_REQ:
                self.feed(e37.control_frame(e37.LINKTEST_RSP, f["system"]))
        self._cursor = len(self.frames_out)
        return out

    def establish(self, auto_s1f1=True):
        """enable, connect, select, complete S1F13/S1F14 -> COMMUNICATING."""
        st, _ = self.enable()
        if st != "done" or not self.connect_peer() or not self.select_from_peer():
            return False
        for _ in range(8):
            self.sim.settle()
            frames = self.data_out()
            for f in frames:
                if (f["stream"], f["function"]) == (1, 13) and f["w"]:
                    item = (L, [(B, b"\x00"), (L, [])]) if self.role == "equipment" else (L, [(B, b"\x00"), (L, [(A, b"peer"), (A, b"1.0")])])
                    self.send_sf(1, 14, 0, item, system=f["system"])
                elif (f["stream"], f["function"]) == (1, 1) and f["w"] and auto_s1f1:
                    # equipment in ATTEMPT_ONLINE probes the host
                    self.send_sf(1, 2, 0, (L, []), system=f["system"])
            if not frames and self.comm_state() == "COMMUNICATING":
                break
        return self.comm_state() == "COMMUNICATING"

    def request(self, stream, function, item=None, body=None, wbit=1, advance=0.0):
        """Peer sends a primary and collects every data frame the handler sends until quiescence.
        Returns (system, replies_with_same_system, other_frames)."""
        s = self.send_sf(stream, function, wbit, item, body=body)
        if advance:
            self.sim.advance(advance)
        frames = self.data_out()
        mine = [f for f in frames if f["system"] == s]
        other = [f for f in frames if f["system"] != s]
        return s, mine, other
