"""atheris target for C19: raw text -> functions.generate, judged by the reference reader (vf/ref/sfdl.py).

Run by vf/checks/c19.py (task "fuzz") as a subprocess:
    python -m vf.fuzz.fz_sfdl --result=FILE --known=JSON [libFuzzer flags]
Every input is classified by the reference reader:
  * well-formed, all member keys documented and unique, list names plain identifiers, comments not glued between two
    words, only blank/tab/LF/CR outside comments      -> must be accepted with the documented shape
  * exactly one '>' missing (inserting one '>' somewhere makes it well-formed)            -> must raise
  * exactly one unknown word in data item position (replacing it makes it well-formed)    -> must raise
  * anything else                                                                         -> not judged (counted)
Findings are collected per bucket and written to the result file; the fuzzer keeps running.
"""

from __future__ import annotations

import json
import os
import re
import sys
from collections import Counter

IDENT = re.compile(r"[A-Za-z_][A-Za-z0-9_]*\Z")
ODD = re.compile(r"[\x00-\x08\x0b\x0c\x0e-\x1f\x7f-\xff]")


class _Ctx:
    def __init__(self, known):
        self.known_keys = set(known)
        self.classes = Counter()
        self.notes = []

    def count(self, c, n=1):
        self.classes[c] += n

    def note(self, t):
        if t not in self.notes:
            self.notes.append(t)


def classify(text, c19, sfdl):
    """-> (case | None, class)"""
    if ODD.search(_strip_comments(text)):
        return None, "not-judged:other-characters-outside-comments"
    if re.search(r"#[^\r\n]*[\x0b\x0c\x1c-\x1e\x85]", text):
        return None, "not-judged:exotic-line-break-in-comment"
    if "#" in text:
        # judged only when both readings of "end with the line break" (line break kept as whitespace / line break
        # belonging to the comment) give the same tokens
        t0 = sfdl.tokenize(text)
        if t0 != sfdl.tokenize(re.sub(r"#[^\r\n]*(\r\n|\r|\n)?", "", text)) or t0 != sfdl.tokenize(re.sub(r"#[^\r\n]*[\r\n]?", "", text)):
            return None, "not-judged:comment-glued-between-words"
    try:
        tree = sfdl.parse(text, c19.NAMESET)
    except sfdl.SfdlError as exc:
        kind = exc.kind
    else:
        if sfdl.undefined_keys(tree):
            return None, "not-judged:member-key-not-documented"
        if sfdl.collisions(tree):
            return None, "not-judged:sibling-keys-collide"
        if not _names_ok(tree, c19):
            return None, "not-judged:list-name-outside-assumption"
        return {"text": text, "mut": None}, "wellformed"
    toks = sfdl.tokenize(text)
    if kind == "missing-close" and toks.count("<") == toks.count(">") + 1:
        # insert one '>' at a token boundary of the comment-free token stream
        for i in range(1, len(toks) + 1):
            cand = " ".join(toks[:i] + [">"] + toks[i:])
            try:
                t2 = sfdl.parse(cand, c19.NAMESET)
            except sfdl.SfdlError:
                continue
            if _names_ok(t2, c19):
                return {"text": text, "mut": {"op": "drop-close", "orig": cand}}, "one-closing-bracket-missing"
        return None, "not-judged:ill-formed-otherwise"
    if kind == "unknown-item":
        bad = [i for i, t in enumerate(toks) if i > 0 and toks[i - 1] == "<" and t not in "<>" and t != "L" and t not in c19.NAMESET]
        if len(bad) == 1:
            w = toks[bad[0]]
            if w.upper() in c19.UPPERSET or w.upper() == "L":
                return None, "not-judged:case-variant"
            if not re.match(r"[\x21-\x7e]+\Z", w):
                return None, "not-judged:other-characters-outside-comments"
            cand = " ".join(toks[: bad[0]] + ["SVID"] + toks[bad[0] + 1 :])
            try:
                t2 = sfdl.parse(cand, c19.NAMESET)
            except sfdl.SfdlError:
                return None, "not-judged:ill-formed-otherwise"
            if _names_ok(t2, c19):
                return {"text": text, "mut": {"op": "unknown-name", "orig": cand}}, "one-unknown-item-name"
        return None, "not-judged:ill-formed-otherwise"
    return None, f"not-judged:{kind}"


def _strip_comments(text):
    return re.sub(r"#[^\r\n]*", "", text)


def _names_ok(tree, c19):
    if tree["t"] == "item":
        return True
    n = tree["name"]
    if n is not None and (not IDENT.match(n) or n.upper() in c19.UPPERSET or n.upper() == "L"):
        return False
    return all(_names_ok(m, c19) for m in tree["m"])


def main():
    result = None
    known = []
    argv = [sys.argv[0]]
    for a in sys.argv[1:]:
        if a.startswith("--result="):
            result = a[len("--result="):]
        elif a.startswith("--known="):
            known = json.loads(a[len("--known="):])
        else:
            argv.append(a)
    runs = 0
    for a in argv:
        if a.startswith("-runs="):
            runs = int(a[6:])

    import atheris

    repo = os.environ.get("VF_REPO", "/repo")
    if repo not in sys.path[:1]:
        sys.path.insert(0, repo)
    with atheris.instrument_imports(include=["secsgem.secs.functions.sfdl_tokenizer", "secsgem.secs.variables.functions",
                                             "secsgem.secs.variables.list_type", "secsgem.secs.variables.array"]):  # fmt: skip
        import secsgem.secs.functions.sfdl_tokenizer  # noqa: F401
        import secsgem.secs.variables.functions  # noqa: F401
    from vf.checks import c19
    from vf.ref import sfdl
    from vf.run import chash

    ctx = _Ctx(known)
    state = {"execs": 0, "failures": {}, "known_hits": Counter(), "nontrivial": set()}

    def dump():
        if result is None:
            return
        data = {
            "execs": state["execs"],
            "classes": dict(ctx.classes),
            "failures": list(state["failures"].values()),
            "known_hits": dict(state["known_hits"]),
            "nontrivial": sorted(h.hex() for h in state["nontrivial"]),
            "notes": ctx.notes,
        }
        tmp = result + ".tmp"
        with open(tmp, "w") as fh:
            json.dump(data, fh)
        os.replace(tmp, result)

    def one(data):
        state["execs"] += 1
        text = data.decode("latin-1")
        case, cls = classify(text, c19, sfdl)
        ctx.count(cls)
        if case is not None:
            f = c19.check_case(case, ctx)
            if len(state["nontrivial"]) < 50000:
                state["nontrivial"].add(chash(case))
            if f is not None:
                if f.bucket in ctx.known_keys:
                    state["known_hits"][f.bucket] += 1
                elif f.bucket not in state["failures"] or len(text) < len(state["failures"][f.bucket]["case"]["text"]):
                    state["failures"][f.bucket] = f.to_json()
        if state["execs"] % 5000 == 0 or state["execs"] == runs:
            dump()

    # seed corpus + dictionary in the working directory
    os.makedirs("corpus", exist_ok=True)
    seeds = [s for _, s in c19._structures() if s] + c19._doc_blocks() + [
        "< L N < SVID > >", "<L<TRID><L N<L<SVID>>>>", "< L # c\n < L A < V > < VID > > # d\r\n>", "< SVID >", "< L < L < L < V > > > >",
    ]  # fmt: skip
    for i, s in enumerate(seeds):
        with open(os.path.join("corpus", f"s{i:03d}"), "w", encoding="latin-1") as fh:
            fh.write(s)
    with open("dict.txt", "w") as fh:
        for w in ["<", ">", "L", "< L", "#", "\\x0a", "\\x0d\\x0a", "\\x0d", "\\x09", " ", "> >", "< L N "] + list(c19.NAMES):
            fh.write('"' + w.replace('"', '\\"') + '"\n')
    dump()
    atheris.Setup(argv + ["-dict=dict.txt", "corpus"], one)
    atheris.Fuzz()


if __name__ == "__main__":
    main()
