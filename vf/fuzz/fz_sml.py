"""atheris target for C15: coverage-guided search over SML text (latin-1 decoded fuzz bytes).

Run by vf.checks.c15 (task "fuzz") as `python -m vf.fuzz.fz_sml <corpus> -runs=N -seed=S ...` with
  VF_FZ_OUT   directory for stats.json and finding-<bucket>.json (smallest text per root-cause bucket)
  VF_FZ_KNOWN JSON list of bucket keys that are registered as known (counted, not kept)
The verdict rule is vf.checks.c15.check_text(text, strict_quotes=True): step bound + "raise when the reference lexer
finds a missing closing bracket / unknown type name" on text without quote characters. A finding never crashes the
fuzzer (it would stop at the first known defect); findings are re-judged by the parent process.
"""

import atexit
import json
import os
import sys

import atheris

REPO = os.environ.get("VF_REPO", "/repo")
if REPO not in sys.path[:1]:
    sys.path.insert(0, REPO)

with atheris.instrument_imports(include=["secsgem.secs"]):
    import secsgem.secs.items  # noqa: F401
    import secsgem.secs.sml  # noqa: F401

from vf.checks import c15  # noqa: E402

OUT = os.environ.get("VF_FZ_OUT", ".")
KNOWN = set(json.loads(os.environ.get("VF_FZ_KNOWN", "[]")))
STATS = {"execs": 0, "must": 0, "items": 0, "known": {}}
BEST = {}


def _flush():
    tmp = os.path.join(OUT, "stats.json.tmp")
    with open(tmp, "w") as fh:
        json.dump(STATS, fh)
    os.replace(tmp, os.path.join(OUT, "stats.json"))


def TestOneInput(data):
    text = data.decode("latin-1")
    info = {}
    f = c15.check_text(text, strict_quotes=True, info=info)
    STATS["execs"] += 1
    if info.get("must"):
        STATS["must"] += 1
    if info.get("outcome") == "item":
        STATS["items"] += 1
    if f is not None:
        if f.bucket in KNOWN:
            STATS["known"][f.bucket] = STATS["known"].get(f.bucket, 0) + 1
        elif f.bucket not in BEST or len(text) < len(BEST[f.bucket]):
            BEST[f.bucket] = text
            safe = "".join(c if c.isalnum() or c in "-_" else "_" for c in f.bucket)
            with open(os.path.join(OUT, f"finding-{safe}.json"), "w") as fh:
                json.dump({"bucket": f.bucket, "text": text}, fh)
            _flush()
    if STATS["execs"] % 2000 == 0:
        _flush()


def main():
    if REPO and not os.path.realpath(secsgem.secs.sml.__file__).startswith(os.path.realpath(REPO) + os.sep):
        print(f"fz_sml: secsgem imported from {secsgem.secs.sml.__file__}, expected under {REPO}", file=sys.stderr)
        sys.exit(2)
    atexit.register(_flush)
    _flush()
    atheris.Setup(sys.argv, TestOneInput)
    atheris.Fuzz()


if __name__ == "__main__":
    main()
