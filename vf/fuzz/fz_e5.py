"""atheris target for C02: bytes -> (receiver selector, E5 bytes); the semantic oracle of vf.checks.c02 runs inside.

Run by vf.checks.c02 (thorough tier) as a subprocess:  python -m vf.fuzz.fz_e5 -runs=N -seed=S ... <corpus dir>
Environment: VF_REPO (code under test), VF_FUZZ_OUT (stats json, rewritten every FLUSH executions because libFuzzer
exits the process itself), VF_FUZZ_KNOWN (json list of known-finding bucket keys to count and skip).
The reference decoder is instrumented as well, so that coverage feedback steers the fuzzer towards VALID items.
"""

from __future__ import annotations

import atexit
import hashlib
import json
import os
import sys
from collections import Counter

import atheris

REPO = os.environ.get("VF_REPO", "/repo")
if REPO not in sys.path[:1]:
    sys.path.insert(0, REPO)

with atheris.instrument_imports(include=["secsgem.secs.variables", "vf.ref.e5"]):
    import secsgem.secs.variables  # noqa: F401
    from vf.ref import e5  # noqa: F401

if not os.path.realpath(secsgem.__file__).startswith(os.path.realpath(REPO) + os.sep):
    print(f"HARNESS-ERROR secsgem imported from {secsgem.__file__}, expected under {REPO}")
    os._exit(2)

from vf.checks import c02  # noqa: E402
from vf.gen import items as gi  # noqa: E402

OUT = os.environ["VF_FUZZ_OUT"]
KNOWN = set(json.loads(os.environ.get("VF_FUZZ_KNOWN", "[]")))
FLUSH = 2000
S = {"execs": 0, "classes": Counter(), "excluded": Counter(), "known_hits": Counter(), "failure": None}
_seen = set()
_hashes = open(OUT + ".hashes", "ab")


def flush():
    tmp = OUT + ".tmp"
    with open(tmp, "w") as fh:
        json.dump(S, fh)
    os.replace(tmp, OUT)
    _hashes.flush()


def one(data):
    S["execs"] += 1
    if S["execs"] % FLUSH == 0:
        flush()
    case = c02._fuzz_case(data)
    if case is None:
        return
    recv = case["recv"]
    body = data[1:]
    verdict, f, ref_item, n = c02.judge(recv, body, b"", b"", case)
    S["classes"]["fuzz:" + verdict] += 1
    if verdict in ("nonfinite", "not-allowed"):
        S["excluded"]["out-of-scope:" + verdict] += 1
    if verdict == "checked":
        nt, classes = c02.describe(recv, gi.from_ref(ref_item), body[:n])
        for c in classes:
            if c.startswith(("recv:", "top:", "len:", "depth:", "float:")):
                S["classes"]["fuzz:" + c] += 1
        if nt:
            h = hashlib.blake2b(data, digest_size=8).digest()
            if h not in _seen and len(_seen) < 200000:
                _seen.add(h)
                _hashes.write(h)
    if f is not None:
        if f.bucket in KNOWN:
            S["known_hits"][f.bucket] += 1
            return
        S["failure"] = f.to_json()
        flush()
        raise RuntimeError(f"C02 oracle failure {f.bucket}")


def main():
    atexit.register(flush)
    flush()
    atheris.Setup(sys.argv, one)
    atheris.Fuzz()


if __name__ == "__main__":
    main()
