"""Install / remove the shims inside the secsgem modules that import threading / queue / time / select / socket."""

from __future__ import annotations

import contextlib
import importlib
import logging

from .kernel import Sim
from .shims import QueueShim, ThreadingShim, TimeShim
from .serialsim import SerialShim
from .socksim import SelectShim, SimNet, SocketShim

MODULES = {
    "secsgem.common.protocol": ("queue", "random", "threading"),
    "secsgem.common.protocol_dispatcher": ("threading", "queue"),
    "secsgem.common.byte_queue": ("threading",),
    "secsgem.common.state_machine": ("threading",),
    "secsgem.common.block_send_info": ("threading",),
    "secsgem.common.tcp_connection": ("threading", "time", "select"),
    "secsgem.common.tcp_server_connection": ("threading", "time", "select", "socket"),
    "secsgem.common.tcp_client_connection": ("threading", "time", "socket"),
    "secsgem.common.serial_connection": ("threading", "time", "serial"),
    "secsgem.hsms.protocol": ("threading", "queue"),
    "secsgem.gem.handler": ("threading",),
    "secsgem.gem.communication_state_machine": ("threading",),
    "secsgem.gem.collection_event_capability": ("threading",),
}

# functions containing `while flag: pass` busy-wait loops (traced line by line, lowest priority)
SPIN_FUNCTIONS = ("_start_receiver", "disconnect", "serial_connection.py:enable")  # SerialConnection.enable waits for its receiver thread


class _RandomShim:
    """random.randint for the initial system counter comes from the case (deterministic)."""

    def __init__(self, value):
        self.value = value

    def randint(self, a, b):
        return self.value if self.value is not None else a

    def __getattr__(self, name):
        import random

        return getattr(random, name)


class World:
    def __init__(self, sim, net):
        self.sim = sim
        self.net = net


@contextlib.contextmanager
def simulation(sched_seed=0, switch_prob=0.0, preempts=(), preempt_prob=0.0, hot=(), system_counter=1000, spin=SPIN_FUNCTIONS):
    sim = Sim(sched_seed, switch_prob, preempts, preempt_prob, hot, spin)
    net = SimNet(sim)
    shims = {
        "threading": ThreadingShim(sim),
        "queue": QueueShim(sim),
        "time": TimeShim(sim),
        "select": SelectShim(net),
        "socket": SocketShim(net),
        "random": _RandomShim(system_counter),
        "serial": SerialShim(net),
    }
    saved = []
    prev_disable = logging.root.manager.disable
    logging.disable(logging.CRITICAL)
    try:
        for modname, names in MODULES.items():
            mod = importlib.import_module(modname)
            for n in names:
                if not hasattr(mod, n):  # the module does not (or no longer / not yet) import it
                    continue
                saved.append((mod, n, getattr(mod, n)))
                setattr(mod, n, shims[n])
        yield World(sim, net)
    finally:
        try:
            sim.close()
        finally:
            for mod, n, old in saved:
                setattr(mod, n, old)
            logging.disable(prev_disable)
