"""Pure-simulation sockets + select for running the real secsgem TCP connection classes under detsim.

Semantics modelled on Linux non-blocking TCP: connect to a listening (addr, port) succeeds at once, otherwise
ConnectionRefusedError; send() accepts min(len, free space of the peer's receive buffer, the generated partial-send
plan) bytes or raises BlockingIOError(EWOULDBLOCK) when nothing fits; recv() returns buffered bytes, b"" at EOF,
BlockingIOError when empty; operations on a closed socket raise OSError(EBADF); select() on a closed socket object
raises ValueError (fileno -1) at entry, while a socket closed by another thread during a blocked select() keeps the
call blocked until its timeout (the kernel holds its own reference).
"""

from __future__ import annotations

import errno
import struct
import socket as _rsocket
import weakref

from .kernel import HarnessFault


class SimNet:
    def __init__(self, sim):
        self.sim = sim
        self.listeners = weakref.WeakValueDictionary()  # a socket object that is garbage collected is closed (CPython)
        self.waiters = []  # threads blocked in select
        self.default_capacity = 1 << 30
        self.send_plan = None  # callable(sock, nbytes_offered, free) -> nbytes accepted (>=1 if free>=1) or None
        self.send_calls = []  # (sock_name, offered, accepted)
        self.refuse_connect = False
        self._fileno = 1000
        # local (addr, port) -> virtual time until which a connection closed first by this side lingers in TIME_WAIT:
        # bind() to it fails with EADDRINUSE unless SO_REUSEADDR was set on the binding socket BEFORE bind (Linux)
        self.time_wait = {}
        self.time_wait_s = 60.0

    def activity(self):
        self.sim.wake_all(self.waiters)

    # peer-side helpers (usable from the controller)
    def listen(self, addr, port):
        s = SimSocket(self, "peer-listener")
        s.reuseaddr = True
        s.bind((addr, port))
        s.listen(1)
        return s

    def connect(self, addr, port, name="peer"):
        s = SimSocket(self, name)
        s.setblocking(False)
        s.connect((addr, port))
        return s


class SimSocket:
    def __init__(self, net, name="sock"):
        self.net = net
        self.name = name
        self.closed = False
        self.listening = False
        self.addr = None
        self.backlog = []
        self.peer = None
        self.rx = bytearray()
        self.capacity = net.default_capacity
        self.eof = False  # peer closed / shut down its write side
        self.reset = False
        self.blocking = True
        self.wr_shutdown = False
        self.total_sent = 0
        self.total_received = 0
        self.linger0 = False
        self.reuseaddr = False
        self.local_addr = None  # accepted sockets: the listener's (addr, port)
        self.tx_times = []  # (cumulative bytes sent, virtual time) per send call
        net._fileno += 1
        self._fd = net._fileno

    def _check(self):
        if self.closed:
            raise OSError(errno.EBADF, "Bad file descriptor")

    def fileno(self):
        return -1 if self.closed else self._fd

    def setsockopt(self, *a):
        self._check()
        if len(a) == 3 and a[0] == _rsocket.SOL_SOCKET and a[1] == _rsocket.SO_REUSEADDR:
            self.reuseaddr = bool(a[2]) if not isinstance(a[2], (bytes, bytearray)) else any(a[2])
        # SO_LINGER with l_onoff=1, l_linger=0: close() aborts the connection (RST) and discards what the peer has not read
        if len(a) == 3 and a[0] == _rsocket.SOL_SOCKET and a[1] == _rsocket.SO_LINGER and isinstance(a[2], (bytes, bytearray)) and len(a[2]) >= 8:
            onoff, secs = struct.unpack("ii", bytes(a[2][:8]))
            self.linger0 = bool(onoff) and secs == 0

    def getsockopt(self, *a):
        self._check()
        return 0

    def setblocking(self, flag):
        self._check()
        self.blocking = bool(flag)

    def settimeout(self, t):
        self._check()
        self.blocking = t is None

    def bind(self, addr):
        self._check()
        if addr in self.net.listeners and not self.net.listeners[addr].closed:
            raise OSError(errno.EADDRINUSE, "Address already in use")
        if not self.reuseaddr and self.net.time_wait.get(addr, -1.0) > self.net.sim.now:
            raise OSError(errno.EADDRINUSE, "Address already in use")  # a connection of this port is in TIME_WAIT
        self.addr = addr

    def listen(self, n=1):
        self._check()
        self.listening = True
        self.net.listeners[self.addr] = self

    def accept(self):
        self.net.sim.op()
        self._check()
        while not self.backlog:
            if not self.blocking:
                raise BlockingIOError(errno.EWOULDBLOCK, "would block")
            if self.net.sim.aborting or not self.net.sim.in_sim_thread():
                raise BlockingIOError(errno.EWOULDBLOCK, "would block")
            self.net.sim.block(self.net.waiters, None)
            self._check()
        s = self.backlog.pop(0)
        self.net.activity()
        return s, ("127.0.0.1", 40000)

    def accept_nowait(self):
        if not self.backlog:
            return None
        s = self.backlog.pop(0)
        s.blocking = False
        return s

    def connect(self, addr):
        self.net.sim.op()
        self._check()
        lst = self.net.listeners.get(addr)
        if self.net.refuse_connect or lst is None or lst.closed or not lst.listening:
            raise ConnectionRefusedError(errno.ECONNREFUSED, "Connection refused")
        other = SimSocket(self.net, self.name + "-accepted")
        other.local_addr = addr
        other.peer = self
        self.peer = other
        lst.backlog.append(other)
        self.net.activity()

    def send(self, data, flags=0):
        sim = self.net.sim
        sim.op()
        self._check()
        if self.peer is None:
            raise OSError(errno.ENOTCONN, "not connected")
        if self.wr_shutdown:
            raise BrokenPipeError(errno.EPIPE, "Broken pipe")
        if self.reset or self.peer.closed:
            raise ConnectionResetError(errno.ECONNRESET, "Connection reset by peer")
        data = bytes(data)
        free = self.peer.capacity - len(self.peer.rx)
        if len(data) == 0:
            return 0
        if free <= 0:
            self.net.send_calls.append((self.name, len(data), 0))
            raise BlockingIOError(errno.EWOULDBLOCK, "would block")
        n = min(len(data), free)
        if self.net.send_plan is not None:
            p = self.net.send_plan(self, len(data), free)
            if p is not None:
                if p <= 0:  # spurious EWOULDBLOCK although select() reported the socket writable (allowed by POSIX)
                    self.net.send_calls.append((self.name, len(data), 0))
                    raise BlockingIOError(errno.EWOULDBLOCK, "would block")
                n = max(1, min(n, p))
        self.peer.rx.extend(data[:n])
        self.total_sent += n
        self.tx_times.append((self.total_sent, sim.now))
        self.net.send_calls.append((self.name, len(data), n))
        self.net.activity()
        return n

    def sendall(self, data, flags=0):
        data = bytes(data)
        off = 0
        while off < len(data):
            try:
                off += self.send(data[off:])
            except BlockingIOError:
                if not self.blocking:
                    raise
                if not self.net.sim.in_sim_thread():
                    raise HarnessFault("sendall would block in controller")
                self.net.sim.block(self.net.waiters, None)

    def recv(self, n, flags=0):
        self.net.sim.op()
        self._check()
        if self.reset:
            raise ConnectionResetError(errno.ECONNRESET, "Connection reset by peer")
        if self.rx:
            out = bytes(self.rx[:n])
            del self.rx[:n]
            self.total_received += len(out)
            self.net.activity()
            return out
        if self.eof:
            return b""
        raise BlockingIOError(errno.EWOULDBLOCK, "would block")

    def shutdown(self, how):
        self.net.sim.op()
        self._check()
        if self.listening:
            self.net.activity()
            return
        if self.peer is None:
            raise OSError(errno.ENOTCONN, "Transport endpoint is not connected")
        if how in (_rsocket.SHUT_WR, _rsocket.SHUT_RDWR):
            self.wr_shutdown = True
            self.peer.eof = True
        self.net.activity()

    def close(self):
        if self.closed:
            return
        self.closed = True
        if self.listening:
            if self.net.listeners.get(self.addr) is self:
                del self.net.listeners[self.addr]
            for s in self.backlog:
                if s.peer is not None:
                    s.peer.reset = True
        if self.peer is not None:
            if self.local_addr is not None and not self.eof and not self.peer.closed and not self.linger0:
                # this side closes first (no FIN from the peer yet): its end of the connection goes to TIME_WAIT
                self.net.time_wait[self.local_addr] = self.net.sim.now + self.net.time_wait_s
            self.peer.eof = True
            if self.rx:  # unread data at close -> RST towards the peer
                self.peer.reset = True
            if self.linger0:
                # abortive close (SO_LINGER 0): RST instead of FIN, and what this side had accepted for sending but the peer
                # has not read yet is discarded (on a real network: the part still in the send buffer / in flight)
                self.peer.reset = True
                del self.peer.rx[:]
        self.net.activity()

    def __del__(self):
        try:
            if not self.closed and not self.net.sim.closed:
                self.close()
        except Exception:
            pass

    # peer-side conveniences
    def recv_all(self):
        out = bytes(self.rx)
        del self.rx[:]
        self.total_received += len(out)
        self.net.activity()
        return out

    def __repr__(self):
        return f"<SimSocket {self.name}{' closed' if self.closed else ''}>"


def _readable(s):
    if s.listening:
        return bool(s.backlog)
    return bool(s.rx) or s.eof or s.reset


def _writable(s):
    if s.peer is None:
        return False
    if s.reset or s.peer.closed or s.wr_shutdown:
        return True
    return s.peer.capacity - len(s.peer.rx) > 0


class SelectShim:
    def __init__(self, net):
        self._net = net

    def select(self, rlist, wlist, xlist, timeout=None):
        net = self._net
        sim = net.sim
        sim.op()
        for s in list(rlist) + list(wlist) + list(xlist):
            if not isinstance(s, SimSocket):
                raise HarnessFault(f"select on non-simulated object {s!r}")
            if s.closed:
                raise ValueError("file descriptor cannot be a negative integer (-1)")
        end = None if timeout is None else sim.now + timeout
        while True:
            r = [s for s in rlist if _readable(s)]
            w = [s for s in wlist if _writable(s)]
            if r or w:
                return r, w, []
            if sim.aborting:
                return [], [], []
            left = None if end is None else end - sim.now
            if left is not None and left <= 0:
                return [], [], []
            if not sim.in_sim_thread():
                return [], [], []
            sim.block(net.waiters, left)

    def __getattr__(self, name):
        import select as _rselect

        return getattr(_rselect, name)


class SocketShim:
    """Stands in for the `socket` module inside the secsgem TCP classes."""

    def __init__(self, net):
        self._net = net
        self._n = 0

    def socket(self, family=_rsocket.AF_INET, type=_rsocket.SOCK_STREAM, proto=0):  # noqa: A002
        self._n += 1
        return SimSocket(self._net, f"ep{self._n}")

    def __getattr__(self, name):
        return getattr(_rsocket, name)
