"""Shim namespaces for threading / queue / time bound to a Sim (vf.detsim.kernel)."""

from __future__ import annotations

import queue as _rqueue
import threading as _rt
import time as _rtime

from .kernel import DONE, NEW, HarnessFault, Sim


class _Lock:
    def __init__(self, sim, reentrant=False):
        self._sim = sim
        self._owner = None
        self._count = 0
        self._re = reentrant
        self._waiters = []

    def acquire(self, blocking=True, timeout=-1):
        sim = self._sim
        sim.op()
        me = sim.current if sim.in_sim_thread() else "controller"
        if self._re and self._owner is me and self._count > 0:
            self._count += 1
            return True
        while self._owner is not None:
            if sim.aborting:
                return True
            if not blocking:
                return False
            if me == "controller":
                raise HarnessFault("controller would block on a simulated lock")
            if not sim.block(self._waiters, None if timeout is None or timeout < 0 else timeout):
                return False
        self._owner = me
        self._count = 1
        return True

    def release(self):
        if self._count > 0:
            self._count -= 1
        if self._count == 0:
            self._owner = None
            if self._waiters:
                self._sim.wake(self._waiters[0])

    def locked(self):
        return self._owner is not None

    def __enter__(self):
        self.acquire()
        return self

    def __exit__(self, *a):
        self.release()
        return False

    # used by Condition.wait
    def _release_all(self):
        c = self._count
        self._count = 0
        self._owner = None
        if self._waiters:
            self._sim.wake(self._waiters[0])
        return c

    def _reacquire(self, count, me):
        sim = self._sim
        while self._owner is not None and not sim.aborting:
            sim.block(self._waiters, None)
        self._owner = me
        self._count = count


class _Condition:
    def __init__(self, sim, lock=None):
        self._sim = sim
        self._lock = lock if lock is not None else _Lock(sim, reentrant=True)
        self._waiters = []

    def acquire(self, *a, **k):
        return self._lock.acquire(*a, **k)

    def release(self):
        return self._lock.release()

    def __enter__(self):
        self._lock.acquire()
        return self

    def __exit__(self, *a):
        self._lock.release()
        return False

    def wait(self, timeout=None):
        sim = self._sim
        me = sim.current
        cnt = self._lock._release_all()
        ok = sim.block(self._waiters, timeout)
        self._lock._reacquire(cnt, me)
        return ok

    def wait_for(self, predicate, timeout=None):
        sim = self._sim
        end = None if timeout is None else sim.now + timeout
        result = predicate()
        while not result:
            if end is not None:
                left = end - sim.now
                if left <= 0:
                    break
                self.wait(left)
            else:
                self.wait(None)
            result = predicate()
        return result

    def notify(self, n=1):
        for t in list(self._waiters)[:n]:
            self._sim.wake(t)

    def notify_all(self):
        self._sim.wake_all(self._waiters)

    notifyAll = notify_all


class _Event:
    def __init__(self, sim):
        self._sim = sim
        self._flag = False
        self._waiters = []

    def is_set(self):
        return self._flag

    isSet = is_set

    def set(self):
        self._sim.op()
        self._flag = True
        self._sim.wake_all(self._waiters)

    def clear(self):
        self._sim.op()
        self._flag = False

    def wait(self, timeout=None):
        sim = self._sim
        sim.op()
        if self._flag:
            return True
        if not sim.in_sim_thread():
            if sim.aborting:
                return self._flag
            raise HarnessFault("controller would block on a simulated Event")
        sim.block(self._waiters, timeout)
        return self._flag


class _Queue:
    def __init__(self, sim, maxsize=0):
        self._sim = sim
        self._items = []
        self._getters = []

    def qsize(self):
        return len(self._items)

    def empty(self):
        return not self._items

    def full(self):
        return False

    def put(self, item, block=True, timeout=None):
        self._sim.op()
        self._items.append(item)
        if self._getters:
            self._sim.wake(self._getters[0])

    def put_nowait(self, item):
        self.put(item, False)

    def get(self, block=True, timeout=None):
        sim = self._sim
        sim.op()
        end = None if timeout is None else sim.now + timeout
        while not self._items:
            if not block:
                raise _rqueue.Empty
            if sim.aborting:
                raise _rqueue.Empty
            if not sim.in_sim_thread():
                raise HarnessFault("controller would block on a simulated Queue")
            left = None if end is None else end - sim.now
            if left is not None and left <= 0:
                raise _rqueue.Empty
            sim.block(self._getters, left)
        item = self._items.pop(0)
        if self._items and self._getters:
            sim.wake(self._getters[0])
        return item

    def get_nowait(self):
        return self.get(False)

    def task_done(self):
        pass


def make_thread_classes(sim: Sim):
    class Thread:
        def __init__(self, group=None, target=None, name=None, args=(), kwargs=None, *, daemon=None):
            self._target = target
            self._args = args
            self._kwargs = kwargs or {}
            self.name = name or f"Thread-{len(sim.threads)}"
            self.daemon = bool(daemon)
            self._st = None

        def run(self):
            if self._target is not None:
                self._target(*self._args, **self._kwargs)

        def start(self):
            sim.op()
            self._st = sim.new_thread(self.run, str(self.name), self.daemon)
            sim.start_thread(self._st)

        def is_alive(self):
            return self._st is not None and self._st.state != DONE

        def join(self, timeout=None):
            sim.op()
            st = self._st
            if st is None:
                raise RuntimeError("cannot join thread before it is started")
            if st.state == DONE:
                return
            if sim.aborting:
                return
            if not sim.in_sim_thread():
                raise HarnessFault("controller would block joining a simulated thread")
            if st is sim.current:
                raise RuntimeError("cannot join current thread")
            sim.block(st.joiners, timeout)

        @property
        def ident(self):
            return None if self._st is None else self._st.id

    class Timer(Thread):
        def __init__(self, interval, function, args=None, kwargs=None):
            super().__init__(name=f"Timer-{len(sim.threads)}")
            self.interval = interval
            self.function = function
            self.args = args if args is not None else []
            self.kwargs = kwargs if kwargs is not None else {}
            self.finished = _Event(sim)

        def cancel(self):
            self.finished.set()

        def run(self):
            self.finished.wait(self.interval)
            if not self.finished.is_set():
                self.function(*self.args, **self.kwargs)
            self.finished.set()

    return Thread, Timer


class ThreadingShim:
    def __init__(self, sim):
        self._sim = sim
        self.Thread, self.Timer = make_thread_classes(sim)

    def Event(self):
        return _Event(self._sim)

    def Lock(self):
        return _Lock(self._sim)

    def RLock(self):
        return _Lock(self._sim, reentrant=True)

    def Condition(self, lock=None):
        return _Condition(self._sim, lock)

    def current_thread(self):
        return self._sim.current

    def __getattr__(self, name):
        return getattr(_rt, name)


class QueueShim:
    Empty = _rqueue.Empty
    Full = _rqueue.Full

    def __init__(self, sim):
        self._sim = sim

    def Queue(self, maxsize=0):
        return _Queue(self._sim, maxsize)

    def __getattr__(self, name):
        return getattr(_rqueue, name)


class TimeShim:
    def __init__(self, sim):
        self._sim = sim

    def sleep(self, dt):
        sim = self._sim
        sim.op()
        if sim.aborting:
            return
        if not sim.in_sim_thread():
            raise HarnessFault("controller called simulated sleep")
        sim.block([], max(0.0, dt))

    def time(self):
        return self._sim.now

    def monotonic(self):
        return self._sim.now

    def perf_counter(self):
        return self._sim.now

    def __getattr__(self, name):
        return getattr(_rtime, name)
