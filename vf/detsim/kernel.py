"""detsim kernel: deterministic scheduler, virtual clock, hang detection for real threaded code.

Real OS threads are serialised by baton passing: exactly one simulated thread runs at a time; every shim operation
(vf.detsim.shims) is a yield point; scheduling decisions come from a PRNG seeded by generated data (seed 0 = the
default run-to-block policy); timers and timeouts run on a virtual clock that only advances when nothing is runnable.
Line-level preemption (sys.settrace) parks a thread at chosen source lines of chosen functions (PCT-style).
"""

from __future__ import annotations

import os
import random
import sys
import threading as _rt
import time as _rtime

RUNNABLE, BLOCKED, DONE, PARKED, SPIN, NEW = "RUNNABLE", "BLOCKED", "DONE", "PARKED", "SPIN", "NEW"


class SimAbort(BaseException):
    """Unwinds simulated threads at teardown (secsgem only catches Exception)."""


class HarnessFault(Exception):
    """The simulation itself misbehaved (never reported as a property violation)."""


class SimThread:
    def __init__(self, sim, fn, name, daemon=True):
        self.sim = sim
        self.fn = fn
        self.name = name
        self.id = len(sim.threads)
        self.state = NEW
        self.sem = _rt.Semaphore(0)
        self.deadline = None
        self.waitlist = None
        self.timed_out = False
        self.joiners = []
        self.real = None
        self.error = None
        self.daemon = daemon
        self.spin_turns = 0
        self.is_driver = False

    def __repr__(self):
        return f"<T{self.id} {self.name} {self.state}>"


class Sim:
    def __init__(self, sched_seed=0, switch_prob=0.0, preempts=(), preempt_prob=0.0, hot=(), spin=(), trace_pkg=None):
        self.now = 1_000_000.0
        self.threads = []
        self.current = None
        self.aborting = False
        self._ctl = _rt.Semaphore(0)
        self.rng = random.Random(sched_seed)
        self.sched_seed = sched_seed
        self.switch_prob = switch_prob if sched_seed else 0.0
        self.preempts = {(s, int(k)) for s, k in preempts}
        self.preempt_prob = preempt_prob if sched_seed else 0.0
        self.hot = set(hot) | {s for s, _ in self.preempts}
        # an entry ending in ".py" makes every function of that source file (path suffix inside the package) hot
        self.hot_files = tuple(h for h in self.hot if h.endswith(".py"))
        self.spin = set(spin)
        # "file.py:function" entries restrict a busy-wait function to one source file
        self.spin_q = tuple(tuple(x.split(":", 1)) for x in self.spin if ":" in x)
        self.trace_pkg = trace_pkg or os.path.join(os.environ.get("VF_REPO", "/repo"), "secsgem")
        self.site_counts = {}
        self._spin_last = {}
        self.preempt_hits = []
        self.switches = 0
        self.steps = 0
        self.thread_errors = []
        self.closed = False
        self.activity = 0  # bumped whenever a non-spinning thread runs or time advances
        self.max_steps = 20_000_000
        self.max_pump_steps = 150_000
        self.trace_log = None  # optional list of scheduling events

    # ------------------------------------------------------------------ thread side
    def me(self):
        return self.current

    def in_sim_thread(self):
        cur = self.current
        return cur is not None and cur.real is _rt.current_thread()

    def _yield(self):
        """Hand the baton back to the controller and wait to be scheduled again."""
        me = self.current
        self._ctl.release()
        me.sem.acquire()
        if self.aborting:
            raise SimAbort()

    def op(self):
        """A scheduling point (called by every shim operation)."""
        if self.aborting:
            if self.in_sim_thread():
                raise SimAbort()
            return
        if not self.in_sim_thread():
            return
        self._yield()

    def block(self, waitlist, timeout=None):
        """Block the current thread on waitlist (a list) with optional timeout. Returns True if woken, False on timeout."""
        if self.aborting:
            raise SimAbort()
        if not self.in_sim_thread():
            raise HarnessFault("blocking operation called from outside a simulated thread")
        me = self.current
        me.state = BLOCKED
        me.deadline = None if timeout is None else self.now + max(0.0, timeout)
        me.waitlist = waitlist
        me.timed_out = False
        waitlist.append(me)
        self._yield()
        return not me.timed_out

    def wake(self, t):
        if t.state == BLOCKED:
            if t.waitlist is not None and t in t.waitlist:
                t.waitlist.remove(t)
            t.waitlist = None
            t.deadline = None
            t.timed_out = False
            t.state = RUNNABLE

    def wake_all(self, waitlist):
        for t in list(waitlist):
            self.wake(t)

    # ------------------------------------------------------------------ threads
    def new_thread(self, fn, name="thread", daemon=True):
        t = SimThread(self, fn, name, daemon)
        self.threads.append(t)
        return t

    def start_thread(self, t):
        if t.state != NEW:
            raise RuntimeError("threads can only be started once")
        t.state = RUNNABLE
        t.real = _rt.Thread(target=self._bootstrap, args=(t,), name="sim-" + t.name, daemon=True)
        t.real.start()

    def _bootstrap(self, t):
        t.sem.acquire()
        try:
            if self.aborting:
                return
            if self.hot or self.spin:
                sys.settrace(self._global_trace)
            t.fn()
        except SimAbort:
            pass
        except BaseException as exc:  # uncaught exception in a simulated thread (like threading.excepthook)
            t.error = exc
            self.thread_errors.append((t.name, repr(exc)))
        finally:
            sys.settrace(None)
            t.state = DONE
            for j in list(t.joiners):
                self.wake(j)
            t.joiners = []
            self._ctl.release()

    # ------------------------------------------------------------------ tracing / preemption
    def _global_trace(self, frame, event, arg):
        code = frame.f_code
        name = code.co_name
        if code.co_filename.startswith(self.trace_pkg) and (name in self.spin or (self.spin_q and any(name == fn and code.co_filename.endswith(f) for f, fn in self.spin_q))):
            return self._spin_trace
        if (name in self.hot or (self.hot_files and code.co_filename.endswith(self.hot_files))) and code.co_filename.startswith(self.trace_pkg):
            return self._hot_trace
        return None

    def _spin_trace(self, frame, event, arg):
        # yield (lowest priority) on backward jumps only: one yield per busy-wait iteration
        if event == "line" and not self.aborting:
            me = self.current
            if me is not None and me.real is _rt.current_thread():
                key = id(frame)
                prev = self._spin_last.get(key, -1)
                self._spin_last[key] = frame.f_lineno
                if frame.f_lineno <= prev:
                    me.state = SPIN
                    self._yield()
        elif event == "return":
            self._spin_last.pop(id(frame), None)
        return self._spin_trace

    def _hot_trace(self, frame, event, arg):
        if event == "line" and not self.aborting:
            name = frame.f_code.co_name
            k = self.site_counts.get(name, 0) + 1
            self.site_counts[name] = k
            park = (name, k) in self.preempts
            if not park and self.preempt_prob and self.rng.random() < self.preempt_prob:
                park = True
            if park:
                me = self.current
                if me is not None and me.real is _rt.current_thread():
                    self.preempt_hits.append((name, k, frame.f_lineno))
                    me.state = PARKED
                    self._yield()
        return self._hot_trace

    # ------------------------------------------------------------------ controller side
    def _switch_to(self, t):
        self.current = t
        self.switches += 1
        if t.state in (PARKED, SPIN):
            t.state = RUNNABLE
        t.sem.release()
        if not self._ctl.acquire(timeout=60):
            raise HarnessFault(f"simulated thread {t} did not yield within 60 s real time")
        self.current = None

    def _pick(self, cands, last):
        if len(cands) == 1:
            return cands[0]
        if self.sched_seed == 0 or self.switch_prob == 0.0:
            return last if last in cands else cands[0]
        if last in cands and self.rng.random() >= self.switch_prob:
            return last
        return cands[self.rng.randrange(len(cands))]

    def _next_deadline(self):
        d = None
        for t in self.threads:
            if t.state == BLOCKED and t.deadline is not None and (d is None or t.deadline < d):
                d = t.deadline
        return d

    def _expire(self):
        n = 0
        for t in self.threads:
            if t.state == BLOCKED and t.deadline is not None and t.deadline <= self.now:
                if t.waitlist is not None and t in t.waitlist:
                    t.waitlist.remove(t)
                t.waitlist = None
                t.deadline = None
                t.timed_out = True
                t.state = RUNNABLE
                n += 1
        return n

    def pump(self, may_advance=lambda: False, limit=None, stop=lambda: False):
        """Run simulated threads until nothing can run. Returns 'quiescent' | 'deadlock' | 'livelock' | 'limit' | 'stop'.

        may_advance(): whether the virtual clock may move now; limit: absolute virtual time not to pass.
        'deadlock' = may_advance() but no thread is runnable and no deadline is pending.
        """
        if self.closed:
            raise HarnessFault("pump on closed simulation")
        last = None
        spin_idle = 0
        local_steps = 0
        while True:
            self.steps += 1
            local_steps += 1
            if self.steps > self.max_steps:
                raise HarnessFault("simulation step limit exceeded")
            if local_steps > self.max_pump_steps:
                return "runaway"  # threads keep running without ever blocking (busy loop in the code under test)
            if stop():
                return "stop"
            cands = [t for t in self.threads if t.state == RUNNABLE]
            if cands:
                t = self._pick(cands, last)
                last = t
                spin_idle = 0
                self.activity += 1
                self._switch_to(t)
                continue
            spinners = [t for t in self.threads if t.state == SPIN]
            if spinners and spin_idle < 3 * len(spinners):
                # give each spinner a turn: its flag may have changed. A busy-waiting thread is runnable in reality, so it
                # gets its turns BEFORE parked (preempted) threads are resumed - otherwise a preempted thread could never be
                # overtaken by a thread that has to pass a busy-wait (e.g. TcpConnection._start_receiver)
                t = spinners[spin_idle % len(spinners)]
                spin_idle += 1
                self._switch_to(t)
                continue
            parked = [t for t in self.threads if t.state == PARKED]
            if parked:
                for t in parked:
                    t.state = RUNNABLE
                continue
            if self._expire():
                continue
            nd = self._next_deadline()
            adv = may_advance()
            if adv and nd is not None and (limit is None or nd <= limit):
                self.now = max(self.now, nd)
                spin_idle = 0
                self.activity += 1
                continue
            if adv and nd is not None and limit is not None and nd > limit:
                self.now = max(self.now, limit)
                return "limit"
            if spinners:
                return "livelock" if adv else "quiescent"
            if adv:
                return "deadlock"
            return "quiescent"

    # ------------------------------------------------------------------ stepping API
    def run(self, fn, horizon=600.0, name="driver", stop=lambda: False):
        """Run fn on a fresh simulated thread until it returns and the system is quiescent at the current time.

        The clock advances only while the driver has not returned, never beyond horizon.
        Returns (status, result): status in 'done' | 'deadlock' | 'livelock' | 'horizon'.
        """
        box = {}

        def body():
            box["result"] = fn()

        t = self.new_thread(body, name)
        t.is_driver = True
        self.start_thread(t)
        limit = self.now + horizon
        st = self.pump(may_advance=lambda: t.state != DONE, limit=limit, stop=stop)
        if t.state == DONE:
            if t.error is not None:
                box["error"] = t.error
            return "done", box
        if st == "limit":
            return "horizon", box
        if st == "quiescent":  # driver parked/spinning leftovers cannot happen here; treat as harness problem
            raise HarnessFault(f"run(): pump returned quiescent with unfinished driver {self.blocked_report()}")
        return st, box

    def spawn(self, fn, name="actor"):
        t = self.new_thread(fn, name)
        self.start_thread(t)
        return t

    def settle(self):
        return self.pump()

    def advance(self, dt):
        target = self.now + dt
        st = self.pump(may_advance=lambda: True, limit=target)
        if self.now < target:
            self.now = target
        self._expire()
        st2 = self.pump()
        return st

    def blocked_report(self):
        out = []
        for t in self.threads:
            if t.state != DONE:
                out.append(f"{t.name}:{t.state}" + (f"@+{t.deadline - self.now:.1f}s" if t.deadline is not None else ""))
        return out

    def alive(self, substr=""):
        return [t for t in self.threads if t.state != DONE and substr in t.name]

    # ------------------------------------------------------------------ teardown
    def close(self):
        if self.closed:
            return
        self.closed = True
        self.aborting = True
        for t in self.threads:
            if t.state == NEW:
                t.state = DONE
                continue
            if t.state != DONE and t.real is not None:
                t.sem.release()
        deadline = _rtime.time() + 20
        for t in self.threads:
            if t.real is not None:
                t.real.join(max(0.1, deadline - _rtime.time()))
                if t.real.is_alive():
                    raise HarnessFault(f"simulated thread {t.name} did not unwind at teardown")
