"""Pure-simulation serial ports for running the real secsgem SerialConnection under detsim.

`SerialShim(net).Serial(port, speed, timeout=...)` gives the subset of pyserial's `serial.Serial` that
secsgem/common/serial_connection.py uses: `in_waiting`, `read(n=1)` (blocks up to `timeout` VIRTUAL seconds for the first
byte, returns at most n bytes, b"" on timeout), `write(data)`, `close()`. The other end of the cable is a `LineEnd` with the
same two methods as the peer side of a simulated socket (`recv_all()`, `send(chunk)`), so that vf.secsirig.Line can carry a
serial line exactly as it carries SECS-I over TCP. Semantics typed in from the pyserial documentation (read with timeout
"returns all bytes received so far, possibly fewer than requested"; write returns the number of bytes written; operations on a
closed port raise `serial.PortNotOpenError`, modelled as OSError).
"""

from __future__ import annotations


class LineEnd:
    """The cable end opposite to a simulated port (owned by the controller / line actor)."""

    def __init__(self, port):
        self._port = port
        self.out = bytearray()  # bytes written by the endpoint, not yet carried away
        self.closed = False

    def recv_all(self):
        data = bytes(self.out)
        del self.out[:]
        return data

    def send(self, chunk):
        if self._port.closed:
            raise OSError("serial port closed")
        self._port.rx.extend(chunk)
        self._port.net.activity()
        return len(chunk)


class SimSerial:
    def __init__(self, net, port, baudrate=9600, timeout=None, **_kw):
        self.net = net
        self.port = port
        self.baudrate = baudrate
        self.timeout = timeout
        self.rx = bytearray()
        self.closed = False
        self.line = LineEnd(self)
        net.serial_ports[port] = self

    def _check(self):
        if self.closed:
            raise OSError("Attempting to use a port that is not open")

    @property
    def in_waiting(self):
        self.net.sim.op()
        self._check()
        return len(self.rx)

    def read(self, size=1):
        sim = self.net.sim
        sim.op()
        self._check()
        end = None if self.timeout is None else sim.now + self.timeout
        while not self.rx:
            if sim.aborting or not sim.in_sim_thread():
                return b""
            left = None if end is None else end - sim.now
            if left is not None and left <= 0:
                return b""
            sim.block(self.net.waiters, left)
            self._check()
        out = bytes(self.rx[:size])
        del self.rx[:size]
        return out

    def write(self, data):
        self.net.sim.op()
        self._check()
        data = bytes(data)
        self.line.out.extend(data)
        self.net.activity()
        return len(data)

    def close(self):
        self.closed = True
        self.line.closed = True
        self.net.activity()


class SerialShim:
    """Stands in for the `serial` module inside secsgem.common.serial_connection."""

    def __init__(self, net):
        self._net = net
        if not hasattr(net, "serial_ports"):
            net.serial_ports = {}

    def Serial(self, port=None, baudrate=9600, **kw):  # noqa: N802 (pyserial's name)
        return SimSerial(self._net, port, baudrate, **kw)

    def __getattr__(self, name):
        import serial as _rserial

        return getattr(_rserial, name)
