"""Hypothesis strategies for E5 item trees in plain (JSON-able) form.

Plain item:  {"f": fmt, "v": [...]}                     explicit elements
             {"f": fmt, "pat": [...], "n": N}           N elements cycling through pat (big items)
  elements: ints for I*/U*; IEEE bit patterns (ints) for F4/F8; 0/1 for BOOLEAN;
            byte values (ints) for A/J/B; plain items for L.
"""

from __future__ import annotations

from hypothesis import strategies as st

from vf.ref import e5

SCALARS = ["B", "BOOLEAN", "A", "J", "I1", "I2", "I4", "I8", "U1", "U2", "U4", "U8", "F4", "F8"]
NUMS = ["I1", "I2", "I4", "I8", "U1", "U2", "U4", "U8", "F4", "F8"]

FLT_MAX_BITS = 0x7F7FFFFF
DBL_MAX_BITS = 0x7FEFFFFFFFFFFFFF


def int_elems(fmt):
    lo, hi = e5.int_range(fmt)
    cand = {lo, lo + 1, -1, 0, 1, hi - 1, hi, hi // 2, 127, 128, 255, 256, 65535, 65536, -128, -129, -32768, -32769,
            2**31 - 1, 2**31, 2**32 - 1, 2**32, 2**53 + 1, -(2**31), -(2**31) - 1, 2**63 - 1, 2**63}
    pool = sorted(c for c in cand if lo <= c <= hi)
    return st.one_of(st.sampled_from(pool), st.integers(lo, hi))


def float_bits_elems(fmt, allow_nan=False, finite_only=True):
    """Bit patterns: sign x exponent extremes x mantissa extremes, plus uniform."""
    if fmt == "F4":
        eb, mb = 8, 23
    else:
        eb, mb = 11, 52
    emax = (1 << eb) - 1
    mmax = (1 << mb) - 1
    exps = [0, 1, 2, emax // 2 - 1, emax // 2, emax // 2 + 1, emax - 2, emax - 1]
    mants = [0, 1, 2, mmax // 2, mmax - 1, mmax, 1 << (mb - 1)]
    structured = st.builds(
        lambda s, e, m: (s << (eb + mb)) | (e << mb) | m,
        st.integers(0, 1),
        st.one_of(st.sampled_from(exps), st.integers(0, emax - 1)),
        st.one_of(st.sampled_from(mants), st.integers(0, mmax)),
    )
    opts = [structured]
    if allow_nan:
        opts.append(st.just((emax << mb) | (1 << (mb - 1))))  # canonical quiet NaN
    return st.one_of(*opts)


def byte_elems(fmt):
    special = [0, 1, 9, 10, 13, 31, 32, 34, 39, 46, 60, 62, 91, 92, 93, 126, 127, 128, 160, 161, 177, 223, 224, 255]
    return st.one_of(st.sampled_from(special), st.integers(0, 255))


def elems(fmt, allow_nan=False):
    if fmt in e5.INTS:
        return int_elems(fmt)
    if fmt in e5.FLOATS:
        return float_bits_elems(fmt, allow_nan)
    if fmt == "BOOLEAN":
        return st.integers(0, 1)
    return byte_elems(fmt)


def small_counts():
    return st.one_of(st.sampled_from([0, 1, 1, 2, 3]), st.integers(0, 12))


def leaf(fmt=None, allow_nan=False, max_n=12):
    fmts = st.sampled_from(SCALARS) if fmt is None else st.just(fmt)

    @st.composite
    def _leaf(draw):
        f = draw(fmts)
        n = draw(st.one_of(st.sampled_from([0, 1, 1, 2, 3]), st.integers(0, max_n)))
        return {"f": f, "v": draw(st.lists(elems(f, allow_nan), min_size=n, max_size=n))}

    return _leaf()


def boundary_counts(fmt, big=False):
    """Element counts whose payload byte length sits at a length-byte threshold."""
    w = e5.WIDTH.get(fmt, 1)
    out = set()
    for thr in (255, 256, 65535, 65536) + ((16777215,) if big else ()):
        for d in (-w, 0, w):
            n = (thr + d) // w
            if 0 <= n and n * w <= 0xFFFFFF:
                out.add(n)
        out.add(thr // w)
        if (thr // w + 1) * w <= 0xFFFFFF:
            out.add(thr // w + 1)
    return sorted(out)


def big_leaf(fmt=None, big=False, allow_nan=False):
    fmts = st.sampled_from(SCALARS) if fmt is None else st.just(fmt)

    @st.composite
    def _big(draw):
        f = draw(fmts)
        n = draw(st.sampled_from(boundary_counts(f, big and f in ("A", "B", "J"))))
        pat = draw(st.lists(elems(f, allow_nan), min_size=1, max_size=5))
        return {"f": f, "pat": pat, "n": n}

    return _big()


def tree(max_depth=4, max_width=4, leaves=None, allow_nan=False):
    """Arbitrary item tree (for Item API / reference-first generation)."""
    leaves = leaves if leaves is not None else leaf(allow_nan=allow_nan)

    def rec(depth):
        if depth <= 0:
            return leaves
        return st.one_of(
            leaves,
            st.builds(lambda v: {"f": "L", "v": v}, st.lists(st.deferred(lambda: rec(depth - 1)), max_size=max_width)),
        )

    return rec(max_depth)


def deep_tree(depth_strategy=st.integers(5, 40), leaves=None):
    """A chain of nested lists of the given depth with a few leaves along the way."""
    leaves = leaves if leaves is not None else leaf(max_n=3)

    @st.composite
    def _deep(draw):
        d = draw(depth_strategy)
        node = draw(leaves)
        for _ in range(d):
            sibs_before = draw(st.lists(leaves, max_size=1))
            sibs_after = draw(st.lists(leaves, max_size=1))
            node = {"f": "L", "v": sibs_before + [node] + sibs_after}
        return node

    return _deep()


# ---- plain helpers (no hypothesis)


def expand(item):
    """Elements of a leaf (explicit or pattern form)."""
    if "v" in item:
        return item["v"]
    pat, n = item["pat"], item["n"]
    k = len(pat)
    return [pat[i % k] for i in range(n)] if n < 4096 else (pat * (n // k + 1))[:n]


def to_ref(item):
    """Plain item -> ref.e5 item tree."""
    f = item["f"]
    if f == "L":
        return ("L", [to_ref(s) for s in item["v"]])
    el = expand(item)
    if f in ("A", "J", "B"):
        return (f, bytes(el))
    if f == "BOOLEAN":
        return (f, [bool(x) for x in el])
    return (f, list(el))


def from_ref(tree_):
    f, p = tree_
    if f == "L":
        return {"f": "L", "v": [from_ref(s) for s in p]}
    if f in ("A", "J", "B"):
        return {"f": f, "v": list(p)}
    if f == "BOOLEAN":
        return {"f": f, "v": [1 if b else 0 for b in p]}
    return {"f": f, "v": list(p)}


def depth(item):
    if item["f"] != "L":
        return 0
    return 1 + max((depth(s) for s in item["v"]), default=0)


def size(item):
    if item["f"] != "L":
        return len(item["v"]) if "v" in item else item["n"]
    return 1 + sum(size(s) for s in item["v"])


def leaves_of(item):
    if item["f"] != "L":
        yield item
    else:
        for s in item["v"]:
            yield from leaves_of(s)


def has_numeric_boundary(item):
    for lf in leaves_of(item):
        f = lf["f"]
        el = lf["v"] if "v" in lf else lf["pat"]
        if f in e5.INTS:
            lo, hi = e5.int_range(f)
            if any(x in (lo, hi, lo + 1, hi - 1) for x in el):
                return True
        elif f in e5.FLOATS:
            eb, mb = (8, 23) if f == "F4" else (11, 52)
            for b in el:
                ex = (b >> mb) & ((1 << eb) - 1)
                if ex in (0, 1, (1 << eb) - 2, (1 << eb) - 1):
                    return True
    return False


def has_special_text(item):
    for lf in leaves_of(item):
        if lf["f"] in ("A", "J"):
            el = lf["v"] if "v" in lf else lf["pat"]
            if any(b < 32 or b >= 127 or b in (34, 39, 60, 62, 91, 93, 46) for b in el):
                return True
    return False


def crosses_length_boundary(item):
    for lf in leaves_of(item):
        n = len(lf["v"]) if "v" in lf else lf["n"]
        if n * e5.WIDTH.get(lf["f"], 1) >= 255:
            return True
    return False
