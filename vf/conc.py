"""Run plain (non-blocking) library calls on several simulated threads with parked line-level preemptions.

Used by checks whose property quantifies over inputs of code that real applications call from several threads at once (a
receive thread decoding a message while the application builds one): on a correct tree the answer of every thread equals the
sequential answer, whatever the schedule. Threads switch only at generated preemption points (source lines of the hot
functions / hot files, vf.detsim.kernel), a preempted thread stays parked until every other thread has finished or is parked
itself, so "A stops in the middle of a walk, B does a complete walk, A goes on" is the typical explored shape.
"""

from __future__ import annotations

from vf.detsim.patch import simulation


def run_threads(fns, sched):
    """fns: list of zero-argument callables. Returns [(value | None, exception | None)], preempt hits."""
    out = [(None, None)] * len(fns)
    with simulation(sched_seed=sched.get("seed", 1), switch_prob=sched.get("switch", 0.5), preempt_prob=sched.get("pprob", 0.1), hot=tuple(sched.get("hot", ()))) as w:
        def mk(i, f):
            def run():
                try:
                    out[i] = (f(), None)
                except Exception as exc:  # the thread's outcome, judged by the caller
                    out[i] = (None, exc)

            return run

        threads = [w.sim.spawn(mk(i, f), f"worker-{i}") for i, f in enumerate(fns)]
        w.sim.settle()
        for i, t in enumerate(threads):
            if t.state != "DONE":
                out[i] = (None, RuntimeError(f"thread did not finish: {w.sim.blocked_report()}"))
        hits = len(w.sim.preempt_hits)
    return out, hits
