"""Bridge between plain (JSON) typed descriptors/values and secsgem.secs.variables objects.

desc:  {"k":"leaf","f":fmt,"count":c}
       {"k":"dyn","types":[fmt...],"count":c}          [] = all types; "L" in types = Array allowed
       {"k":"array","of":desc,"count":c}
       {"k":"list","fields":[desc...]}                 0 or >=2 fields (one field would be an array)
value: leaf   {"item": plain leaf, "form": str}
       dyn    {"item": plain item (leaf, or L of leaves = ANYVALUE array), "form": "typed"|"plain"}
       array  {"v": [value...]}
       list   {"v": [value...], "form": "list"|"dict"}
"""

from __future__ import annotations

from vf.gen import items as gi
from vf.ref import e5

_cls_cache = {}
_seq = [0]


def V():
    from secsgem.secs import variables

    return variables


def cls_of(fmt):
    v = V()
    return {
        "B": v.Binary,
        "BOOLEAN": v.Boolean,
        "A": v.String,
        "J": v.JIS8,
        "I1": v.I1,
        "I2": v.I2,
        "I4": v.I4,
        "I8": v.I8,
        "U1": v.U1,
        "U2": v.U2,
        "U4": v.U4,
        "U8": v.U8,
        "F4": v.F4,
        "F8": v.F8,
        "L": v.Array,
    }[fmt]


def fmt_of_obj(obj):
    """E5 format name of a (non-dynamic) secsgem variable object."""
    v = V()
    if isinstance(obj, v.Dynamic):
        return fmt_of_obj(obj.value)
    if isinstance(obj, (v.Array, v.List)):
        return "L"
    return e5.NAMES[obj.format_code]


def data_item_class(name, fmt=None, count=-1, types=None):
    """Create a DataItemBase subclass (the documented way to define custom data items)."""
    from secsgem.secs.data_items.base import DataItemBase

    v = V()
    if types is not None:
        attrs = {"__type__": v.Dynamic, "__allowedtypes__": [cls_of(t) for t in types], "__count__": count}
    else:
        attrs = {"__type__": cls_of(fmt), "__count__": count}
    attrs["name"] = name
    return type(name, (DataItemBase,), attrs)


def build_format(desc, name="D0"):
    """desc -> secsgem data_format (class or nested list)."""
    k = desc["k"]
    if k == "leaf":
        return data_item_class(name, fmt=desc["f"], count=desc.get("count", -1))
    if k == "dyn":
        return data_item_class(name, types=desc["types"], count=desc.get("count", -1))
    if k == "array":
        return [build_format(desc["of"], name + "E")]
    if k == "list":
        return [name] + [build_format(d, f"{name}F{i}") for i, d in enumerate(desc["fields"])]
    raise ValueError(k)


def key_of(desc, name="D0"):
    """Key under which a field built by build_format(desc, name) appears in its parent List."""
    k = desc["k"]
    if k in ("leaf", "dyn", "list"):
        return name
    inner = desc["of"]
    if inner["k"] == "array":
        return "DATA"
    return name + "E"


# ---- python values from plain leaves


def float_val(fmt, bits):
    return e5.bits_float(fmt, bits)


def leaf_pyvalue(item, form):
    """Constructor input for a leaf in the requested form."""
    f = item["f"]
    el = gi.expand(item)
    if f in e5.INTS:
        vals = list(el)
    elif f in e5.FLOATS:
        vals = [float_val(f, b) for b in el]
    elif f == "BOOLEAN":
        vals = [bool(x) for x in el]
    else:
        raw = bytes(el)
        if form == "bytes":
            return raw
        if form == "bytearray":
            return bytearray(raw)
        if form == "list":
            return list(raw)
        if form == "tuple":
            return tuple(raw)
        if form == "str":
            if f == "J":
                return e5.jis8_to_str(raw)
            return e5.latin1_to_str(raw)
        if form == "int":
            return raw[0]
        raise ValueError(form)
    if form == "list":
        return vals
    if form == "tuple":
        return tuple(vals)
    if form == "scalar":
        return vals[0]
    if form == "str":
        return str(vals[0]) if f != "BOOLEAN" else ("TRUE" if vals[0] else "no")
    if form == "bytearray":
        return bytearray(int(x) for x in vals)
    if form == "ints":
        return [int(x) for x in vals]
    raise ValueError(form)


def leaf_forms(item):
    """Constructor forms under which this leaf value is accepted by the documented API."""
    f = item["f"]
    n = len(item["v"]) if "v" in item else item["n"]
    el = item["v"] if "v" in item else item["pat"]
    if f in e5.INTS:
        forms = ["list", "tuple"]
        if n == 1:
            forms += ["scalar", "str"]
        if all(0 <= x <= 255 for x in el):
            forms.append("bytearray")
        return forms
    if f in e5.FLOATS:
        return ["list", "tuple"] + (["scalar"] if n == 1 else [])
    if f == "BOOLEAN":
        return ["list", "tuple", "ints", "bytearray"] + (["scalar", "str"] if n == 1 else [])
    if f == "B":
        forms = ["bytes", "bytearray", "list", "tuple"]
        if all(x < 128 for x in el):
            forms.append("str")
        if n == 1:
            forms.append("int")
        return forms
    # A / J
    return ["bytes", "bytearray", "str", "list", "tuple"]


def expected_get(item):
    """What get() must return for a leaf holding `item` (documented unwrapping rules)."""
    f = item["f"]
    el = gi.expand(item)
    if f == "L":
        return [expected_get(s) for s in item["v"]]
    if f in e5.INTS:
        vals = list(el)
    elif f in e5.FLOATS:
        vals = [("bits", f, b) for b in el]
    elif f == "BOOLEAN":
        vals = [bool(x) for x in el]
    elif f == "B":
        raw = bytes(el)
        return raw[0] if len(raw) == 1 else raw
    elif f == "J":
        return e5.jis8_to_str(bytes(el))
    else:
        return e5.latin1_to_str(bytes(el))
    return vals[0] if len(vals) == 1 else vals


def same_value(got, exp):
    """Value relation: floats by bit pattern of their format (NaN == NaN), everything else ==."""
    if isinstance(exp, tuple) and len(exp) == 3 and exp[0] == "bits":
        if isinstance(got, bool) or not isinstance(got, (int, float)):
            return False
        _, f, b = exp
        try:
            gb = e5.float_bits(f, float(got))
        except OverflowError:
            return False
        if not e5.is_finite_bits(f, b):
            return not e5.is_finite_bits(f, gb) and (gb & ((1 << (23 if f == "F4" else 52)) - 1) != 0) == (
                b & ((1 << (23 if f == "F4" else 52)) - 1) != 0
            )
        return gb == b
    if isinstance(exp, list):
        return isinstance(got, list) and len(got) == len(exp) and all(same_value(g, e) for g, e in zip(got, exp))
    if isinstance(exp, dict):
        return (
            isinstance(got, dict)
            and list(got.keys()) == list(exp.keys())
            and all(same_value(got[k], exp[k]) for k in exp)
        )
    if isinstance(exp, bool):
        return isinstance(got, (bool, int)) and got in (0, 1) and bool(got) == exp
    if isinstance(exp, bytes):
        return isinstance(got, (bytes, bytearray)) and bytes(got) == exp
    return type(got) is type(exp) and got == exp


# ---- typed objects


def typed_obj(item):
    """A typed secsgem variable for a plain item (used as explicit-type input to Dynamic items)."""
    v = V()
    f = item["f"]
    if f == "L":
        from secsgem.secs.variables.dynamic import ANYVALUE

        return v.Array(ANYVALUE, [typed_obj(s) for s in item["v"]])
    return cls_of(f)(leaf_pyvalue(item, leaf_forms(item)[0]))


def pyvalue(desc, value, name="D0"):
    """Python constructor input for a (desc, value) pair."""
    k = desc["k"]
    if k == "leaf":
        return leaf_pyvalue(value["item"], value["form"])
    if k == "dyn":
        if value["form"] == "typed":
            return typed_obj(value["item"])
        it = value["item"]
        return leaf_pyvalue(it, value.get("pform") or leaf_forms(it)[0])
    if k == "array":
        return [pyvalue(desc["of"], x, name + "E") for x in value["v"]]
    if k == "list":
        vals = [pyvalue(d, x, f"{name}F{i}") for i, (d, x) in enumerate(zip(desc["fields"], value["v"]))]
        if value.get("form") == "dict":
            return {key_of(d, f"{name}F{i}"): v for i, (d, v) in enumerate(zip(desc["fields"], vals))}
        return vals
    raise ValueError(k)


def model_item(desc, value):
    """Plain item tree the (desc, value) pair denotes."""
    k = desc["k"]
    if k in ("leaf", "dyn"):
        return value["item"]
    if k == "array":
        return {"f": "L", "v": [model_item(desc["of"], x) for x in value["v"]]}
    return {"f": "L", "v": [model_item(d, x) for d, x in zip(desc["fields"], value["v"])]}


def model_get(desc, value, name="D0"):
    k = desc["k"]
    if k in ("leaf", "dyn"):
        return expected_get(value["item"])
    if k == "array":
        return [model_get(desc["of"], x, name + "E") for x in value["v"]]
    out = {}
    for i, (d, x) in enumerate(zip(desc["fields"], value["v"])):
        out[key_of(d, f"{name}F{i}")] = model_get(d, x, f"{name}F{i}")
    return out
