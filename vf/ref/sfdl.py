"""Independent reference reader for the Secs Function Definition Language (SFDL).

Written from /repo/docs/firststeps/sfdl.md only; does not import secsgem.

Grammar taken from the document
    definition := item | list
    item       := '<' NAME '>'                       "Data items are defined with their name in a set of pointed brackets."
    list       := '<' 'L' [LISTNAME] definition+ '>' "Lists are described with 'L' on the opening bracket ..."; "this name
                                                      can be overridden, by passing the name after the L tag"
    comment    := '#' ... line break                 "Comments start with a `#` and end with the line break."
    whitespace := blank, tab, line breaks between tokens (the examples use all three layouts: `< L`, `<L`, one
                  token per line)

Documented shape
    * "A list with multiple different data items is mapped to a dict or object. This can be accessed with the data item
      name as key."                                                         -> record  {"r": [[key, shape], ...]}
    * "Open lists are defined with only one data item. They can hold multiple values with the same data type."
                                                                            -> open array {"a": shape}
    * a data item                                                           -> its NAME (str)

Documented key of a member of a record (rules K1..K4)
    K1 data item                      -> the data item name
    K2 unnamed open list of ONE DATA ITEM -> "the name of the nested data item is used" (S2F23 example: key SVID)
    K3 unnamed open list of a fixed-length list -> "In this case the item is simply named "DATA"."
    K4 a list with a name after the L tag -> that name ("REPORTS", "SVIDS", "DS", "DV" examples; "But also other
       nested lists can be named this way")
Nestings for which the document defines no key (reported by `undefined_keys`, never generated as well-formed cases):
    U1 an unnamed fixed-length list placed directly in a fixed-length list
    U2 an unnamed open list whose single member is again an open list
    U3 an unnamed open list whose single member is a list carrying a name of its own
An empty list `< L >` is not in the grammar (every list example has at least one member; "Open lists are defined with
only one data item").
"""

from __future__ import annotations

WHITESPACE = " \t\n\r"
LINE_BREAKS = "\n\r"


class SfdlError(Exception):
    """The text is not a definition of the documented grammar."""

    def __init__(self, kind, msg):
        super().__init__(f"{kind}: {msg}")
        self.kind = kind


def tokenize(text):
    """-> list of tokens: '<', '>' or a word (str). Comments and whitespace separate words."""
    out = []
    word = ""
    i, n = 0, len(text)
    while i < n:
        c = text[i]
        if c == "#":
            if word:
                out.append(word)
                word = ""
            while i < n and text[i] not in LINE_BREAKS:
                i += 1
            continue  # the line break itself is whitespace
        if c in WHITESPACE:
            if word:
                out.append(word)
                word = ""
        elif c in "<>":
            if word:
                out.append(word)
                word = ""
            out.append(c)
        else:
            word += c
        i += 1
    if word:
        out.append(word)
    return out


def parse(text, item_names):
    """Parse a complete definition. AST: {"t": "item", "name": N} | {"t": "list", "name": N|None, "m": [AST, ...]}."""
    toks = tokenize(text)
    pos = [0]
    names = item_names if isinstance(item_names, (set, frozenset)) else set(item_names)

    def peek():
        return toks[pos[0]] if pos[0] < len(toks) else None

    def take():
        t = peek()
        pos[0] += 1
        return t

    def definition():
        t = take()
        if t != "<":
            raise SfdlError("missing-open", f"'<' expected, got {t!r}")
        w = take()
        if w is None or w in "<>":
            raise SfdlError("missing-name", f"data item name or L expected, got {w!r}")
        if w == "L":
            name = None
            if peek() is not None and peek() not in "<>":
                name = take()
            members = []
            while True:
                t = peek()
                if t == "<":
                    members.append(definition())
                elif t == ">":
                    take()
                    break
                elif t is None:
                    raise SfdlError("missing-close", "'>' expected at end of text")
                else:
                    raise SfdlError("missing-open", f"'<' or '>' expected, got {t!r}")
            if not members:
                raise SfdlError("empty-list", "a list needs at least one member")
            return {"t": "list", "name": name, "m": members}
        if w not in names:
            raise SfdlError("unknown-item", f"{w!r} is not a catalogued data item")
        t = take()
        if t != ">":
            raise SfdlError("missing-close", f"'>' expected after {w!r}, got {t!r}")
        return {"t": "item", "name": w}

    ast = definition()
    if pos[0] != len(toks):
        raise SfdlError("trailing-text", f"text after the definition: {toks[pos[0]:pos[0] + 3]!r}")
    return ast


# ------------------------------------------------------------------------------------------------
# documented shape and keys


def is_open(node):
    return node["t"] == "list" and len(node["m"]) == 1


def is_record(node):
    return node["t"] == "list" and len(node["m"]) > 1


def key_of(member):
    """Documented key of `member` inside a record -> (key, rule) ; key None when the document defines none."""
    if member["t"] == "item":
        return member["name"], "K1"
    if member["name"] is not None:
        return member["name"], "K4"
    if is_record(member):
        return None, "U1"
    inner = member["m"][0]
    if inner["t"] == "item":
        return inner["name"], "K2"
    if inner["name"] is not None:
        return None, "U3"
    if is_record(inner):
        return "DATA", "K3"
    return None, "U2"


def shape(node):
    """Documented shape as plain data. Members whose key is undefined get the key None."""
    if node["t"] == "item":
        return node["name"]
    if is_open(node):
        return {"a": shape(node["m"][0])}
    return {"r": [[key_of(m)[0], shape(m)] for m in node["m"]]}


def undefined_keys(node):
    """List of 'U1'/'U2'/'U3' occurrences: record members whose key the document does not define."""
    out = []
    if node["t"] == "list":
        if is_record(node):
            for m in node["m"]:
                k, rule = key_of(m)
                if k is None:
                    out.append(rule)
        for m in node["m"]:
            out.extend(undefined_keys(m))
    return out


def collisions(node):
    """Number of records in which two members have the same documented key."""
    n = 0
    if node["t"] == "list":
        if is_record(node):
            keys = [key_of(m)[0] for m in node["m"]]
            keys = [k for k in keys if k is not None]
            if len(set(keys)) != len(keys):
                n += 1
        for m in node["m"]:
            n += collisions(m)
    return n


def depth(node):
    if node["t"] == "item":
        return 0
    return 1 + max(depth(m) for m in node["m"])


def width(node):
    if node["t"] == "item":
        return 0
    return max([len(node["m"])] + [width(m) for m in node["m"]])


def has_named_list(node):
    if node["t"] == "item":
        return False
    return node["name"] is not None or any(has_named_list(m) for m in node["m"])


def count_nodes(node):
    if node["t"] == "item":
        return 1
    return 1 + sum(count_nodes(m) for m in node["m"])


def canonical(node, indent=0, step=4):
    """Text in the layout used by the document's examples."""
    pad = " " * indent
    if node["t"] == "item":
        return f"{pad}< {node['name']} >"
    head = f"{pad}< L" + (f" {node['name']}" if node["name"] else "")
    body = "\n".join(canonical(m, indent + step, step) for m in node["m"])
    return f"{head}\n{body}\n{pad}>"


def selftest(item_names=("ACKC6", "LRACK", "ALCD", "ALID", "ALTX", "SVID", "VID", "DVVALNAME", "UNITS", "TRID", "DSPER",
                         "TOTSMP", "REPGSZ", "DATAID", "RPTID", "CEID", "DSID", "DVNAME", "DVVAL")):
    """The document's own examples with the shapes/keys its prose states."""
    n = set(item_names)
    assert shape(parse("< ACKC6 >", n)) == "ACKC6"
    assert shape(parse("< L\n    < ALCD >\n    < ALID >\n    < ALTX >\n>", n)) == {
        "r": [["ALCD", "ALCD"], ["ALID", "ALID"], ["ALTX", "ALTX"]]
    }
    assert shape(parse("< L\n    < SVID >\n>", n)) == {"a": "SVID"}
    assert shape(parse("< L < L < VID > < DVVALNAME > < UNITS > > >", n)) == {
        "a": {"r": [["VID", "VID"], ["DVVALNAME", "DVVALNAME"], ["UNITS", "UNITS"]]}
    }
    s2f23 = "< L < TRID > < DSPER > < TOTSMP > < REPGSZ > < L %s < SVID > > >"
    assert shape(parse(s2f23 % "", n))["r"][4] == ["SVID", {"a": "SVID"}]
    assert shape(parse(s2f23 % "SVIDS", n))["r"][4] == ["SVIDS", {"a": "SVID"}]
    s2f33 = "< L\n < DATAID >\n < L %s\n  <L\n < RPTID >\n < L\n < VID >\n >\n >\n >\n>"
    rep = {"a": {"r": [["RPTID", "RPTID"], ["VID", {"a": "VID"}]]}}
    assert shape(parse(s2f33 % "REPORTS", n)) == {"r": [["DATAID", "DATAID"], ["REPORTS", rep]]}
    assert shape(parse(s2f33 % "", n)) == {"r": [["DATAID", "DATAID"], ["DATA", rep]]}
    s6f8 = "< L < DATAID > < CEID > < L DS < L < DSID > < L DV < L < DVNAME > < DVVAL > > > > > >"
    assert shape(parse(s6f8, n)) == {
        "r": [
            ["DATAID", "DATAID"],
            ["CEID", "CEID"],
            ["DS", {"a": {"r": [["DSID", "DSID"], ["DV", {"a": {"r": [["DVNAME", "DVNAME"], ["DVVAL", "DVVAL"]]}}]]}}],
        ]
    }
    assert shape(parse("< L  # Sample list\n    < DATAID >  # The data id\n    < CEID >    # The collection event id\n>", n)) == {
        "r": [["DATAID", "DATAID"], ["CEID", "CEID"]]
    }
    for bad, kind in [
        ("< L < SVID >", "missing-close"),
        ("< L < SVID > >  >", "trailing-text"),
        ("< L < NOPE > >", "unknown-item"),
        ("< L >", "empty-list"),
        ("< l < SVID > >", "unknown-item"),
        ("L < SVID > >", "missing-open"),
        ("< L SVID > >", "empty-list"),
        ("< SVID", "missing-close"),
        ("", "missing-open"),
    ]:
        try:
            parse(bad, n)
        except SfdlError as exc:
            assert exc.kind == kind, (bad, exc.kind, kind)
        else:
            raise AssertionError(bad)
    assert undefined_keys(parse("< L < SVID > < L < VID > < UNITS > > >", n)) == ["U1"]
    assert undefined_keys(parse("< L < SVID > < L < L < VID > > > >", n)) == ["U2"]
    assert undefined_keys(parse("< L < SVID > < L < L X < VID > < UNITS > > > >", n)) == ["U3"]
    assert collisions(parse("< L < L < SVID > > < SVID > >", n)) == 1
    assert collisions(parse("< L < L A < SVID > > < SVID > >", n)) == 0
    return True
