"""Independent SEMI E4 (SECS-I) block model. Imports nothing from secsgem.

Written from the E4 block layout:

    +--------+---------------------------- 10-byte header ----------------------------+------------+----------+
    | length | R|dev hi | dev lo | W|stream | function | E|blk hi | blk lo | system x4 | data 0..244| checksum |
    +--------+---------------------------------------------------------------------------+------------+----------+

  * length byte  = number of bytes after it, not counting the two checksum bytes = 10 + len(data); range 10..254
  * header byte 0 = R-bit (1 = equipment -> host) in bit 7, upper 7 bits of the 15-bit device id below it
  * header byte 1 = lower 8 bits of the device id
  * header byte 2 = W-bit (reply expected) in bit 7, 7-bit stream below it
  * header byte 3 = function
  * header byte 4 = E-bit (last block of the message) in bit 7, upper 7 bits of the 15-bit block number
  * header byte 5 = lower 8 bits of the block number
  * header bytes 6..9 = system bytes, most significant first
  * checksum     = arithmetic sum of the header and data bytes as a 16-bit unsigned number, high byte first
  * a message body is cut into consecutive pieces of at most 244 bytes; blocks are numbered from 1; only the last
    block carries the E-bit; a message without body is one block without data; at most 32767 blocks

Fields are plain dicts: {"dev", "r", "w", "s", "f", "sys"} for a message, plus {"blk", "e"} for one block.
"""

from __future__ import annotations

MAX_DATA = 244
HEADER_LEN = 10
MAX_BLOCKS = 32767
MAX_BODY = MAX_BLOCKS * MAX_DATA

MSG_FIELDS = ("dev", "r", "w", "s", "f", "sys")
BLOCK_FIELDS = MSG_FIELDS + ("blk", "e")


class Secs1Error(Exception):
    pass


def check_fields(fields, block=True):
    if not 0 <= fields["dev"] <= 0x7FFF:
        raise Secs1Error("device id out of range")
    if fields["r"] not in (0, 1) or fields["w"] not in (0, 1):
        raise Secs1Error("R/W bit out of range")
    if not 0 <= fields["s"] <= 0x7F:
        raise Secs1Error("stream out of range")
    if not 0 <= fields["f"] <= 0xFF:
        raise Secs1Error("function out of range")
    if not 0 <= fields["sys"] <= 0xFFFFFFFF:
        raise Secs1Error("system bytes out of range")
    if block:
        if not 0 <= fields["blk"] <= 0x7FFF:
            raise Secs1Error("block number out of range")
        if fields["e"] not in (0, 1):
            raise Secs1Error("E bit out of range")


def header(fields) -> bytes:
    """The 10 header bytes of one block."""
    check_fields(fields)
    out = bytearray(10)
    out[0] = (fields["r"] << 7) | (fields["dev"] >> 8)
    out[1] = fields["dev"] & 0xFF
    out[2] = (fields["w"] << 7) | fields["s"]
    out[3] = fields["f"]
    out[4] = (fields["e"] << 7) | (fields["blk"] >> 8)
    out[5] = fields["blk"] & 0xFF
    out[6] = (fields["sys"] >> 24) & 0xFF
    out[7] = (fields["sys"] >> 16) & 0xFF
    out[8] = (fields["sys"] >> 8) & 0xFF
    out[9] = fields["sys"] & 0xFF
    return bytes(out)


def checksum(header_and_data: bytes) -> int:
    total = 0
    for b in header_and_data:
        total = (total + b) & 0xFFFF
    return total


def block(fields, data: bytes) -> bytes:
    """Complete block as sent on the line: length byte, header, data, checksum."""
    if len(data) > MAX_DATA:
        raise Secs1Error("more than 244 data bytes")
    hd = header(fields) + bytes(data)
    cs = checksum(hd)
    return bytes([len(hd)]) + hd + bytes([cs >> 8, cs & 0xFF])


def n_blocks(body_len: int) -> int:
    return max(1, -(-body_len // MAX_DATA))


def split(body: bytes):
    """Data parts of the blocks of one message."""
    if len(body) > MAX_BODY:
        raise Secs1Error("body needs more than 32767 blocks")
    if len(body) == 0:
        return [b""]
    parts = []
    pos = 0
    while pos < len(body):
        parts.append(bytes(body[pos : pos + MAX_DATA]))
        pos += MAX_DATA
    return parts


def block_fields(msg_fields, number: int, last: bool):
    f = {k: msg_fields[k] for k in MSG_FIELDS}
    f["blk"] = number
    f["e"] = 1 if last else 0
    return f


def message_blocks(msg_fields, body: bytes):
    """[(block fields, data)] of a message."""
    parts = split(body)
    return [(block_fields(msg_fields, i + 1, i + 1 == len(parts)), part) for i, part in enumerate(parts)]


def message_frames(msg_fields, body: bytes):
    return [block(f, d) for f, d in message_blocks(msg_fields, body)]


def frame_at_receiver(stream: bytes):
    """What a receiver takes from the line as one block: the length byte L, then L bytes, then two checksum bytes.

    `stream` starts at the length byte. Returns the L+3 bytes, or None when the line does not carry that many
    (the block never arrives).
    """
    if len(stream) < 1:
        return None
    need = stream[0] + 3
    if len(stream) < need:
        return None
    return bytes(stream[:need])


def parse(frame: bytes):
    """Decode one received block (exactly L+3 bytes). Returns (fields, data) or None if it is not a valid block
    (length byte outside 10..254, wrong size, or checksum mismatch)."""
    if len(frame) < 1:
        return None
    length = frame[0]
    if length < HEADER_LEN or length > HEADER_LEN + MAX_DATA:
        return None
    if len(frame) != length + 3:
        return None
    hd = frame[1 : 1 + length]
    got = (frame[1 + length] << 8) | frame[2 + length]
    if checksum(hd) != got:
        return None
    fields = {
        "r": hd[0] >> 7,
        "dev": ((hd[0] & 0x7F) << 8) | hd[1],
        "w": hd[2] >> 7,
        "s": hd[2] & 0x7F,
        "f": hd[3],
        "e": hd[4] >> 7,
        "blk": ((hd[4] & 0x7F) << 8) | hd[5],
        "sys": (hd[6] << 24) | (hd[7] << 16) | (hd[8] << 8) | hd[9],
    }
    return fields, bytes(hd[HEADER_LEN:])


def reassemble(frames):
    """Reference reassembly of received blocks (any interleaving of messages with distinct system bytes, each message
    in order). Returns the list of completed (msg_fields, body) in completion order."""
    open_msgs = {}
    done = []
    for fr in frames:
        p = parse(fr)
        if p is None:
            raise Secs1Error("invalid block")
        f, d = p
        key = f["sys"]
        cur = open_msgs.setdefault(key, {"next": 1, "parts": []})
        if f["blk"] != cur["next"]:
            raise Secs1Error("block out of order")
        cur["next"] += 1
        cur["parts"].append(d)
        if f["e"]:
            done.append(({k: f[k] for k in MSG_FIELDS}, b"".join(cur["parts"])))
            del open_msgs[key]
    return done


def position_class(pos: int, frame_len: int) -> str:
    """Name of the part of an encoded block a byte offset belongs to."""
    if pos == 0:
        return "length"
    if pos in (1, 2):
        return "header:R+device"
    if pos == 3:
        return "header:W+stream"
    if pos == 4:
        return "header:function"
    if pos in (5, 6):
        return "header:E+block"
    if 7 <= pos <= 10:
        return "header:system"
    if pos >= frame_len - 2:
        return "checksum"
    return "data"


# Hand-computed vectors: (fields, data hex, block hex)
VECTORS = [
    # header only, device 100, S0F0, block 1 last, system 2: 0x64 + 0x80 + 0x01 + 0x02 = 0xE7
    ({"dev": 100, "r": 0, "w": 0, "s": 0, "f": 0, "blk": 1, "e": 1, "sys": 2}, "", "0a" "0064" "00" "00" "8001" "00000002" "00e7"),
    # S1F1 W from equipment, device 0x7FFF, system 0xFFFFFFFF:
    # ff+ff+81+01+80+01+ff*4 = 510+129+1+128+1+1020 = 1789 = 0x06FD
    ({"dev": 0x7FFF, "r": 1, "w": 1, "s": 1, "f": 1, "blk": 1, "e": 1, "sys": 0xFFFFFFFF}, "", "0a" "ffff" "81" "01" "8001" "ffffffff" "06fd"),
    # middle block 2 of S2F3, 3 data bytes, system 0x01020304: (1+2+3+2+1+2+3+4) + (1+2+3) = 24 = 0x18
    ({"dev": 1, "r": 0, "w": 0, "s": 2, "f": 3, "blk": 2, "e": 0, "sys": 0x01020304}, "010203", "0d" "0001" "02" "03" "0002" "01020304" "010203" "0018"),
    # block number 0x0123 (291) not last, S127F255 W, R, device 0x0100, one data byte 0xAA:
    # 81+00+ff+ff+01+23+00+00+00+00 = 129+255+255+1+35 = 675, +170 = 845 = 0x034D
    ({"dev": 0x0100, "r": 1, "w": 1, "s": 127, "f": 255, "blk": 0x0123, "e": 0, "sys": 0}, "aa", "0b" "8100" "ff" "ff" "0123" "00000000" "aa" "034d"),
    # largest block: everything 0xFF, 244 data bytes 0xFF: 254 * 255 = 64770 = 0xFD02, length 254 = 0xFE
    ({"dev": 0x7FFF, "r": 1, "w": 1, "s": 127, "f": 255, "blk": 0x7FFF, "e": 1, "sys": 0xFFFFFFFF}, "ff" * 244, "fe" + "ff" * 254 + "fd02"),
]


def selftest():
    for fields, data_hex, frame_hex in VECTORS:
        data = bytes.fromhex(data_hex)
        frame = bytes.fromhex(frame_hex)
        assert block(fields, data) == frame, (fields, block(fields, data).hex(), frame_hex)
        assert parse(frame) == (fields, data), fields
        assert frame_at_receiver(frame + b"\x05") == frame
        assert frame_at_receiver(frame[:-1]) is None
        for pos in range(len(frame)):  # a single altered header/data/checksum byte is never a valid block
            for delta in (1, 0x80, 0xFF):
                bad = bytearray(frame)
                bad[pos] = (bad[pos] + delta) & 0xFF
                if pos == 0:
                    fr = frame_at_receiver(bytes(bad))
                    if fr is None:
                        continue
                    # re-framed prefix: valid only on a checksum coincidence, none in these vectors
                    assert parse(fr) is None, (fields, pos, delta)
                else:
                    assert parse(bytes(bad)) is None, (fields, pos, delta)
    # split arithmetic
    assert [len(p) for p in split(b"")] == [0]
    assert [len(p) for p in split(b"x")] == [1]
    assert [len(p) for p in split(bytes(243))] == [243]
    assert [len(p) for p in split(bytes(244))] == [244]
    assert [len(p) for p in split(bytes(245))] == [244, 1]
    assert [len(p) for p in split(bytes(488))] == [244, 244]
    assert [len(p) for p in split(bytes(489))] == [244, 244, 1]
    assert n_blocks(0) == 1 and n_blocks(1) == 1 and n_blocks(244) == 1 and n_blocks(245) == 2
    assert n_blocks(MAX_BODY) == MAX_BLOCKS and n_blocks(MAX_BODY - 243) == MAX_BLOCKS and n_blocks(MAX_BODY - 244) == MAX_BLOCKS - 1
    body = bytes((i * 7 + 3) & 0xFF for i in range(1000))
    mf = {"dev": 5, "r": 1, "w": 0, "s": 6, "f": 11, "sys": 0xDEADBEEF}
    mb = message_blocks(mf, body)
    assert [f["blk"] for f, _ in mb] == [1, 2, 3, 4, 5] and [f["e"] for f, _ in mb] == [0, 0, 0, 0, 1]
    assert b"".join(d for _, d in mb) == body
    other = dict(mf, sys=1, s=6, f=11)
    fa, fb = message_frames(mf, body), message_frames(other, body[:300])
    mixed = [fa[0], fb[0], fa[1], fa[2], fb[1], fa[3], fa[4]]
    assert reassemble(mixed) == [(other, body[:300]), (mf, body)]
    return True


if __name__ == "__main__":
    selftest()
    print("secs1 reference selftest ok")
