"""Minimal independent SML lexer and bracket/type-name analysis. Imports nothing from secsgem.

Written from the SML notation as shown in the secsgem documentation (docs/secs/items.md) and the usual SML
conventions: items are `< TYPE [n] values... >`; blanks, tabs and line ends separate tokens; `<`, `>`, `[`, `]` are
single-character tokens wherever they appear outside a literal; a literal starts at a quote character (`"` or `'`)
that begins a token and runs up to and including the next occurrence of the same quote character; everything else
is a bare token (type names, numbers, `.`).

It is used ONLY to decide, for the rejection half of property C15,
  * whether the first item of a text is unbalanced (an opening bracket whose closing bracket is missing), and
  * whether a type name inside the first item is unknown,
and to say when such a decision is not possible because the lexing itself is open to interpretation
(`ambiguous`: unterminated literal, quote character in the middle of a bare token, white space other than
blank/tab/CR/LF outside a literal).
"""

from __future__ import annotations

WHITESPACE = " \t\n\r"
OPERATORS = "<>[]"
QUOTES = "'\""

KNOWN_TYPES = ("L", "B", "BOOLEAN", "A", "J", "I1", "I2", "I4", "I8", "U1", "U2", "U4", "U8", "F4", "F8")


class Tok:
    __slots__ = ("kind", "text", "pos")

    def __init__(self, kind, text, pos):
        self.kind = kind  # "op" | "lit" | "bare"
        self.text = text
        self.pos = pos  # index of the first character in the source text

    @property
    def end(self):
        return self.pos + len(self.text)

    def __repr__(self):
        return f"{self.kind}:{self.text!r}@{self.pos}"


def lex(text):
    """-> (tokens, ambiguous: list[str]). Never raises."""
    toks = []
    amb = []
    i, n = 0, len(text)
    while i < n:
        c = text[i]
        if c in WHITESPACE:
            i += 1
            continue
        if c in OPERATORS:
            toks.append(Tok("op", c, i))
            i += 1
            continue
        if c in QUOTES:
            j = text.find(c, i + 1)
            if j < 0:
                amb.append("unterminated-literal")
                toks.append(Tok("lit", text[i:], i))
                i = n
            else:
                toks.append(Tok("lit", text[i : j + 1], i))
                i = j + 1
            continue
        j = i
        while j < n and text[j] not in WHITESPACE and text[j] not in OPERATORS:
            if text[j] in QUOTES:
                if "quote-inside-bare-token" not in amb:
                    amb.append("quote-inside-bare-token")
            elif text[j].isspace() and "exotic-whitespace" not in amb:
                amb.append("exotic-whitespace")
            j += 1
        toks.append(Tok("bare", text[i:j], i))
        i = j
    return toks, amb


def is_known_type(name):
    """SML type names are ASCII; letter case is not significant."""
    return name.isascii() and name.upper() in KNOWN_TYPES


class Analysis:
    __slots__ = ("has_item", "missing_closer", "unknown_types", "end", "depth", "type_positions", "closers")

    def __init__(self):
        self.has_item = False  # the first token is `<`
        self.missing_closer = False  # some `<` or `[` of the first item has no closing bracket
        self.unknown_types = []  # bare tokens in type position inside the first item that are no type names
        self.end = None  # token index of the `>` that closes the first item (None if it is never closed)
        self.depth = 0  # maximal `<` nesting reached inside the first item
        self.type_positions = []  # token indexes of bare tokens in type position (first item)
        self.closers = []  # token indexes of `>` tokens that close a `<` of the first item

    @property
    def must_reject(self):
        return self.has_item and (self.missing_closer or bool(self.unknown_types))


def analyse(toks, dot_closes_list=False):
    """Bracket matching over the first item.

    dot_closes_list=True is NOT the grammar: it models one specific observed defect (a bare `.` accepted in place
    of the `>` of a list) and is used only to attribute an acceptance to that root cause.
    """
    a = Analysis()
    n = len(toks)
    if n == 0 or not (toks[0].kind == "op" and toks[0].text == "<"):
        return a
    a.has_item = True
    stack = []  # entries: ("<", type name or None) | ("[", None)
    i = 0
    while i < n:
        t = toks[i]
        if t.kind == "op":
            if t.text == "<":
                name = None
                if i + 1 < n and toks[i + 1].kind == "bare":
                    name = toks[i + 1].text
                    a.type_positions.append(i + 1)
                    if not is_known_type(name):
                        a.unknown_types.append(name)
                stack.append(("<", name))
                a.depth = max(a.depth, sum(1 for s in stack if s[0] == "<"))
                if name is not None:
                    i += 1  # the type name token is consumed with its bracket
            elif t.text == "[":
                stack.append(("[", None))
            elif t.text == "]":
                if stack and stack[-1][0] == "[":
                    stack.pop()
                # a `]` without an open `[` is an extra closing bracket, not a missing one
            else:  # ">"
                while stack and stack[-1][0] == "[":
                    stack.pop()
                    a.missing_closer = True  # `[` never closed before its item ended
                stack.pop()
                a.closers.append(i)
                if not stack:
                    a.end = i
                    return a
        elif dot_closes_list and t.kind == "bare" and t.text == "." and stack and stack[-1][0] == "<":
            name = stack[-1][1]
            if name is not None and name.upper() == "L":
                stack.pop()
                if not stack:
                    a.end = i
                    return a
        i += 1
    a.missing_closer = True  # end of text with an open bracket
    return a


def selftest():
    def an(s, **kw):
        toks, amb = lex(s)
        return analyse(toks, **kw), amb

    a, amb = an("< L [2] < U1 1 > < A \"x > y\" > >")
    assert a.has_item and not a.must_reject and not amb and a.depth == 2 and a.end == 13, (a.end, a.depth)
    assert an("< L [2] < U1 1 > < A \"x\" > ")[0].missing_closer
    assert an("<L<U1 1>")[0].missing_closer
    assert not an("<L<U1 1>>")[0].must_reject
    assert an("< L [1 < U1 1 > >")[0].missing_closer
    assert not an("< L ] >")[0].must_reject
    assert an("< X 1 >")[0].unknown_types == ["X"]
    assert an("< L < u1 1 > < Q > >")[0].unknown_types == ["Q"]
    assert an("< U1 1 > < X >")[0].unknown_types == []  # outside the first item
    assert an("< ı1 1 >")[0].unknown_types == ["ı1"]
    assert not an("U1 1 >")[0].has_item
    assert an("< L . ")[0].missing_closer and not an("< L . ", dot_closes_list=True)[0].must_reject
    assert an("< U1 . ", dot_closes_list=True)[0].missing_closer
    assert an("< A \"abc >")[1] == ["unterminated-literal"]
    assert an("< A ab\"c\" >")[1] == ["quote-inside-bare-token"]
    assert [t.text for t in lex("<A \"a b\"0x1>")[0]] == ["<", "A", '"a b"', "0x1", ">"]
    return True
