"""Reference model for C13: GEM status variables, equipment constants and alarms of an equipment.

Written from SEMI E5 (message semantics of S1F3/4, S1F11/12, S2F13/14, S2F15/16, S2F29/30, S5F1, S5F3/4, S5F5/6, S5F7/8)
and SEMI E30 (names of the predefined variables). Imports nothing from secsgem. Works on `vf.ref.e5` item trees.

E5 rules used
  S1F4    L,n of SV in the order requested; a zero-length LIST item for SVi means the SVID does not exist;
          S1F3 with a zero-length list requests all SVIDs
  S1F12   L,n of L,3 <SVID><SVNAM><UNITS>; zero-length A items for SVNAM and UNITS mean the SVID does not exist
  S2F14   as S1F4 for ECV;  S2F30 L,6 <ECID><ECNAM><ECMIN><ECMAX><ECDEF><UNITS>, zero-length items for unknown ECID
  S2F16   EAC: 0 ok, 1 one or more constants do not exist, 2 busy, 3 one or more values out of range; the equipment
          must not change ANY constant unless EAC is 0 ("if any ECID is invalid or any value out of range none is set")
  S5F1    L,3 <ALCD><ALID><ALTX>; ALCD bit 8 = 1 alarm set / 0 alarm cleared, bits 7-1 category code
  S5F3    L,2 <ALED><ALID>; ALED bit 8 = 1 enable; S5F4 ACKC5 0 = accepted, > 0 error
  S5F6/8  L,n of L,3 <ALCD><ALID><ALTX>

Ids are keys ("i", n) for every integer item format holding one value n, ("t", text) for A items: the number 10 and the
text "10" are different ids, 10 as U1 and 10 as I8 are the same id.
"""

from __future__ import annotations

import math
import re

from vf.ref import e5

INTS = e5.INTS
FLOATS = e5.FLOATS


# ---------------------------------------------------------------------------------------------- plain data helpers
def key_of_py(pyid):
    return ("t", pyid) if isinstance(pyid, str) else ("i", int(pyid))


def key_of_item(item):
    """Id key of an item tree, None if the item is not a single-valued integer / a text item."""
    fmt, p = item
    if fmt in INTS and len(p) == 1:
        return ("i", p[0])
    if fmt == "A":
        return ("t", e5.latin1_to_str(p))
    return None


def val_py(spec):
    """["i", n] | ["f", f8 bits] | ["t", text] | ["b", bool] -> python value."""
    k, v = spec
    if k == "i":
        return int(v)
    if k == "f":
        return e5.bits_f8(int(v))
    if k == "t":
        return str(v)
    if k == "b":
        return bool(v)
    raise ValueError(spec)


def value_item(typ, v):
    """The item an equipment reports for a variable of declared format `typ` holding python value v."""
    if typ in INTS:
        return (typ, [int(v)])
    if typ == "F8":
        return ("F8", [e5.f8_bits(float(v))])
    if typ == "F4":
        return ("F4", [e5.f4_bits(float(v))])
    if typ == "A":
        return ("A", str(v).encode("latin-1"))
    if typ == "BOOLEAN":
        return ("BOOLEAN", [bool(v)])
    raise ValueError(typ)


def item_number(item):
    """Numeric value of a single-valued numeric item (int or float), else None."""
    fmt, p = item
    if fmt in INTS and len(p) == 1:
        return p[0]
    if fmt in FLOATS and len(p) == 1:
        return e5.bits_float(fmt, p[0])
    return None


def is_empty_nonlist(item):
    return item[0] != "L" and len(item[1]) == 0


CLOCK_RE = {
    0: re.compile(rb"^\d{12}$"),
    1: re.compile(rb"^\d{16}$"),
    2: re.compile(rb"^\d{4}-\d\d-\d\dT\d\d:\d\d:\d\d(\.\d+)?(Z|[+-]\d\d:\d\d)$"),
}

PREDEFINED_SV = [
    (1001, "Clock"),
    (1002, "ControlState"),
    (1003, "EventsEnabled"),
    (1004, "AlarmsEnabled"),
    (1005, "AlarmsSet"),
]


class Wild:
    """Value of a constant after an accepted S2F15 whose ECV the statement does not pin: any value in [min, max]."""

    def __repr__(self):
        return "<any value in range>"


WILD = Wild()


class Tables:
    def __init__(self, setup):
        self.sv = {}
        for n, name in PREDEFINED_SV:
            self.sv[("i", n)] = {"name": name, "unit": "", "type": None, "value": None, "special": n}
        for d in setup["svs"]:
            self.sv[key_of_py(d["id"])] = {"name": d["name"], "unit": d["unit"], "type": d["type"], "value": val_py(d["init"]), "special": None}
        self.ec = {}  # predefined constants 1, 2 are learned from the equipment's own S2F30 (declare())
        self._user_ec = []
        for d in setup["ecs"]:
            self._user_ec.append(
                (
                    key_of_py(d["id"]),
                    {
                        "name": d["name"],
                        "unit": d["unit"],
                        "type": d["type"],
                        "min": val_py(d["min"]),
                        "max": val_py(d["max"]),
                        "def": val_py(d["def"]),
                        "value": val_py(d["def"]),
                        "predefined": False,
                    },
                )
            )
        self.al = {}
        for d in setup["alarms"]:
            self.al[key_of_py(d["id"])] = {"text": d["text"], "code": d["code"], "enabled": False, "set": False}
        self.time_format = 1

    # ---- predefined constants (E30: EstablishCommunicationsTimeout, TimeFormat): declared limits come from S2F30
    def declare_predefined(self, entries, values):
        """entries: decoded S2F30 L,6 entries for ECID 1 and 2; values: decoded S2F14 items. Returns error text or None."""
        if len(entries) != 2 or len(values) != 2:
            return "two entries expected"
        for want, ent, val in zip((1, 2), entries, values):
            if ent[0] != "L" or len(ent[1]) != 6 or key_of_item(ent[1][0]) != ("i", want):
                return f"bad entry {ent}"
            mn, mx, df, v = item_number(ent[1][2]), item_number(ent[1][3]), item_number(ent[1][4]), item_number(val)
            if None in (mn, mx, df, v) or val[0] not in INTS or not mn <= v <= mx:
                return f"bad limits {ent} {val}"
            self.ec[("i", want)] = {
                "name": e5.latin1_to_str(ent[1][1][1]),
                "unit": e5.latin1_to_str(ent[1][5][1]),
                "type": val[0],
                "min": mn,
                "max": mx,
                "def": df,
                "value": v,
                "predefined": True,
            }
        for k, d in self._user_ec:
            self.ec[k] = d
        if self.ec[("i", 2)]["value"] not in (0, 1, 2):
            return "TimeFormat not in 0..2"
        self.time_format = self.ec[("i", 2)]["value"]
        return None

    # ------------------------------------------------------------------------------------------ status variables
    def sv_matcher(self, key):
        d = self.sv[key]
        sp = d["special"]
        if sp == 1001:
            tf = self.ec.get(("i", 2))
            return ("clock", None if tf is not None and tf["value"] is WILD else self.time_format)
        if sp == 1002:
            return ("b1",)
        if sp == 1003:
            return ("eq", ("L", []))
        if sp == 1004:
            return ("idlist", sorted(k for k, a in self.al.items() if a["enabled"]))
        if sp == 1005:
            return ("idlist", sorted(k for k, a in self.al.items() if a["set"]))
        return ("eq", value_item(d["type"], d["value"]))

    def s1f4(self, keys):
        if not keys:
            return [self.sv_matcher(k) for k in self.sv]
        return [self.sv_matcher(k) if k in self.sv else ("eq", ("L", [])) for k in keys]

    def s1f12(self, keys):
        """-> (entries, ordered): entries (key, name, unit); name None = unknown id."""
        if not keys:
            return [(k, d["name"], d["unit"]) for k, d in self.sv.items()], False
        return [(k, self.sv[k]["name"], self.sv[k]["unit"]) if k in self.sv else (k, None, None) for k in keys], True

    # ------------------------------------------------------------------------------------------ constants
    def ec_matcher(self, key):
        d = self.ec[key]
        if d["value"] is WILD:
            return ("wild", key)
        return ("eq", value_item(d["type"], d["value"]))

    def s2f14(self, keys):
        if not keys:
            return [self.ec_matcher(k) for k in self.ec]
        return [self.ec_matcher(k) if k in self.ec else ("eq", ("L", [])) for k in keys]

    def s2f30(self, keys):
        if not keys:
            return [(k, d) for k, d in self.ec.items()], False
        return [(k, self.ec.get(k)) for k in keys], True

    def classify_ecv(self, key, item):
        """-> (verdict, value): 'unknown' | 'nan' | 'range' | 'ok' (value to store) | 'soft' (not pinned by the statement)."""
        if key not in self.ec:
            return "unknown", None
        d = self.ec[key]
        x = item_number(item)
        if x is None:
            return "soft", None  # text, binary, boolean, several values, no value
        if isinstance(x, float) and math.isnan(x):
            return "nan", None  # NaN is not inside any [min, max]
        int_const = d["type"] in INTS
        if int_const != (item[0] in INTS):
            return "soft", None  # float for an integer constant / integer for a float constant
        if x < d["min"] or x > d["max"]:
            return "range", None
        return "ok", x

    def s2f15_plan(self, pairs):
        """pairs: [(key, item)] -> dict(eacs=set of acceptable EAC values or None (any non-zero), may_accept, must_accept, updates)."""
        verdicts = [self.classify_ecv(k, it) for k, it in pairs]
        kinds = [v for v, _ in verdicts]
        bad = [v for v in kinds if v in ("unknown", "nan", "range")]
        soft = "soft" in kinds
        plan = {"verdicts": kinds, "updates": [(k, (WILD if v == "soft" else x)) for (k, _), (v, x) in zip(pairs, verdicts)]}
        if bad:
            plan["accept"] = "never"
            codes = set()
            if "unknown" in bad:
                codes.add(1)
            if "range" in bad:
                codes.add(3)
            plan["eacs"] = None if (soft or "nan" in bad) else codes
        elif soft:
            plan["accept"] = "may"
            plan["eacs"] = None
        else:
            plan["accept"] = "must"
            plan["eacs"] = {0}
        return plan

    def s2f15_apply(self, plan):
        for k, v in plan["updates"]:
            self.ec[k]["value"] = v
            if k == ("i", 2) and v is not WILD:
                self.time_format = v

    # ------------------------------------------------------------------------------------------ alarms
    def alarm_entry(self, key):
        a = self.al[key]
        return (bytes([a["code"] | (0x80 if a["set"] else 0)]), key, a["text"])

    def s5f6(self, keys):
        """-> (entries, ordered, has_unknown); unknown entries are (None, key, None)."""
        if not keys:
            return [self.alarm_entry(k) for k in self.al], False, False
        return [self.alarm_entry(k) if k in self.al else (None, k, None) for k in keys], True, any(k not in self.al for k in keys)

    def s5f8(self):
        return [self.alarm_entry(k) for k, a in self.al.items() if a["enabled"]]

    def s5f3(self, key, enable):
        if key not in self.al:
            return False
        self.al[key]["enabled"] = bool(enable)
        return True

    def alarm_change(self, key, to_set):
        """set_alarm / clear_alarm on the equipment -> ('unknown' | 'nochange' | 'silent' | 'report', S5F1 entry or None)."""
        if key not in self.al:
            return "unknown", None
        a = self.al[key]
        if a["set"] == bool(to_set):
            return "nochange", None
        a["set"] = bool(to_set)
        if a["enabled"]:
            return "report", self.alarm_entry(key)
        return "silent", None


# ------------------------------------------------------------------------------------------------ comparisons
def match_value(matcher, item, tables):
    """None if item satisfies the matcher, else a short reason. ('wild', key) adopts the observed value."""
    kind = matcher[0]
    if kind == "eq":
        if item == matcher[1]:
            return None
        if matcher[1] == ("L", []):
            return "not-empty-list"
        if item == ("L", []):
            return "empty-item-for-known-id"
        return "value"
    if kind == "clock":
        if item[0] == "A" and any(CLOCK_RE[tf].match(item[1]) for tf in ((0, 1, 2) if matcher[1] is None else (matcher[1],))):
            return None
        return "clock-format"
    if kind == "b1":
        return None if item[0] == "B" and len(item[1]) == 1 else "control-state-format"
    if kind == "idlist":
        if item[0] != "L":
            return "id-list"
        keys = [key_of_item(x) for x in item[1]]
        if None in keys or sorted(keys) != list(matcher[1]):
            return "id-list"
        return None
    if kind == "wild":
        d = tables.ec[matcher[1]]
        x = item_number(item)
        if item[0] != d["type"] or x is None or (isinstance(x, float) and math.isnan(x)) or not d["min"] <= x <= d["max"]:
            return "out-of-range-after-accepted-s2f15"
        d["value"] = x
        if matcher[1] == ("i", 2):
            tables.time_format = x
        return None
    raise ValueError(matcher)


def match_values(matchers, body, tables):
    if body is None or body[0] != "L":
        return "structure"
    if len(body[1]) != len(matchers):
        return "count"
    for mt, it in zip(matchers, body[1]):
        r = match_value(mt, it, tables)
        if r:
            return r
    return None


def _text(item):
    return e5.latin1_to_str(item[1]) if item[0] == "A" else None


def match_names(entries, ordered, body, width, render, idpos, entry_key):
    """Generic L,n of L,width comparison; render(entry, decoded sub-items) -> reason or None.
    Not ordered (request for "all"): both sides are sorted by id key first (the id travels in sub-item idpos)."""
    if body is None or body[0] != "L":
        return "structure"
    got = body[1]
    if len(got) != len(entries):
        return "count"
    for g in got:
        if g[0] != "L" or len(g[1]) != width:
            return "structure"
    if not ordered:
        keys = [key_of_item(g[1][idpos]) for g in got]
        if None in keys:
            return "id"
        got = [g for _, g in sorted(zip(keys, got), key=lambda t: t[0])]
        entries = sorted(entries, key=entry_key)
    for e, g in zip(entries, got):
        r = render(e, g[1])
        if r:
            return r
    return None


def sv_name_render(e, sub):
    key, name, unit = e
    if key_of_item(sub[0]) != key:
        return "id"
    if name is None:
        return None if is_empty_nonlist(sub[1]) and is_empty_nonlist(sub[2]) else "unknown-id-not-empty"
    return None if (_text(sub[1]), _text(sub[2])) == (name, unit) else "name"


def ec_name_render(e, sub):
    key, d = e
    if key_of_item(sub[0]) != key:
        return "id"
    if d is None:
        return None if all(is_empty_nonlist(s) for s in sub[1:]) else "unknown-id-not-empty"
    if (_text(sub[1]), _text(sub[5])) != (d["name"], d["unit"]):
        return "name"
    nums = [item_number(s) for s in sub[2:5]]
    if None in nums or nums != [d["min"], d["max"], d["def"]]:
        return "limits"
    return None


def alarm_render(e, sub):
    alcd, key, text = e
    if key_of_item(sub[1]) != key:
        return "id"
    if alcd is None:
        return None if is_empty_nonlist(sub[0]) and is_empty_nonlist(sub[2]) else "unknown-id-not-empty"
    if sub[0] != ("B", alcd):
        return "alcd"
    return None if _text(sub[2]) == text else "text"


def match_alarm_report(entry, body):
    if body is None or body[0] != "L" or len(body[1]) != 3:
        return "structure"
    return alarm_render(entry, body[1])
