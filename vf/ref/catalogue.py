"""Independent reader of the secsgem YAML catalogue (functions.yaml / data_items.yaml). Imports nothing from secsgem.

* functions(): {(S, F): Fn}   Fn.name "S06F11", .stream, .function, .structure (text or None), .shape (tree or None),
                              .to_host .to_equipment .reply .reply_required .multi_block (as named in the YAML)
* items():     {NAME: Item}   Item.types = E5 format names in YAML order, .dynamic (several alternatives), .length
* parse_sfdl(text) -> shape tree, written from docs/firststeps/sfdl.md:
      ("item", NAME)
      ("array", key, child)          `< L [NAME] one-member >`     open list, any number of `child`
      ("record", key, [children])    `< L [NAME] m1 m2 ... >`      fixed list, one value per member, read as a dict
  key = the name written after L, else None.  member_key(node) is the dict key of a member inside a record:
  a data item -> its name; an open list of one data item -> that item's name; any other nested list -> "DATA";
  a name written after L overrides both.
"""

from __future__ import annotations

import os
import re

import yaml

REPO = os.environ.get("VF_REPO", "/repo")

# YAML type name -> E5 format name
TYPE_NAMES = {
    "A": "A",
    "String": "A",
    "Array": "L",
    "Binary": "B",
    "Boolean": "BOOLEAN",
    "F4": "F4",
    "F8": "F8",
    "I1": "I1",
    "I2": "I2",
    "I4": "I4",
    "I8": "I8",
    "U1": "U1",
    "U2": "U2",
    "U4": "U4",
    "U8": "U8",
}


class CatalogueError(ValueError):
    pass


class Fn:
    def __init__(self, name, stream, function, raw):
        self.name = name
        self.stream = stream
        self.function = function
        self.to_host = raw["to_host"]
        self.to_equipment = raw["to_equipment"]
        self.reply = raw["reply"]
        self.reply_required = raw["reply_required"]
        self.multi_block = raw["multi_block"]
        self.structure = raw.get("structure")
        if isinstance(self.structure, list):  # schema allows a list of lines
            self.structure = "\n".join(self.structure)
        self.shape = parse_sfdl(self.structure) if self.structure is not None else None


class Item:
    def __init__(self, name, raw):
        self.name = name
        t = raw["type"]
        self.dynamic = isinstance(t, list)
        self.types = [TYPE_NAMES[x] for x in (t if self.dynamic else [t])]
        self.length = raw.get("length")  # maximum number of elements (None = unlimited)


def _load(fn):
    with open(os.path.join(REPO, "secsgem", "secs", fn), encoding="utf-8") as fh:
        return yaml.safe_load(fh)


def functions(repo=None):
    out = {}
    for key, raw in _load("functions.yaml").items():
        m = re.fullmatch(r"S(\d+)F(\d+)", key)
        if not m:
            raise CatalogueError(f"bad function key {key}")
        sf = (int(m.group(1)), int(m.group(2)))
        if sf in out:
            raise CatalogueError(f"{key} listed twice (as {out[sf].name})")
        out[sf] = Fn(key, sf[0], sf[1], raw)
    return out


def items():
    return {name: Item(name, raw) for name, raw in _load("data_items.yaml").items()}


# ---- structure definition language


def tokens(text):
    out = []
    for line in text.splitlines():
        line = line.split("#", 1)[0]
        out += re.findall(r"[<>]|[^\s<>]+", line)
    return out


def parse_sfdl(text):
    toks = tokens(text)
    node, pos = _node(toks, 0)
    if pos != len(toks):
        raise CatalogueError(f"trailing tokens {toks[pos:]}")
    return node


def _node(toks, pos):
    if pos >= len(toks) or toks[pos] != "<":
        raise CatalogueError(f"'<' expected at token {pos}")
    if pos + 1 >= len(toks) or toks[pos + 1] in "<>":
        raise CatalogueError(f"name expected at token {pos + 1}")
    word = toks[pos + 1]
    pos += 2
    if word.upper() != "L":
        if pos >= len(toks) or toks[pos] != ">":
            raise CatalogueError(f"'>' expected after {word}")
        return ("item", word.upper()), pos + 1
    key = None
    if pos < len(toks) and toks[pos] not in "<>":
        key = toks[pos]
        pos += 1
    members = []
    while True:
        if pos >= len(toks):
            raise CatalogueError("unclosed list")
        if toks[pos] == ">":
            pos += 1
            break
        sub, pos = _node(toks, pos)
        members.append(sub)
    if len(members) == 1:
        return ("array", key, members[0]), pos
    return ("record", key, members), pos


def member_key(node):
    if node[0] == "item":
        return node[1]
    if node[1] is not None:
        return node[1]
    if node[0] == "array" and node[2][0] == "item":
        return node[2][1]
    return "DATA"


def record_keys(node):
    return [member_key(m) for m in node[2]]


def item_names(shape):
    """Data item names used in a shape, in order of appearance (with repeats)."""
    if shape is None:
        return []
    if shape[0] == "item":
        return [shape[1]]
    if shape[0] == "array":
        return item_names(shape[2])
    out = []
    for m in shape[2]:
        out += item_names(m)
    return out


def arrays_in(shape):
    """Number of open-list nodes in a shape."""
    if shape is None or shape[0] == "item":
        return 0
    if shape[0] == "array":
        return 1 + arrays_in(shape[2])
    return sum(arrays_in(m) for m in shape[2])


def duplicate_keys(shape):
    """Records whose members would share a dict key (such a structure cannot be addressed by key)."""
    if shape is None or shape[0] == "item":
        return []
    if shape[0] == "array":
        return duplicate_keys(shape[2])
    keys = record_keys(shape)
    out = [k for k in sorted(set(keys)) if keys.count(k) > 1]
    for m in shape[2]:
        out += duplicate_keys(m)
    return out
