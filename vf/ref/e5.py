"""Independent SEMI E5 (SECS-II) item codec. Imports nothing from secsgem.

Item tree: (fmt, payload)
  fmt in FORMATS; payload:
    L        -> list of item trees
    B        -> bytes
    BOOLEAN  -> list of bools   (decode: any non-zero byte is True)
    A, J     -> bytes (the raw payload bytes; text interpretation is done by callers)
    I*/U*    -> list of ints
    F4/F8    -> list of ints: the IEEE-754 bit patterns (exact, NaN-safe)
"""

from __future__ import annotations

import struct

# format codes typed in from SEMI E5 table 1 (octal)
CODES = {
    "L": 0o00,
    "B": 0o10,
    "BOOLEAN": 0o11,
    "A": 0o20,
    "J": 0o21,
    "I8": 0o30,
    "I1": 0o31,
    "I2": 0o32,
    "I4": 0o34,
    "F8": 0o40,
    "F4": 0o44,
    "U8": 0o50,
    "U1": 0o51,
    "U2": 0o52,
    "U4": 0o54,
}
NAMES = {v: k for k, v in CODES.items()}
WIDTH = {"I1": 1, "I2": 2, "I4": 4, "I8": 8, "U1": 1, "U2": 2, "U4": 4, "U8": 8, "F4": 4, "F8": 8}
INTS = ("I1", "I2", "I4", "I8", "U1", "U2", "U4", "U8")
FLOATS = ("F4", "F8")
MAXLEN = 0xFFFFFF


class E5Error(ValueError):
    pass


def int_range(fmt):
    w = WIDTH[fmt] * 8
    if fmt[0] == "U":
        return 0, (1 << w) - 1
    return -(1 << (w - 1)), (1 << (w - 1)) - 1


def min_nlb(length):
    if length <= 0xFF:
        return 1
    if length <= 0xFFFF:
        return 2
    if length <= 0xFFFFFF:
        return 3
    raise E5Error("length too big")


def header(fmt, length, nlb=None):
    if nlb is None:
        nlb = min_nlb(length)
    if nlb not in (1, 2, 3) or length >= (1 << (8 * nlb)):
        raise E5Error("bad length bytes")
    return bytes([(CODES[fmt] << 2) | nlb]) + length.to_bytes(nlb, "big")


def payload_bytes(fmt, payload):
    if fmt in ("B", "A", "J"):
        return bytes(payload)
    if fmt == "BOOLEAN":
        return bytes(1 if b else 0 for b in payload)
    if fmt in INTS:
        w = WIDTH[fmt]
        return b"".join(int(v).to_bytes(w, "big", signed=(fmt[0] == "I")) for v in payload)
    if fmt in FLOATS:
        w = WIDTH[fmt]
        return b"".join(int(v).to_bytes(w, "big") for v in payload)
    raise E5Error(fmt)


def encode(item, nlb_of=None):
    """Encode an item tree. nlb_of: optional callable(item, minimal)->1|2|3 choosing length bytes."""
    fmt, payload = item
    if fmt == "L":
        body = b"".join(encode(sub, nlb_of) for sub in payload)
        n = len(payload)
    else:
        body = payload_bytes(fmt, payload)
        n = len(body)
    nlb = min_nlb(n)
    if nlb_of is not None:
        nlb = nlb_of(item, nlb)
    return header(fmt, n, nlb) + body


def decode(data, pos=0, depth=0, max_depth=10000):
    """Decode one item at pos; returns (item, newpos). Raises E5Error on invalid data."""
    if depth > max_depth:
        raise E5Error("too deep")
    if pos >= len(data):
        raise E5Error("no data")
    fb = data[pos]
    code, nlb = fb >> 2, fb & 3
    if code not in NAMES:
        raise E5Error(f"unknown format code {code:o}")
    if nlb == 0:
        raise E5Error("zero length bytes")
    if pos + 1 + nlb > len(data):
        raise E5Error("truncated length")
    length = int.from_bytes(data[pos + 1 : pos + 1 + nlb], "big")
    pos += 1 + nlb
    fmt = NAMES[code]
    if fmt == "L":
        items = []
        for _ in range(length):
            sub, pos = decode(data, pos, depth + 1, max_depth)
            items.append(sub)
        return (fmt, items), pos
    if pos + length > len(data):
        raise E5Error("truncated payload")
    raw = bytes(data[pos : pos + length])
    pos += length
    if fmt in ("B", "A", "J"):
        return (fmt, raw), pos
    if fmt == "BOOLEAN":
        return (fmt, [b != 0 for b in raw]), pos
    w = WIDTH[fmt]
    if length % w:
        raise E5Error("length not a multiple of element width")
    if fmt in INTS:
        return (fmt, [int.from_bytes(raw[i : i + w], "big", signed=(fmt[0] == "I")) for i in range(0, length, w)]), pos
    return (fmt, [int.from_bytes(raw[i : i + w], "big") for i in range(0, length, w)]), pos


def decode_all(data):
    item, pos = decode(data)
    if pos != len(data):
        raise E5Error("trailing bytes")
    return item


# ---- float helpers (bit patterns <-> python floats)


def f4_bits(x: float) -> int:
    return struct.unpack(">I", struct.pack(">f", x))[0]


def f8_bits(x: float) -> int:
    return struct.unpack(">Q", struct.pack(">d", x))[0]


def bits_f4(b: int) -> float:
    return struct.unpack(">f", b.to_bytes(4, "big"))[0]


def bits_f8(b: int) -> float:
    return struct.unpack(">d", b.to_bytes(8, "big"))[0]


def bits_float(fmt, b):
    return bits_f4(b) if fmt == "F4" else bits_f8(b)


def float_bits(fmt, x):
    return f4_bits(x) if fmt == "F4" else f8_bits(x)


def is_finite_bits(fmt, b):
    if fmt == "F4":
        return (b >> 23) & 0xFF != 0xFF
    return (b >> 52) & 0x7FF != 0x7FF


# ---- JIS X 0201 (JIS-8) reference table: byte -> unicode code point
def jis8_table():
    t = {i: i for i in range(256)}
    t[0x5C] = 0x00A5
    t[0x7E] = 0x203E
    for i in range(0xA1, 0xE0):
        t[i] = 0xFF61 + (i - 0xA1)
    return t


JIS8 = jis8_table()
JIS8_REV = {v: k for k, v in JIS8.items()}


def jis8_to_str(raw: bytes) -> str:
    return "".join(chr(JIS8[b]) for b in raw)


def latin1_to_str(raw: bytes) -> str:
    return "".join(chr(b) for b in raw)


# ---- hand-computed vectors (SEMI E5 examples) used by the self-test of the reference
VECTORS = [
    (("L", []), "0100"),
    (("U1", [255]), "a501ff"),
    (("I2", [-2]), "6902fffe"),
    (("A", b"AB"), "41024142"),
    (("B", b"\x00\xff"), "210200ff"),
    (("BOOLEAN", [True, False]), "25020100"),
    (("U4", [1, 2]), "b1080000000100000002"),
    (("F4", [0x3F800000]), "91043f800000"),
    (("F8", [0x3FF0000000000000]), "81083ff0000000000000"),
    (("L", [("U1", [1]), ("A", b"x")]), "0102a5010141" + "0178"),
    (("I8", [-1]), "6108ffffffffffffffff"),
    (("J", b"\xb1"), "4501b1"),
]


def selftest():
    for item, hexs in VECTORS:
        assert encode(item).hex() == hexs, (item, encode(item).hex(), hexs)
        assert decode_all(bytes.fromhex(hexs)) == item, (item,)
    assert header("A", 256).hex() == "42" + "0100"
    assert header("A", 65536).hex() == "43" + "010000"
    assert header("A", 5, 3).hex() == "43" + "000005"
    return True
