"""Independent SEMI E37 (HSMS) frame codec and session model. Imports nothing from secsgem."""

from __future__ import annotations

import struct

DATA, SELECT_REQ, SELECT_RSP, DESELECT_REQ, DESELECT_RSP, LINKTEST_REQ, LINKTEST_RSP, REJECT_REQ, SEPARATE_REQ = 0, 1, 2, 3, 4, 5, 6, 7, 9
STYPES = (0, 1, 2, 3, 4, 5, 6, 7, 9)
NAMES = {0: "DATA", 1: "SELECT_REQ", 2: "SELECT_RSP", 3: "DESELECT_REQ", 4: "DESELECT_RSP", 5: "LINKTEST_REQ", 6: "LINKTEST_RSP", 7: "REJECT_REQ", 9: "SEPARATE_REQ"}


def frame(session, byte2, byte3, ptype, stype, system, body=b""):
    """4-byte length (header+body), 10-byte header, body."""
    return struct.pack(">LHBBBBL", 10 + len(body), session & 0xFFFF, byte2 & 0xFF, byte3 & 0xFF, ptype & 0xFF, stype & 0xFF, system & 0xFFFFFFFF) + bytes(body)


def data_frame(session, stream, function, wbit, system, body=b""):
    return frame(session, (0x80 if wbit else 0) | (stream & 0x7F), function, 0, DATA, system, body)


def control_frame(stype, system, byte2=0, byte3=0, session=0xFFFF):
    return frame(session, byte2, byte3, 0, stype, system)


def parse(buf: bytes):
    """Split a byte stream into frames -> (list of dicts, remaining bytes)."""
    out = []
    pos = 0
    while len(buf) - pos >= 4:
        (ln,) = struct.unpack(">L", buf[pos : pos + 4])
        if ln < 10:
            raise ValueError(f"frame length {ln} < 10")
        if len(buf) - pos - 4 < ln:
            break
        session, b2, b3, ptype, stype, system = struct.unpack(">HBBBBL", buf[pos + 4 : pos + 14])
        out.append(
            {
                "session": session,
                "byte2": b2,
                "byte3": b3,
                "w": b2 >> 7,
                "stream": b2 & 0x7F,
                "function": b3,
                "ptype": ptype,
                "stype": stype,
                "system": system,
                "body": bytes(buf[pos + 14 : pos + 4 + ln]),
            }
        )
        pos += 4 + ln
    return out, bytes(buf[pos:])


NOT_CONNECTED, NOT_SELECTED, SELECTED = "NOT_CONNECTED", "NOT_SELECTED", "SELECTED"


def selftest():
    f = data_frame(0x0102, 1, 13, True, 0xDEADBEEF, b"\x01\x00")
    assert f.hex() == "0000000c" + "0102" + "81" + "0d" + "00" + "00" + "deadbeef" + "0100", f.hex()
    assert control_frame(SELECT_REQ, 7).hex() == "0000000a" + "ffff" + "0000" + "00" + "01" + "00000007"
    fr, rest = parse(f + control_frame(LINKTEST_REQ, 9) + b"\x00\x00")
    assert len(fr) == 2 and rest == b"\x00\x00" and fr[0]["w"] == 1 and fr[0]["stream"] == 1 and fr[1]["stype"] == 5
    return True
