"""SECS-I line rig under detsim: two real SecsIProtocol endpoints joined by a controller-driven line actor.

Endpoint A is a TCP client (SecsITcpSettings CLIENT -> port P1), endpoint B a TCP server (SERVER, port P2). The line
actor owns a listener on P1 and a client socket to P2 and carries every byte from one endpoint to the other. It is NOT
a simulated thread: the controller alternates `sim.settle()` (or a bounded number of scheduling steps) with reading what
each endpoint has emitted and delivering the next chunk to the other endpoint. The actor
  * keeps the EMITTED transcript (who put which bytes on the line, in which order, at which virtual time),
  * re-chunks multi-byte bursts (blocks) by a plain-data plan (uniform chunk size, explicit cut offsets, virtual delays,
    number of scheduling steps granted to the endpoints between two chunks),
  * applies the fault plan: ONE byte of ONE burst replaced while it is carried.
Handshake characters typed in from SEMI E4: ENQ 0x05, EOT 0x04, ACK 0x06, NAK 0x15.
"""

from __future__ import annotations

from vf.detsim.patch import simulation

ADDR = "127.0.0.1"
P1, P2 = 5001, 5002
ENQ, EOT, ACK, NAK = 0x05, 0x04, 0x06, 0x15
DELAYS = (0.0, 0.001, 0.2, 0.6, 1.2)  # virtual seconds; 0.6 and 1.2 exceed the connection classes' 0.5 s select timeout


def make_world(sched):
    return simulation(
        sched_seed=sched.get("seed", 0),
        switch_prob=sched.get("switch", 0.0),
        system_counter=sched.get("syscnt", 1000),
    )


class Endpoint:
    def __init__(self, world, name, client, host, device_id):
        import secsgem.common
        import secsgem.secsitcp

        self.name = name
        self.host = host
        self.sim = world.sim
        mode = secsgem.secsitcp.SecsITcpConnectMode.CLIENT if client else secsgem.secsitcp.SecsITcpConnectMode.SERVER
        self.settings = secsgem.secsitcp.SecsITcpSettings(
            connect_mode=mode,
            address=ADDR,
            port=P1 if client else P2,
            device_type=secsgem.common.DeviceType.HOST if host else secsgem.common.DeviceType.EQUIPMENT,
            device_id=device_id,
        )
        self.p = self.settings.create_protocol()
        self.received = []
        self.events = []
        self.p.events.message_received += self._on_message
        self.p.events.disconnected += lambda d: self.events.append("disconnected")
        self.sock = None  # the line actor's socket towards this endpoint

    def _on_message(self, data):
        m = data["message"]
        h = m.header
        self.received.append(
            {
                "dev": h.device_id,
                "r": 1 if h.from_equipment else 0,
                "w": 1 if h.require_response else 0,
                "s": h.stream,
                "f": h.function,
                "sys": h.system,
                "body": bytes(m.data).hex(),
                "t": self.sim.now,
            }
        )


class Line:
    """The two endpoints and the actor between them."""

    def __init__(self, world, a_is_host=True, dev_a=0, dev_b=0):
        self.w = world
        self.sim = world.sim
        self.net = world.net
        self.a = Endpoint(world, "A", client=True, host=a_is_host, device_id=dev_a)
        self.b = Endpoint(world, "B", client=False, host=not a_is_host, device_id=dev_b)
        self.transcript = []  # emitted: (side, bytes, virtual time)
        self.delivered = []  # (to side, bytes, virtual time)

    def connect(self):
        sim = self.sim
        listener = self.net.listen(ADDR, P1)
        st, _ = sim.run(self.a.p.enable, horizon=30, name="enable-A")
        if st != "done":
            return False
        sim.settle()
        self.a.sock = listener.accept_nowait()
        st, _ = sim.run(self.b.p.enable, horizon=30, name="enable-B")
        if st != "done":
            return False
        sim.settle()
        try:
            self.b.sock = self.net.connect(ADDR, P2, name="line-b")
        except ConnectionRefusedError:
            return False
        sim.settle()
        listener.close()
        return self.a.sock is not None and self.a.p._thread.receiver_running and self.b.p._thread.receiver_running  # noqa: SLF001

    def ep(self, side):
        return self.a if side == "A" else self.b

    @staticmethod
    def other(side):
        return "B" if side == "A" else "A"

    def _collect(self):
        got = False
        for side in ("A", "B"):
            ep = self.ep(side)
            data = ep.sock.recv_all()
            if data:
                self.transcript.append((side, data, self.sim.now))
                got = True
                yield side, data
        return got

    def transfer(self, fn, sender, plan, fault=None, max_rounds=200000):
        """Run fn() (a send call of endpoint `sender`) on a simulated thread while carrying the line.

        plan: {"every": k, "cuts": [[offsets]...] per burst (cyclic), "steps": [...] per chunk (cyclic; -1 = settle),
               "delays": [...] index into DELAYS for the first chunks, "hs": [...] the same for the first handshake bytes}
        fault: {"burst": j, "pos": p, "xor": x} | {"burst": j, "pos": 0, "newlen": n}: the j-th multi-byte burst (0-based)
               emitted by `sender` during this transfer has one byte replaced while it is carried.
        plan extras: "only": [burst indexes "every" applies to], "extra": [[burst, offset], ...] additional cuts,
               "prio": 1 = when both directions have bytes in flight, B is served first.  fn None: only carry the line.
        Returns dict(status 'done'|'hang', result, emitted [(side, bytes)], fault_applied, ...).
        """
        sim = self.sim
        box = {}

        def body():
            box["result"] = fn()

        t0 = len(self.transcript)
        thr = sim.spawn(body, "sender-" + sender) if fn is not None else None
        order = ("B", "A") if plan.get("prio") else ("A", "B")
        only = plan.get("only")
        pending = {"A": [], "B": []}  # chunks waiting to be delivered TO that side: (bytes, steps, delay)
        n_burst = {"A": 0, "B": 0}
        n_hs = 0
        n_chunk = 0
        info = {"fault_applied": None, "split": 0, "chunks": 0, "both_emitted": 0}
        idle = 0
        rounds = 0
        steps = -1
        while True:
            rounds += 1
            if rounds > max_rounds:
                info["status"] = "runaway"
                break
            if steps is None or steps < 0:
                sim.settle()
            else:
                left = [steps]

                def stop(left=left):
                    left[0] -= 1
                    return left[0] < 0

                sim.pump(stop=stop)
            steps = -1
            emitted = list(self._collect())
            if len(emitted) > 1:
                info["both_emitted"] += 1
            for side, data in emitted:
                dst = self.other(side)
                if len(data) == 1:
                    hs = plan.get("hs") or []
                    pending[dst].append((data, -1, hs[n_hs] if n_hs < len(hs) else 0))
                    n_hs += 1
                    continue
                j = n_burst[side]
                n_burst[side] += 1
                carried = bytearray(data)
                if fault is not None and side == sender and j == fault["burst"] and info["fault_applied"] is None:
                    pos = fault["pos"] % len(carried)
                    old = carried[pos]
                    new = fault["newlen"] if "newlen" in fault else old ^ fault["xor"]
                    carried[pos] = new & 0xFF
                    info["fault_applied"] = {"pos": pos, "old": old, "new": new & 0xFF, "burst_len": len(carried), "carried": bytes(carried)}
                n = len(carried)
                cuts = set()
                every = plan.get("every") or 0
                if every > 0 and (only is None or j in only):
                    cuts |= set(range(every, n, every))
                for bj, c in plan.get("extra") or []:
                    if bj == j and 0 < c < n:
                        cuts.add(c)
                cl = plan.get("cuts") or []
                if cl:
                    for c in cl[j % len(cl)]:
                        c = c if c >= 0 else n + c
                        if 0 < c < n:
                            cuts.add(c)
                bounds = [0] + sorted(cuts) + [n]
                if len(bounds) > 2:
                    info["split"] += 1
                sl = plan.get("steps") or [-1]
                dl = plan.get("delays") or []
                for x, y in zip(bounds, bounds[1:]):
                    pending[dst].append((bytes(carried[x:y]), sl[n_chunk % len(sl)], dl[n_chunk] if n_chunk < len(dl) else 0))
                    n_chunk += 1
            delivered = False
            for side in order:
                if pending[side]:
                    chunk, st_, dly = pending[side].pop(0)
                    if dly:
                        sim.advance(DELAYS[dly % len(DELAYS)])
                    try:
                        self.ep(side).sock.send(chunk)
                    except OSError as exc:
                        info["status"] = "line-closed"
                        info["error"] = repr(exc)
                        break
                    self.delivered.append((side, chunk, sim.now))
                    info["chunks"] += 1
                    steps = st_ if pending[side] else -1  # the last chunk in flight is always followed by a full settle
                    delivered = True
                    break
            if "status" in info:
                break
            if emitted or delivered:
                idle = 0
                continue
            # nothing on the line and nothing emitted
            if thr is None or thr.state == "DONE":
                info["status"] = "done"
                break
            idle += 1
            if idle > 3:
                info["status"] = "hang"
                break
            sim.advance(1.0)  # lets every pending timeout (0.5 s select polls; the line protocol has none) elapse
        info["result"] = box.get("result")
        info["error_in_call"] = repr(thr.error) if thr is not None and thr.error is not None else None
        info["emitted"] = [(s, d) for (s, d, _) in self.transcript[t0:]]
        info["blocked"] = sim.blocked_report() if info["status"] != "done" else []
        return info

    def quiesce(self, dt=2.0):
        """Let dispatcher threads deliver; anything emitted while the line is idle is carried to the other side too.

        Returns the bytes emitted during the idle period [(side, bytes)] (none in a healthy exchange)."""
        self.sim.settle()
        self.sim.advance(dt)
        info = self.transfer(None, "A", {})
        return info["emitted"]
