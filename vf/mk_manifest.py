import json,sys
sys.path.insert(0,'/verif')
CHECKS = json.load(open('/verif/vf/manifest_checks.json'))
m = {
 "version": 1,
 "setup_cmd": "bash setup.sh",
 "hooks": {
  "guard": "SECSGEM_VERIF",
  "enable": "no source hooks: all instrumentation is applied from outside (module-attribute patching of threading/queue/time/select/socket inside secsgem modules at run time by vf.detsim); ./check exports SECSGEM_VERIF=1 for uniformity",
  "baseline_off_cmd": "cd /repo && /venv/bin/python -m pytest -ra -q -p no:cacheprovider --timeout=900 --continue-on-collection-errors",
  "source_commits": [],
  "add_only": True
 },
 "engines": [
  {"name": "vf", "path": "vf/", "serves_properties": [c["property_id"] for c in CHECKS],
   "kind_free_text": "Hypothesis property-based testing / stateful model-based testing / exhaustive enumeration / atheris fuzzing against independent reference models (vf/ref), with a deterministic scheduler (vf/detsim) for the threaded layers"}
 ],
 "checks": [],
 "notes": "Repairs of genuine defects are unguarded 'fix:' commits in /repo, listed in known_findings.json (fixed). See DESIGN.md.",
 "not_applicable": [],
}
_na = {e["property_id"]: e["reason"] for e in json.load(open('/verif/vf/manifest_na.json'))}
_claimed = {c["property_id"] for c in CHECKS}
for line in open('/verif/properties.jsonl'):
    pid = json.loads(line)["id"]
    if pid not in _claimed:
        m["not_applicable"].append({"property_id": pid, "reason": _na.get(pid, "check not yet built in this revision (planned, see DESIGN.md section 4); nothing is claimed for it")})
for c in CHECKS:
    pid = c["property_id"]
    m["checks"].append({
      "property_id": pid,
      "quick_cmd": f"./check {pid} quick",
      "thorough_cmd": f"./check {pid} thorough",
      "evidence_file": f"evidence/{pid}.json",
      "replay_cmd_template": f"./check {pid} --replay {{path}}",
      "engine": "vf",
      "level_claimed": {"category": c["level"], "text": c["text"], "design_ref": f"DESIGN.md section 4 ({pid})"},
      "level_note": c["note"],
      "technique": c["technique"],
    })
json.dump(m, open('/verif/MANIFEST.json','w'), indent=1)
import jsonschema
jsonschema.validate(m, json.load(open('/root/.vp/MANIFEST.schema.json')))
print("manifest ok", len(m["checks"]), "checks")
