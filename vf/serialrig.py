"""SECS-I line rig on SERIAL ports: the same two real SecsIProtocol endpoints and line actor as vf.secsirig.Line, but
each endpoint talks through the real secsgem.common.serial_connection.SerialConnection (SecsISettings(port=..., speed=...))
on a simulated serial port (vf.detsim.serialsim) instead of SECS-I over TCP. The line actor holds the other end of both
cables; Line.transfer / quiesce are inherited unchanged.
"""

from __future__ import annotations

from vf import secsirig


class SerialEndpoint(secsirig.Endpoint):
    def __init__(self, world, name, host, device_id):  # noqa: super().__init__ not called on purpose (other settings class)
        import secsgem.common
        import secsgem.secsi

        self.name = name
        self.host = host
        self.sim = world.sim
        self.port_name = f"SIM{name}"
        self.settings = secsgem.secsi.SecsISettings(
            port=self.port_name,
            speed=9600,
            device_type=secsgem.common.DeviceType.HOST if host else secsgem.common.DeviceType.EQUIPMENT,
            device_id=device_id,
        )
        self.p = self.settings.create_protocol()
        self.received = []
        self.events = []
        self.p.events.message_received += self._on_message
        self.p.events.disconnected += lambda d: self.events.append("disconnected")
        self.sock = None


class SerialLine(secsirig.Line):
    def __init__(self, world, a_is_host=True, dev_a=0, dev_b=0):
        self.w = world
        self.sim = world.sim
        self.net = world.net
        self.a = SerialEndpoint(world, "A", host=a_is_host, device_id=dev_a)
        self.b = SerialEndpoint(world, "B", host=not a_is_host, device_id=dev_b)
        self.transcript = []
        self.delivered = []

    def connect(self):
        sim = self.sim
        for ep in (self.a, self.b):
            st, _ = sim.run(ep.p.enable, horizon=30, name="enable-" + ep.name)
            if st != "done":
                return False
            sim.settle()
            port = self.net.serial_ports.get(ep.port_name)
            if port is None:
                return False
            ep.sock = port.line
        return self.a.p._thread.receiver_running and self.b.p._thread.receiver_running  # noqa: SLF001
