MUTANTS = [
    # Item.from_value integer selection: inclusive upper bound lost -> 255 becomes U2, 65535 becomes U4, -128 becomes I2 ...
    (
        "fromvalue-int-bound-exclusive",
        "secsgem/secs/item.py",
        '        types = ["U1", "U2", "U4", "U8"] if value >= 0 else ["I1", "I2", "I4", "I8"]\n        for f_type in types:\n            typ = cls._subclasses_by_sml[f_type]\n            if typ.minimum_value <= value <= typ.maximum_value:',
        '        types = ["U1", "U2", "U4", "U8"] if value >= 0 else ["I1", "I2", "I4", "I8"]\n        for f_type in types:\n            typ = cls._subclasses_by_sml[f_type]\n            if typ.minimum_value < value < typ.maximum_value:',
    ),
    # U2 range halved: from_value(40000) -> U4, ItemU2(65535) rejected
    ("u2-max-7fff", "secsgem/secs/item_number.py", "    _maximum_value = 0xFFFF\n", "    _maximum_value = 0x7FFF\n"),
    # bool tested after int in from_value: True becomes U1 1
    (
        "fromvalue-bool-after-int",
        "secsgem/secs/item.py",
        '        elif isinstance(value, bool):\n            result = cls._subclasses_by_sml["BOOLEAN"](value)\n        elif isinstance(value, float):\n            result = cls._from_value_float(value)\n        elif isinstance(value, int):\n            result = cls._from_value_int(value)\n',
        '        elif isinstance(value, float):\n            result = cls._from_value_float(value)\n        elif isinstance(value, int):\n            result = cls._from_value_int(value)\n        elif isinstance(value, bool):\n            result = cls._subclasses_by_sml["BOOLEAN"](value)\n',
    ),
    # header: lengths 256..4095 written with one length byte (length & 0xFF)
    ("hdr-1byte-up-to-fff", "secsgem/secs/item.py", "        if length > 0xFF:\n            length_bytes = 2", "        if length > 0xFFF:\n            length_bytes = 2"),
    # header: middle byte of the 3-length-byte form shifted wrongly
    ("hdr-3byte-mid-shift", "secsgem/secs/item.py", "(length & 0xFF0000) >> 16, (length & 0x00FF00) >> 8, (length & 0x0000FF)", "(length & 0xFF0000) >> 16, (length & 0x00FF00) >> 16, (length & 0x0000FF)"),
    # decode: only the first two of three length bytes are read
    ("dec-3-length-bytes", "secsgem/secs/item.py", "        for _ in range(length_bytes):\n            length <<= 8", "        for _ in range(min(length_bytes, 2)):\n            length <<= 8"),
    # ItemBOOLEAN.decode: 1 is no longer true
    ("bool-decode-gt1", "secsgem/secs/item_boolean.py", "result = [char > 0 for char in data.get(length)]", "result = [char > 1 for char in data.get(length)]"),
    # ItemBOOLEAN.decode: only the byte 1 is true (E5: any non-zero byte)
    ("bool-decode-eq1", "secsgem/secs/item_boolean.py", "result = [char > 0 for char in data.get(length)]", "result = [char == 1 for char in data.get(length)]"),
    # I4 packed with the unsigned struct code
    ("i4-struct-unsigned", "secsgem/secs/item_number.py", '    _struct_code = "l"\n', '    _struct_code = "L"\n'),
    # F4 format code 0o44 -> 0o42
    ("f4-format-code", "secsgem/secs/item_number.py", "    _hsms_type = 0o44\n", "    _hsms_type = 0o42\n"),
    # reversal of the repo's 'fix:' commit 3353562 (F4 limit below FLT_MAX)
    (
        "revert-float-limit-fix",
        "secsgem/secs/item_number.py",
        "    _minimum_value = -3.4028234663852886e38\n    _maximum_value = 3.4028234663852886e38\n",
        "    _minimum_value = -3.40282e38\n    _maximum_value = 3.40282e38\n",
    ),
    # ItemL built from a dict takes the keys instead of the values
    ("l-dict-keys", "secsgem/secs/item_l.py", "return [self.from_value(item) for item in value.values()]", "return [self.from_value(item) for item in value.keys()]"),
    # JIS-8 items handled as latin-1 text
    ("j-encoding-latin1", "secsgem/secs/item_str.py", '    _encoding = "jis_8"\n', '    _encoding = "latin1"\n'),
]
