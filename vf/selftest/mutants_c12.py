"""C12 mutants: (name, file, old, new) applied to a scratch copy of secsgem (first occurrence of old)."""

F = "secsgem/gem/collection_event_capability.py"

MUTANTS = [
    # 1. pre-check result ignored for one branch: an unknown VID is reported (DRACK 4) but the request is applied anyway
    (
        "s2f33-vid-unknown-not-honoured",
        F,
        "        if drack != 0:\n            return result\n",
        "        if drack == secsgem.secs.data_items.DRACK.RPTID_REDEFINED:\n            return result\n",
    ),
    # 2. delete-all clears only the report table
    (
        "s2f33-delete-all-keeps-links",
        F,
        "            self._registered_collection_events.clear()\n            self._registered_reports.clear()\n",
        "            self._registered_reports.clear()\n",
    ),
    # 3. link stored although the pre-check found an unknown RPTID (apply before/without the check result)
    (
        "s2f35-applied-despite-unknown-rptid",
        F,
        "        # pre check okay\n        if lrack == 0:\n",
        "        # pre check okay\n        if lrack in (0, secsgem.secs.data_items.LRACK.RPTID_UNKNOWN):\n",
    ),
    # 4. link order reversed when reports are appended to an already linked event / a fresh link
    (
        "s2f35-link-order-reversed",
        F,
        "                            event.RPTID.get(),\n                        )",
        "                            list(reversed(event.RPTID.get())),\n                        )",
    ),
    # 5. event report built from a set(): repeated links collapse, link order lost
    (
        "report-built-from-set",
        F,
        "        for rptid in self._registered_collection_events[ceid].reports:\n            report = self._registered_reports[rptid]",
        "        for rptid in sorted(set(self._registered_collection_events[ceid].reports), key=repr):\n            report = self._registered_reports[rptid]",
    ),
    # 6. enable flag ignored on trigger
    (
        "trigger-ignores-enable-flag",
        F,
        "                if ceid in self._registered_collection_events and self._registered_collection_events[ceid].enabled:\n                    reports = self._build_collection_event(ceid)\n\n                    self.send_and_waitfor_response(",
        "                if ceid in self._registered_collection_events:\n                    reports = self._build_collection_event(ceid)\n\n                    self.send_and_waitfor_response(",
    ),
    # 7. wrong acknowledge constant for an already linked report
    (
        "s2f35-already-linked-acks-ceid-unknown",
        F,
        "                        lrack = secsgem.secs.data_items.LRACK.CEID_LINKED",
        "                        lrack = secsgem.secs.data_items.LRACK.CEID_UNKNOWN",
    ),
    # 8. delete-one does not remove the links to the report
    (
        "s2f33-delete-one-keeps-links",
        F,
        "                        reports[:] = [rptid for rptid in reports if rptid != report.RPTID]\n",
        "                        pass\n",
    ),
    # 9. non-transactional multi-report define: only the first report is pre-checked
    (
        "s2f33-precheck-first-report-only",
        F,
        "        # pre check message for errors\n        for report in function.DATA:\n",
        "        # pre check message for errors\n        for report in function.DATA[:1]:\n",
    ),
    # 10. a fresh link starts enabled
    (
        "fresh-link-enabled",
        "secsgem/gem/collection_event_link.py",
        "        self.enabled = False",
        "        self.enabled = True",
    ),
    # 11. S6F16 reports stale variable values (value captured when the report was defined is not the subject; the
    #     reply simply skips data values)
    (
        "report-skips-data-values",
        F,
        "                elif var in self._data_values:\n                    value = self._get_dv_value(self._data_values[var])\n                    variables.append(value)",
        "                elif var in self._data_values:\n                    pass",
    ),
    # 12. redefinition silently accepted (existing report overwritten)
    (
        "s2f33-redefinition-accepted",
        F,
        "            if report.RPTID in self._registered_reports and len(report.VID) > 0:\n                drack = secsgem.secs.data_items.DRACK.RPTID_REDEFINED\n            else:\n",
        "            if False:\n                drack = secsgem.secs.data_items.DRACK.RPTID_REDEFINED\n            else:\n",
    ),
    (
        "revert-remove-all-occurrences",
        F,
        "                        reports[:] = [rptid for rptid in reports if rptid != report.RPTID]\n",
        "                        reports.remove(report.RPTID)\n",
    ),
]
