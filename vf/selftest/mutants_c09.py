MUTANTS = [
    ("revert-framing-fix", "secsgem/hsms/protocol.py",
     "            if len(self._receive_buffer) < length:\n                # message not complete yet, continue when more data was received\n                return\n\n            data = self._receive_buffer.pop(length)",
     "            data = self._receive_buffer.wait_for(length)"),
    ("revert-server-stopflag-fix", "secsgem/common/tcp_server_connection.py",
     "                while self._stop_server_thread and self._server_thread.is_alive():", "                while self._stop_server_thread:"),
    ("revert-client-stopflag-fix", "secsgem/common/tcp_client_connection.py",
     "            while self.stop_connection_thread and self.connection_thread.is_alive():", "            while self.stop_connection_thread:"),
    ("no-buffer-clear", "secsgem/hsms/protocol.py", "        self._receive_buffer.clear()\n", "        pass\n"),
    ("no-state-disconnect", "secsgem/hsms/protocol.py", "        self._connected = False\n        self._connection_state.disconnect()", "        self._connected = False"),
    ("disconnect-no-stopflag", "secsgem/common/tcp_connection.py", "        # set flag to stop the thread\n        self._stop_thread = True", "        # set flag to stop the thread\n        pass"),
    ("server-no-restart", "secsgem/common/tcp_server_connection.py", "        if self._enabled:\n            self.__start_server_thread()\n\n    def enable", "        if False:\n            self.__start_server_thread()\n\n    def enable"),
    ("eof-ignored", "secsgem/common/tcp_connection.py", "                    if len(recv_data) == 0:\n                        self._connected = False\n                        self._stop_thread = True\n                        continue", "                    if len(recv_data) == 0:\n                        continue"),
]
