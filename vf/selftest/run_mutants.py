"""Sensitivity self-test: apply small mutants to a scratch copy of the secsgem package and expect the check to FAIL.

usage: python -m vf.selftest.run_mutants C01 [quick|thorough] [name-substring]
Mutants are (name, file, old, new) in vf/selftest/mutants.py. Scratch copies live under /tmp and are removed.
Not a registered check; results are recorded in DESIGN.md.
"""
import os
import shutil
import subprocess
import sys
import tempfile

from vf.selftest.mutants import MUTANTS

HERE = os.path.dirname(os.path.dirname(os.path.dirname(os.path.abspath(__file__))))


def main():
    prop = sys.argv[1].upper()
    tier = sys.argv[2] if len(sys.argv) > 2 else "quick"
    flt = sys.argv[3] if len(sys.argv) > 3 else ""
    results = []
    for name, file, old, new in MUTANTS.get(prop, []):
        if flt and flt not in name:
            continue
        tmp = tempfile.mkdtemp(prefix="vf_mut_")
        try:
            shutil.copytree("/repo/secsgem", os.path.join(tmp, "secsgem"))
            path = os.path.join(tmp, file)
            src = open(path).read()
            if src.count(old) < 1:
                results.append((name, "MUTANT-DOES-NOT-APPLY"))
                continue
            open(path, "w").write(src.replace(old, new, 1))
            env = dict(os.environ, VF_REPO=tmp, VF_SCRATCH=os.path.join(tmp, "out"))
            r = subprocess.run([os.path.join(HERE, "check"), prop, tier], env=env, capture_output=True, text=True)
            viol = [l for l in r.stdout.splitlines() if l.startswith("VIOLATION")]
            last = r.stdout.strip().splitlines()[-1] if r.stdout.strip() else ""
            results.append((name, f"exit={r.returncode} violations={len(viol)} :: {last[:150]}"))
            if r.returncode == 2:
                print(r.stdout[-3000:], r.stderr[-3000:])
        finally:
            shutil.rmtree(tmp, ignore_errors=True)
    ok = True
    for name, res in results:
        caught = res.startswith("exit=1")
        ok = ok and caught
        print(("CAUGHT  " if caught else "MISSED  ") + name + " -> " + res)
    return 0 if ok else 1


if __name__ == "__main__":
    sys.exit(main())
