MUTANTS = [
    ("hdr-ge-ff", "secsgem/secs/variables/base.py", "if length > 0xFF:", "if length >= 0xFF:"),
    ("hdr-3byte-shift", "secsgem/secs/variables/base.py", "(length & 0xFF0000) >> 16", "(length & 0xFF0000) >> 8"),
    ("struct-little-endian", "secsgem/secs/variables/base_number.py", 'result += struct.pack(f">{self._struct_code}", value)', 'result += struct.pack(f"<{self._struct_code}", value)'),
    ("i2-unsigned", "secsgem/secs/variables/i2.py", '_struct_code = "h"', '_struct_code = "H"'),
    ("bool-ff", "secsgem/secs/variables/boolean.py", 'result += b"\\1"', 'result += b"\\xff"'),
    ("jis-off-by-one", "secsgem/common/codec_jis_x_0201.py", "jis8_decoding_map[i] = i + 0xFEC0", "jis8_decoding_map[i] = i + 0xFEC1"),
    ("binary-decode-pos", "secsgem/secs/variables/binary.py", "        self.set(result)\n\n        return text_pos + length", "        self.set(result)\n\n        return text_pos + max(length, 1)"),
    ("array-count-off", "secsgem/secs/variables/array.py", "result = self.encode_item_header(len(self.data))", "result = self.encode_item_header(len(self.data) & 0xFFFF)"),
    ("text-decode-len", "secsgem/secs/variables/base_text.py", "result = data[text_pos : text_pos + length].decode(self.coding)", "result = data[text_pos : text_pos + (length & 0xFFFF)].decode(self.coding)"),
    ("u8-max", "secsgem/secs/variables/u8.py", "_max = 18446744073709551615", "_max = 9223372036854775807"),
    ("revert-dynamic-count-check-of-wrapped-values", "secsgem/secs/variables/dynamic.py", "                self._check_count(value)\n\n                self.value = value\n", "                self.value = value\n"),
]
