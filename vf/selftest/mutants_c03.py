MUTANTS = [
    # catalogue drift: class attribute vs functions.yaml
    ("flip-to-host-s01f03", "secsgem/secs/functions/s01f03.py", "    _to_host = False", "    _to_host = True"),
    ("structure-line-class-only-s05f01", "secsgem/secs/functions/s05f01.py", "      < ALID >\n      < ALTX >", "      < ALID >\n      < TEXT >"),
    ("swap-fields-s06f05", "secsgem/secs/functions/s06f05.py", "      < DATAID >\n      < DATALENGTH >", "      < DATALENGTH >\n      < DATAID >"),
    ("reply-required-on-secondary-s01f04", "secsgem/secs/functions/s01f04.py", "    _is_reply_required = False", "    _is_reply_required = True"),
    ("yaml-direction-flip-s06f11", "secsgem/secs/functions.yaml", "  mnemonic: ERS\n  to_host: True\n  to_equipment: False", "  mnemonic: ERS\n  to_host: False\n  to_equipment: True"),
    # lookup by stream/function numbers
    ("function-matches-stream-only", "secsgem/secs/functions/streams_functions.py", "if func.stream == stream and func.function == function]\n\n        if len(functions) == 0:", "if func.stream == stream]\n\n        if len(functions) == 0:"),
    ("decode-looks-up-primary", "secsgem/secs/functions/streams_functions.py", "func = self.function(message.header.stream, message.header.function)", "func = self.function(message.header.stream, message.header.function | 1)"),
    ("register-class-twice", "secsgem/secs/functions/_all.py", "    SecsS01F01,\n", "    SecsS01F01,\n    SecsS01F01,\n"),
    # data items
    ("drop-alternative-type-svid", "secsgem/secs/data_items/svid.py", "        variables.I8,\n        variables.String,\n    ]", "        variables.String,\n    ]"),
    ("item-count-mdln", "secsgem/secs/data_items/mdln.py", "__count__ = 20", "__count__ = 16"),
    # structure interpretation (only the value round trip can see these; YAML and class text stay equal)
    ("sfdl-list-name-dropped", "secsgem/secs/variables/functions.py", "        token_name = item_key_token.value\n", "        token_name = None\n"),
    ("sfdl-single-member-record", "secsgem/secs/variables/functions.py", "        if len(data_format) == 1:\n            return Array(data_format[0])\n        return List(data_format)", "        if len(data_format) == 1 and not isinstance(data_format[0], list):\n            return Array(data_format[0])\n        return List(data_format)"),
]
