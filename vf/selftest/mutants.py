"""Mutants for the sensitivity self-test: property -> [(name, file, old, new)].

Each property keeps its list in vf/selftest/mutants_cXX.py (MUTANTS = [...]); this module merges them.
"""
import importlib
import pkgutil
import os

MUTANTS = {}
for _m in pkgutil.iter_modules([os.path.dirname(__file__)]):
    if _m.name.startswith("mutants_c"):
        mod = importlib.import_module(f"vf.selftest.{_m.name}")
        MUTANTS[_m.name[len("mutants_"):].upper()] = list(mod.MUTANTS)
