MUTANTS = [
    ("subscribe-links-before-defining", "secsgem/gem/hosthandler.py", '        # create report\n        self.send_and_waitfor_response(\n            self.stream_function(2, 33)({"DATAID": 0, "DATA": [{"RPTID": report_id, "VID": dvs}]}),\n        )\n', ''),
    ("report-subscriptions-keyed-by-ceid", "secsgem/gem/hosthandler.py", "        self.report_subscriptions[report_id] = dvs", "        self.report_subscriptions[ceid] = dvs"),
    ("request-svs-reversed", "secsgem/gem/status_data_collection_capability.py", "        for status_variable_id in function:", "        for status_variable_id in reversed(list(function)):"),
    ("revert-link-loss", "secsgem/gem/handler.py", "        self._protocol.events.disconnected += self._on_disconnected\n", ""),
    ("no-select-thread", "secsgem/hsms/protocol.py", "            self._select_req_thread.start()", "            pass"),
    # --- automatic report ids, several events, variable lists of different lengths
    ("report-id-counter-not-advanced", "secsgem/gem/hosthandler.py", "            self._report_id_counter += 1\n", "            pass\n"),
    ("report-built-from-first-variable-only", "secsgem/gem/collection_event_capability.py", "            for var in report.vars:\n                if var in self._status_variables:", "            for var in report.vars[:1]:\n                if var in self._status_variables:"),
    ("go-online-ack-wrong", "secsgem/gem/state_models_capability.py", "            onlack = 2\n", "            onlack = 1\n"),
]
