"""Confirm and evaluate seeded breaking changes (/verif/seeded/<name>/{patch.diff,demo.py,meta.json}).

usage: python -m vf.selftest.seeded confirm <name>            # tests pass with the patch, demo fails with / passes without
       python -m vf.selftest.seeded check <name> [tier] [ID]  # run ./check <property> <tier> against the patched tree
Uses a scratch git worktree of /repo HEAD under /tmp (removed afterwards); /repo itself is not touched, the checks are
pointed at the scratch tree through VF_REPO (exactly what they do for /repo).
"""
import json
import os
import shutil
import subprocess
import sys
import tempfile

HERE = os.path.dirname(os.path.dirname(os.path.dirname(os.path.abspath(__file__))))
PY = "/venv/bin/python"


def sh(cmd, cwd=None, env=None, timeout=3600):
    r = subprocess.run(cmd, cwd=cwd, env=env, capture_output=True, text=True, timeout=timeout)
    return r.returncode, r.stdout + r.stderr


def worktree():
    d = tempfile.mkdtemp(prefix="vf_seed_")
    os.rmdir(d)
    rc, out = sh(["git", "-C", "/repo", "worktree", "add", "-q", "--detach", d, "HEAD"])
    if rc:
        raise SystemExit(out)
    return d


def drop(d):
    sh(["git", "-C", "/repo", "worktree", "remove", "--force", d])
    shutil.rmtree(d, ignore_errors=True)


def main():
    mode, name = sys.argv[1], sys.argv[2]
    sdir = os.path.join(HERE, "seeded", name)
    meta = json.load(open(os.path.join(sdir, "meta.json")))
    prop = meta["property"]
    d = worktree()
    try:
        env = dict(os.environ, PYTHONPATH=d)
        if mode == "confirm":
            rc0, out0 = sh([PY, os.path.join(sdir, "demo.py")], cwd=d, env=env, timeout=600)
            rc, out = sh(["git", "apply", os.path.join(sdir, "patch.diff")], cwd=d)
            if rc:
                print("PATCH-DOES-NOT-APPLY", out)
                return 2
            rc1, out1 = sh([PY, os.path.join(sdir, "demo.py")], cwd=d, env=env, timeout=600)
            rct, outt = sh([PY, "-m", "pytest", "-q", "-p", "no:cacheprovider", "--timeout=300", "-x"], cwd=d, env=env, timeout=3000)
            tail = outt.strip().splitlines()[-1] if outt.strip() else ""
            print(f"demo without patch: exit {rc0}; demo with patch: exit {rc1}; test suite with patch: exit {rct} ({tail})")
            ok = rc0 == 0 and rc1 != 0 and rct == 0
            if not ok:
                print(out0[-1500:], "\n----\n", out1[-1500:], "\n----\n", outt[-1500:])
            print("CONFIRMED" if ok else "NOT-CONFIRMED")
            return 0 if ok else 1
        tier = sys.argv[3] if len(sys.argv) > 3 else "quick"
        props = sys.argv[4:] or [prop]
        rc, out = sh(["git", "apply", os.path.join(sdir, "patch.diff")], cwd=d)
        if rc:
            print("PATCH-DOES-NOT-APPLY", out)
            return 2
        allc = True
        for p in props:
            scratch = tempfile.mkdtemp(prefix="vf_seedout_")
            env2 = dict(os.environ, VF_REPO=d, VF_SCRATCH=scratch)
            rc, out = sh([os.path.join(HERE, "check"), p, tier], env=env2, timeout=7200)
            viol = [l for l in out.splitlines() if l.startswith("VIOLATION")]
            buckets = [l.strip()[:160] for l in out.splitlines() if l.strip().startswith("bucket=")]
            last = out.strip().splitlines()[-1] if out.strip() else ""
            print(f"{name} vs {p} {tier}: exit={rc} violations={len(viol)} :: {last[:140]}")
            for b in buckets[:4]:
                print("    ", b)
            if rc == 2:
                print(out[-2000:])
            allc = allc and rc == 1
            shutil.rmtree(scratch, ignore_errors=True)
        print("CAUGHT" if allc else "MISSED")
        return 0 if allc else 1
    finally:
        drop(d)


if __name__ == "__main__":
    sys.exit(main())
