_F = "secsgem/common/state_machine.py"

MUTANTS = [
    # the source-state guard never fires: any known transition is performed from any state
    ("source-check-removed", _F, "        if self._current_state not in transition.sources:\n", "        if False:\n"),
    # a request from a wrong source state is dropped silently instead of raising
    (
        "wrong-source-returns-silently",
        _F,
        "            raise WrongSourceStateError(\n                name,\n                \"/\".join([state.name for state in transition.sources]),\n                self._current_state.name,\n            )\n",
        "            return\n",
    ),
    # unknown transition names are ignored instead of raising
    (
        "unknown-transition-ignored",
        _F,
        "        transition = self.transition(name)\n\n        if self._current_state not in transition.sources:",
        "        transition = next((t for t in self._transitions if t.name == name), None)\n        if transition is None:\n            return\n\n        if self._current_state not in transition.sources:",
    ),
    # transition lookup accepts a prefix of the name
    ("lookup-by-prefix", _F, "if transition.name == name), None)", "if transition.name.startswith(name)), None)"),
    # `current` only switches after the destination's enter handlers ran (nested requests see the old state)
    (
        "current-assigned-after-enter",
        _F,
        "        old_state = self._current_state\n        self._current_state = transition.destination\n\n        transition.destination.enter(old_state)\n",
        "        old_state = self._current_state\n\n        transition.destination.enter(old_state)\n        self._current_state = transition.destination\n",
    ),
    # the transition's own event fires twice
    ("called-fired-twice", _F, "        transition()\n", "        transition()\n        transition()\n"),
    # parent propagation on enter compares the wrong things
    (
        "enter-parent-compare-wrong",
        _F,
        "        if self.parent is not None and (source is None or source.parent != self.parent):\n            self.parent.enter(",
        "        if self.parent is not None and (source is None or source.parent == self):\n            self.parent.enter(",
    ),
    # the source state itself gets no leave event (flags still cleared, parents still left)
    (
        "leave-not-fired-for-source",
        _F,
        "        self._current_state.leave(transition.destination)\n",
        "        _src = self._current_state\n        _src._active = False\n        if _src.parent is not None and transition.destination.parent != _src.parent:\n            _src.parent.leave(transition.destination.parent)\n",
    ),
    # leaving a state does not clear its active flag
    ("active-not-cleared-on-leave", _F, "        self.events.fire(\"leave\", {})\n\n        self._active = False\n", "        self.events.fire(\"leave\", {})\n"),
    # leave stops climbing once the destination side has run out of ancestors
    (
        "leave-stops-when-destination-chain-ends",
        _F,
        "        if self.parent is not None and (destination is None or destination.parent != self.parent):\n            self.parent.leave(",
        "        if self.parent is not None and destination is not None and destination.parent != self.parent:\n            self.parent.leave(",
    ),
]
