EC = "secsgem/gem/equipment_constants_capability.py"
SV = "secsgem/gem/status_data_collection_capability.py"
AL = "secsgem/gem/alarm_capability.py"

MUTANTS = [
    (
        "s2f15-applies-inside-validation-loop",
        EC,
        "                if constant.max_value is not None and equipment_constant.ECV.get() > constant.max_value:\n                    eac = 3\n",
        "                if constant.max_value is not None and equipment_constant.ECV.get() > constant.max_value:\n                    eac = 3\n\n                if eac == 0:\n                    self._set_ec_value(constant, equipment_constant.ECV.get())\n",
    ),
    ("s2f15-min-lt-to-le", EC, "equipment_constant.ECV.get() < constant.min_value", "equipment_constant.ECV.get() <= constant.min_value"),
    ("s2f15-max-gt-to-ge", EC, "equipment_constant.ECV.get() > constant.max_value", "equipment_constant.ECV.get() >= constant.max_value"),
    ("s2f15-unknown-ecid-eac-3", EC, "                eac = 1\n", "                eac = 3\n"),
    ("s2f15-callback-store-not-updated", EC, "        if equipment_constant.use_callback:\n            self.on_ec_value_update(", "        if False:\n            self.on_ec_value_update("),
    ("s2f13-request-order-reversed", EC, "            for equipment_constant_id in function:  # type: ignore[attr-defined]\n", "            for equipment_constant_id in reversed(list(function)):  # type: ignore[attr-defined]\n"),
    ("s2f29-unknown-ecid-gets-a-name", EC, '{"ECID": ecid, "ECNAME": "", "ECMIN": ""', '{"ECID": ecid, "ECNAME": "?", "ECMIN": ""'),
    ("s1f3-reply-from-set-of-ids", SV, "            for status_variable_id in function:\n                if status_variable_id not in self._status_variables:\n                    responses.append(secsgem.secs.variables.Array", "            for status_variable_id in set(function.get()):\n                if status_variable_id not in self._status_variables:\n                    responses.append(secsgem.secs.variables.Array"),
    ("s1f3-unknown-svid-answered-with-0", SV, "responses.append(secsgem.secs.variables.Array(self.settings.data_items.SV, []))", "responses.append(secsgem.secs.variables.U1(0))"),
    ("s1f11-unknown-echoes-known-name", SV, '{"SVID": status_variable_id, "SVNAME": "", "UNITS": ""}', '{"SVID": status_variable_id, "SVNAME": "", "UNITS": "?"}'),
    ("s5f1-sent-regardless-of-enabled", AL, "        if self.alarms[alid].enabled:\n            self.send_and_waitfor_response(\n                self.stream_function(5, 1)(\n                    {\n", "        if True:\n            self.send_and_waitfor_response(\n                self.stream_function(5, 1)(\n                    {\n"),
    ("s5f1-resent-for-already-set-alarm", AL, "        if self.alarms[alid].set:\n            return\n", "        if False:\n            return\n"),
    ("s5f1-clear-report-carries-set-bit", AL, '{"ALCD": self.alarms[alid].code, "ALID": alid, "ALTX": self.alarms[alid].text}', '{"ALCD": self.alarms[alid].code | 128, "ALID": alid, "ALTX": self.alarms[alid].text}'),
    ("s5f7-filters-on-set", AL, "            if self.alarms[alid].enabled\n        ]", "            if self.alarms[alid].set\n        ]"),
    ("s5f3-disable-ignored", AL, "self.alarms[alid].enabled = function.ALED.get() == self.settings.data_items.ALED.ENABLE", "self.alarms[alid].enabled = True"),
    ("s5f5-set-bit-from-enabled", AL, "                | (self.settings.data_items.ALCD.ALARM_SET if self.alarms[alid].set else 0),\n                \"ALID\": alid,\n                \"ALTX\": self.alarms[alid].text,\n            }\n            for alid in alids", "                | (self.settings.data_items.ALCD.ALARM_SET if self.alarms[alid].enabled else 0),\n                \"ALID\": alid,\n                \"ALTX\": self.alarms[alid].text,\n            }\n            for alid in alids"),
    ("clear-alarm-keeps-set-flag", AL, "        self.alarms[alid].set = False\n", "        pass\n"),
]
