"""Mutants of the SECS-I line protocol (secsgem/secsi/protocol.py, block checksum in secsgem/common/message.py) for C17."""

P = "secsgem/secsi/protocol.py"

MUTANTS = [
    (
        "ack-before-checksum-test",
        P,
        "            if response is None:\n                self._connection.send_data(bytes([self.NAK]))\n                return\n\n"
        "            # redirect message to hsms handler\n            self._thread.queue_block(self, response)\n\n            self._connection.send_data(bytes([self.ACK]))",
        "            self._connection.send_data(bytes([self.ACK]))\n\n            if response is None:\n                self._connection.send_data(bytes([self.NAK]))\n                return\n\n"
        "            # redirect message to hsms handler\n            self._thread.queue_block(self, response)",
    ),
    ("block-read-one-byte-short", P, "data = self._receive_buffer.wait_for(length + 3)", "data = self._receive_buffer.wait_for(length + 2)"),
    ("resolve-true-on-nak", P, "block_info.resolve(data_response == self.ACK)", "block_info.resolve(data_response in (self.ACK, self.NAK))"),
    (
        "enq-only-for-first-block",
        P,
        "            self._connection.send_data(bytes([self.ENQ]))\n",
        "            if not getattr(self, \"_enq_sent\", False):\n                self._connection.send_data(bytes([self.ENQ]))\n            self._enq_sent = True\n",
    ),
    ("nak-byte-wrong", P, "    NAK = 0b00010101", "    NAK = 0b00010100"),
    (
        "block-sent-before-eot",
        P,
        "            enq_resonse = self._receive_buffer.wait_for_byte(peek=True)\n\n"
        "            if enq_resonse == self.ENQ and self._settings.device_type == secsgem.common.DeviceType.HOST:\n                self._process_received_data()\n                continue\n\n"
        "            enq_resonse = self._receive_buffer.pop_byte()\n\n            block_info = self._send_queue.get()\n\n            self._connection.send_data(block_info.data)\n",
        "            block_info = self._send_queue.get()\n\n            self._connection.send_data(block_info.data)\n\n"
        "            enq_resonse = self._receive_buffer.wait_for_byte(peek=True)\n\n            enq_resonse = self._receive_buffer.pop_byte()\n",
    ),
    (
        "dispatched-although-checksum-failed",
        P,
        "            if response is None:\n                self._connection.send_data(bytes([self.NAK]))",
        "            if response is None:\n                self._thread.queue_block(self, SecsIBlock(SecsIHeader.decode(bytes(data[1:11])), bytes(data[11:-2])))\n"
        "                self._connection.send_data(bytes([self.NAK]))",
    ),
    ("eot-not-sent", P, "            self._connection.send_data(bytes([self.EOT]))\n", "            pass\n"),
    (
        "checksum-low-byte-only",
        "secsgem/common/message.py",
        'if cls.checksum_format != "" and obj.checksum != data_fields[3]:',
        'if cls.checksum_format != "" and (obj.checksum & 0xFF) != (data_fields[3] & 0xFF):',
    ),
    ("length-byte-popped-twice", P, "length = self._receive_buffer.wait_for_byte(peek=True)", "length = self._receive_buffer.wait_for_byte(peek=False)"),
    ("bad-block-dropped-silently", P, "            if response is None:\n                self._connection.send_data(bytes([self.NAK]))\n                return", "            if response is None:\n                return"),
    # hand-over races (need parked line-level preemptions: gen/sweep families with {"pprob","hot"}, rush family / rush sweep)
    (
        "send-result-event-set-before-result-stored",
        "secsgem/common/block_send_info.py",
        "        self._result = BlockSendResult.SENT_OK if result else BlockSendResult.SENT_ERROR\n        self._result_trigger.set()\n\n"
        "    def wait(self) -> bool:\n        \"\"\"Wait for the message is sent and a result is available.\"\"\"\n        self._result_trigger.wait()\n\n"
        "        return self._result == BlockSendResult.SENT_OK",
        "        self._result_trigger.set()\n        self._result = BlockSendResult.SENT_OK if result else BlockSendResult.SENT_ERROR\n\n"
        "    def wait(self) -> bool:\n        \"\"\"Wait for the message is sent and a result is available.\"\"\"\n        self._result_trigger.wait()\n\n"
        "        return self._result != BlockSendResult.SENT_ERROR",
    ),
    (
        "dispatcher-triggered-before-block-queued",
        "secsgem/common/protocol_dispatcher.py",
        "        self._dispatch_queue.put((source, block))\n        self._dispatcher_thread_trigger.set()",
        "        self._dispatcher_thread_trigger.set()\n        self._dispatch_queue.put((source, block))",
    ),
    (
        "dispatcher-trigger-cleared-after-queue-check",
        "secsgem/common/protocol_dispatcher.py",
        "            self._dispatcher_thread_trigger.wait()\n            self._dispatcher_thread_trigger.clear()\n\n            if self._stop_dispatcher_thread:\n                continue\n\n"
        "            while self._dispatch_queue.qsize() > 0:",
        "            self._dispatcher_thread_trigger.wait()\n\n            if self._stop_dispatcher_thread:\n                continue\n\n"
        "            if self._dispatch_queue.qsize() == 0:\n                self._dispatcher_thread_trigger.clear()\n                continue\n\n"
        "            while self._dispatch_queue.qsize() > 0:",
    ),
    # secsgem/common/serial_connection.py, reached through the simulated serial ports (a quarter of the generated cases)
    ("serial-single-bytes-dropped", "secsgem/common/serial_connection.py", "            if len(data) > 0:", "            if len(data) > 1:"),
    ("serial-write-drops-last-byte-of-blocks", "secsgem/common/serial_connection.py", "        self._port.write(data)", "        self._port.write(data if len(data) < 20 else data[:-1])"),
]
