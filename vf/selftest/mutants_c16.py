MUTANTS = [
    # split
    ("block-size-245", "secsgem/secsi/message.py", "block_size = 244", "block_size = 245"),
    ("ebit-on-first-block", "secsgem/common/message.py", "last_block = (index + 1) == len(data_blocks)", "last_block = index == 0"),
    ("block-number-off-by-one", "secsgem/common/message.py", '"block": index + 1,', '"block": index,'),
    # checksum
    ("checksum-data-only", "secsgem/common/message.py", "for data_byte in self.header.encode() + self.data:", "for data_byte in self.data:"),
    ("checksum-compare-lt", "secsgem/common/message.py", "obj.checksum != data_fields[3]", "obj.checksum < data_fields[3]"),
    # header bit packing
    ("wbit-mask-decode", "secsgem/secsi/header.py", "res[1] & 0b01111111,", "res[1] & 0b11111111,"),
    # reassembly
    ("complete-from-first-block", "secsgem/secsi/message.py", "return self.blocks[-1].header.last_block", "return self.blocks[0].header.last_block"),
    ("from-block-ignores-incomplete", "secsgem/common/message.py", "return cls(block.header, block.data, complete=False)", "return cls(block.header, block.data, complete=True)"),
    (
        "reassembly-keyed-by-stream-function",
        "secsgem/common/protocol.py",
        """        if block.header.system not in self._incomplete_messages or getattr(block.header, "block", None) in (0, 1):
            self._incomplete_messages[block.header.system] = self.message_type.from_block(block)
        else:
            self._incomplete_messages[block.header.system].blocks.append(block)

        message = self._incomplete_messages[block.header.system]

        if not message.complete:
            return None

        del self._incomplete_messages[block.header.system]""",
        """        key = (block.header.stream << 8) | block.header.function
        if key not in self._incomplete_messages or getattr(block.header, "block", None) in (0, 1):
            self._incomplete_messages[key] = self.message_type.from_block(block)
        else:
            self._incomplete_messages[key].blocks.append(block)

        message = self._incomplete_messages[key]

        if not message.complete:
            return None

        del self._incomplete_messages[key]""",
    ),
    (
        "reassembly-keeps-completed-message",
        "secsgem/common/protocol.py",
        "        del self._incomplete_messages[block.header.system]\n        return message",
        "        return message",
    ),
    # consecutive complete messages of distinct transactions with equal system bytes ("reuse" cases)
    (
        "duplicate-filter-ignores-function-and-bits",
        "secsgem/common/protocol.py",
        "        # a first block starts a new message, blocks left from an attempt that failed in the middle are dropped\n",
        "        _vf_key = (block.header.system, getattr(block.header, \"block\", None), block.header.stream)\n"
        "        if getattr(self, \"_vf_last_block\", None) == _vf_key:\n            return None\n        self._vf_last_block = _vf_key\n"
        "        # a first block starts a new message, blocks left from an attempt that failed in the middle are dropped\n",
    ),
    (
        "completed-system-bytes-block-the-next-message",
        "secsgem/common/protocol.py",
        "        del self._incomplete_messages[block.header.system]\n        return message",
        "        del self._incomplete_messages[block.header.system]\n        if getattr(self, \"_vf_last_done\", None) == (block.header.system, len(message.blocks)):\n            return None\n"
        "        self._vf_last_done = (block.header.system, len(message.blocks))\n        return message",
    ),
]
