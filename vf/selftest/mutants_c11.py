SM = "secsgem/gem/state_models_capability.py"
CS = "secsgem/gem/control_state_machine.py"
CE = "secsgem/gem/collection_event_capability.py"

MUTANTS = [
    ("onlack-already-online-answers-1", SM, "            onlack = 2\n", "            onlack = 1\n"),
    ("onlack-not-allowed-answers-2", SM, "        onlack = 1\n", "        onlack = 2\n"),
    ("remembered-substate-not-updated-on-local", CS, '        self._online_control_state = "LOCAL"\n', "        pass\n"),
    (
        "ceid-remote-emitted-on-switch-to-local",
        SM,
        'self._control_state.transition("switch_online_local").events.called.register(\n            self._on_control_state_initial_online_local,',
        'self._control_state.transition("switch_online_local").events.called.register(\n            self._on_control_state_initial_online_remote,',
    ),
    (
        "s1f15-in-host-offline-goes-equipment-offline",
        SM,
        "        oflack = 0\n\n",
        "        oflack = 0\n\n        if self._control_state.current == ControlState.HOST_OFFLINE:\n            self._control_state._current_state = self._control_state.equipment_offline\n\n",
    ),
    ("sv-host-offline-numbered-2", SM, "            return 3\n", "            return 2\n"),
    ("sv-online-local-numbered-6", SM, "            return 4\n", "            return 6\n"),
    ("online-entry-always-local", CS, '        if self._online_control_state == "REMOTE":\n', "        if False:\n"),
    # ("operator-offline-allowed-from-attempt-online": switch_offline sources + attempt_online) was dropped: since transitions
    # are serialised (/repo 9bda331) no other thread can request a transition while the machine is in ATTEMPT_ONLINE, the
    # mutant is equivalent. Before that commit it was CAUGHT (operator-offline@ATTEMPT_ONLINE:state-EQUIPMENT_OFFLINE-...).
    (
        "s1f17-acked-0-while-attempt-online",
        SM,
        "        elif self._control_state.current in [\n            ControlState.ONLINE,",
        "        elif self._control_state.current == ControlState.ATTEMPT_ONLINE:\n            onlack = 0\n        elif self._control_state.current in [\n            ControlState.ONLINE,",
    ),
    (
        "s1f15-no-offline-event",
        SM,
        "            self._control_state.remote_offline()\n            self.trigger_collection_events([CollectionEventId.EQUIPMENT_OFFLINE.value])\n",
        "            self._control_state.remote_offline()\n",
    ),
    (
        "probe-s1f0-counts-as-success",
        SM,
        "        if response.header.stream != 1 or response.header.function != 2:\n",
        "        if response.header.stream != 1:\n",
    ),
    (
        "event-sent-although-disabled",
        CE,
        "                if ceid in self._registered_collection_events and self._registered_collection_events[ceid].enabled:\n                    reports = self._build_collection_event(ceid)\n\n                    self.send_and_waitfor_response(",
        "                if ceid in self._registered_collection_events:\n                    reports = self._build_collection_event(ceid)\n\n                    self.send_and_waitfor_response(",
    ),
    (
        "s1f17-in-host-offline-acks-without-transition",
        SM,
        "            self._control_state.remote_online()\n            onlack = 0\n",
        "            onlack = 0\n",
    ),
    (
        "revert-transition-12",
        CS,
        "[self.online, self.online_local, self.online_remote, self.host_offline],",
        "[self.online, self.online_local, self.online_remote],",
    ),
    (
        "operator-offline-in-host-offline-no-event",
        SM,
        "        self._control_state.switch_offline()\n        self.trigger_collection_events([CollectionEventId.EQUIPMENT_OFFLINE.value])\n",
        "        was_online = self._control_state.current != ControlState.HOST_OFFLINE\n        self._control_state.switch_offline()\n        if was_online:\n            self.trigger_collection_events([CollectionEventId.EQUIPMENT_OFFLINE.value])\n",
    ),
]
