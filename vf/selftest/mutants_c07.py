MUTANTS = [
    ("revert-commack-s1f14", "secsgem/gem/handler.py", "                if self.settings.streams_functions.decode(message).COMMACK.get() == 0:", "                if True:"),
    ("revert-commack-own-refusal", "secsgem/gem/handler.py", "                if commack == 0:\n                    self._communication_state.s1f13received()", "                if True:\n                    self._communication_state.s1f13received()"),
    ("revert-link-loss", "secsgem/gem/handler.py", "        self._protocol.events.disconnected += self._on_disconnected\n", ""),
    ("delay-timer-uses-t3", "secsgem/gem/communication_state_machine.py", "            self._settings.establish_communication_timeout,\n            self._on_wait_comm_delay_timeout,", "            self._settings.timeouts.t3,\n            self._on_wait_comm_delay_timeout,"),
    ("handle-sf-in-wait-cra", "secsgem/gem/handler.py", "        elif self._communication_state.current == CommunicationState.WAIT_DELAY:\n            pass", "        elif self._communication_state.current == CommunicationState.WAIT_DELAY:\n            self._handle_stream_function(message)"),
    ("no-retry-after-delay", "secsgem/gem/communication_state_machine.py", '        self._perform_transition("delayexpired")', "        pass"),
    ("t3-timer-half", "secsgem/gem/communication_state_machine.py", "threading.Timer(self._settings.timeouts.t3, self._on_wait_cra_timeout)", "threading.Timer(self._settings.timeouts.t3 / 2, self._on_wait_cra_timeout)"),
    ("disable-keeps-state", "secsgem/gem/handler.py", "        self.protocol.disable()\n        self._communication_state.disable()", "        self.protocol.disable()"),
    ("commack-wrong-value", "secsgem/gem/handler.py", "                commack = self.on_commack_requested()\n", "                commack = 0\n"),
    # application answer differing between consecutive calls: the state change asks again instead of using what went out on the wire
    ("wait-cra-asks-application-twice", "secsgem/gem/handler.py", "                if commack == 0:\n                    self._communication_state.s1f13received()", "                if self.on_commack_requested() == 0:\n                    self._communication_state.s1f13received()"),
    # fast peer: the S1F14 arrives while the timer thread that sent the S1F13 is still inside its transition
    ("s1f14-dropped-while-state-machine-busy", "secsgem/gem/handler.py", "            elif message.header.stream == 1 and message.header.function == 14:\n", "            elif message.header.stream == 1 and message.header.function == 14:\n                if not self._communication_state._transition_lock.acquire(blocking=False):\n                    return\n                self._communication_state._transition_lock.release()\n"),
    # fast refusal handled while the previous delay timer thread has not exited yet (PRNG schedule): no new delay timer
    ("delay-timer-not-rearmed-while-previous-alive", "secsgem/gem/communication_state_machine.py", "        self._comm_delay_timer = threading.Timer(\n            self._settings.establish_communication_timeout,", "        if self._comm_delay_timer is not None and self._comm_delay_timer.is_alive():\n            return\n        self._comm_delay_timer = threading.Timer(\n            self._settings.establish_communication_timeout,"),
]
