MUTANTS = [
    ("revert-commack-s1f14", "secsgem/gem/handler.py", "                if self.settings.streams_functions.decode(message).COMMACK.get() == 0:", "                if True:"),
    ("revert-commack-own-refusal", "secsgem/gem/handler.py", "                if commack == 0:\n                    self._communication_state.s1f13received()", "                if True:\n                    self._communication_state.s1f13received()"),
    ("revert-link-loss", "secsgem/gem/handler.py", "        self._protocol.events.disconnected += self._on_disconnected\n", ""),
    ("delay-timer-uses-t3", "secsgem/gem/communication_state_machine.py", "            self._settings.establish_communication_timeout,\n            self._on_wait_comm_delay_timeout,", "            self._settings.timeouts.t3,\n            self._on_wait_comm_delay_timeout,"),
    ("handle-sf-in-wait-cra", "secsgem/gem/handler.py", "        elif self._communication_state.current == CommunicationState.WAIT_DELAY:\n            pass", "        elif self._communication_state.current == CommunicationState.WAIT_DELAY:\n            self._handle_stream_function(message)"),
    ("no-retry-after-delay", "secsgem/gem/communication_state_machine.py", '        self._perform_transition("delayexpired")', "        pass"),
    ("t3-timer-half", "secsgem/gem/communication_state_machine.py", "threading.Timer(self._settings.timeouts.t3, self._on_wait_cra_timeout)", "threading.Timer(self._settings.timeouts.t3 / 2, self._on_wait_cra_timeout)"),
    ("disable-keeps-state", "secsgem/gem/handler.py", "        self.protocol.disable()\n        self._communication_state.disable()", "        self.protocol.disable()"),
    ("commack-wrong-value", "secsgem/gem/handler.py", "                commack = self.on_commack_requested()\n", "                commack = 0\n"),
]
