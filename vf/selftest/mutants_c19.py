"""Mutants for C19 (SFDL reader). Each must produce a bucket that is NOT one of the three known C19 findings.

Not listed because equivalent on every text the tokenizer lets through:
  * functions.generate `len(data_format) == 1` -> `<= 1`: a member list is never empty (`< L >` dies earlier with IndexError)
  * tokenizer `_process_closing_token`: removing the `closing_value != ">"` test alone - functions._generate_item_from_sfdl
    repeats the test; likewise `Unknown data type` is tested in both layers (only names that are attributes of the
    data_items package but no data items reach the second test: see unknown-item-fallback / upper-dropped).
"""

F = "secsgem/secs/variables/functions.py"
T = "secsgem/secs/functions/sfdl_tokenizer.py"
L = "secsgem/secs/variables/list_type.py"
A = "secsgem/secs/variables/array.py"

MUTANTS = [
    # record/array decision
    ("array-when-len-le-2", F, "        if len(data_format) == 1:\n            return Array(data_format[0])", "        if len(data_format) <= 2:\n            return Array(data_format[0])"),
    # where the list name goes
    ("peek-ahead-1", F, 'if tokenizer.tokens.peek(ahead=2).value != "L" and token_name:', 'if tokenizer.tokens.peek(ahead=1).value != "L" and token_name:'),
    # comments
    ("comment-end-without-lf", T, 'comment_end_chars = "\\n\\r"', 'comment_end_chars = "\\r"'),
    ("comment-end-without-cr", T, 'comment_end_chars = "\\n\\r"', 'comment_end_chars = "\\n"'),
    # whitespace
    ("tab-is-not-whitespace", T, 'whitespaces = " \\t\\n\\r"', 'whitespaces = " \\n\\r"'),
    # names
    ("upper-dropped", F, "item_name = item_token.value.upper()", "item_name = item_token.value"),
    ("unknown-item-fallback", F, '    if item is None:\n        raise item_token.exception(f"Unknown data type {item_name}")', "    if item is None:\n        item = data_items.DATAID"),
    # brackets: text ending before the closing bracket of a data item is closed silently
    ("autoclose-at-end-of-text", T, "            raise SFDLParseError.from_token(\"Closing tag '>' expected\", tokens[-1], end=True)\n\n        closing_value, closing_location = elements.pop()",
     "            tokens.append(SFDLToken(SFDLTokenType.CLOSE_TAG, \">\", tokens[-1].location, self))\n            return\n\n        closing_value, closing_location = elements.pop()"),
    # member keys
    ("default-key-renamed", L, '            return data_format[0]\n\n        return "DATA"', '            return data_format[0]\n\n        return "LIST"'),
    ("open-list-of-item-keyed-DATA", A, "            self.name = data_format.__name__", '            self.name = "DATA"'),
    ("name-marker-not-skipped", L, "                self.name = item\n                continue", "                self.name = item"),
    ("second-member-key-from-first", L, "            elif isinstance(item_value, Base):\n                result_data[item_value.name] = item_value", "            elif isinstance(item_value, Base):\n                result_data[item_value.name.rstrip('S')] = item_value"),
]
