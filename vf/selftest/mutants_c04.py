MUTANTS = [
    ("len-plus4-dropped", "secsgem/hsms/protocol.py", 'length = struct.unpack(">L", length_data)[0] + 4', 'length = struct.unpack(">L", length_data)[0] + 3'),
    ("peek-to-pop", "secsgem/hsms/protocol.py", "length_data = self._receive_buffer.peek(4)", "length_data = self._receive_buffer.pop(4)"),
    ("wbit-mask", "secsgem/hsms/header.py", "res[1] & 0b01111111,", "res[1] & 0b11111111,"),
    ("swap-ptype-stype", "secsgem/hsms/header.py", "            self.p_type,\n            self.s_type.value,", "            self.s_type.value,\n            self.p_type,"),
    ("while-to-if", "secsgem/hsms/protocol.py", "        while len(self._receive_buffer) > 3:", "        if len(self._receive_buffer) > 3:"),
    ("recv-chunk-drop-byte", "secsgem/common/tcp_connection.py", 'self.on_data({"source": self, "data": recv_data})', 'self.on_data({"source": self, "data": recv_data if len(recv_data) < 1024 else recv_data[:-1]})'),
    ("dispatch-lifo", "secsgem/common/protocol_dispatcher.py", "                data = self._dispatch_queue.get()", "                data = self._dispatch_queue.get() if self._dispatch_queue.qsize() < 3 else (self._dispatch_queue.get(), self._dispatch_queue.get())[1]"),
    ("system-trunc", "secsgem/hsms/header.py", "            self.system,\n        )", "            self.system & 0x7FFFFFFF,\n        )"),
]
