"""Mutants for C15 (SML writer / tokenizer / parser). Each must show up as a NEW bucket next to the existing
defects (str-dquote-in-literal, jis8-codepoint-not-byte, list-dot-terminator, type-name-nonascii-casefold).

Not used because they are equivalent with respect to the statement (verified by experiment):
  * `printable_chars` including "\\n": the tokenizer keeps every character inside a literal, `< A "a\\nb">` parses back.
  * `0 < int(length.value) != count` -> `0 <= ...`: differs only for `[0]` with elements, which to_sml never writes and
    whose rejection the statement does not ask for.
  * `'" ' + hex(...)` -> `'"' + hex(...)` (no blank after a literal): the closing quote already ends the token.
  * `hex(value)` -> `str(value)` for B / `oct(...)` for characters: int(text, 0) reads all of them.
"""

_GET_PEEK_OLD = '''        self._token_counter += 1
        return self._tokens[self._token_counter]

    def peek_token(self, ahead: int = 1) -> SMLToken:
        """Get an available token without incrementing the current position.

        Returns:
              token

        """
        return self._tokens[self._token_counter + ahead]
'''
_GET_PEEK_NEW = '''        self._token_counter += 1
        return self._tokens[min(self._token_counter, len(self._tokens) - 1)]

    def peek_token(self, ahead: int = 1) -> SMLToken:
        """Get an available token without incrementing the current position.

        Returns:
              token

        """
        return self._tokens[min(self._token_counter + ahead, len(self._tokens) - 1)]
'''

_READ_ITEM_OLD = '''        if not data_type.value.isascii() or data_type.value.upper() not in cls._subclasses_by_sml:
            raise data_type.exception(f"unknown data type '{data_type.value}'")

        return cls._subclasses_by_sml[data_type.value.upper()].from_sml(parser)'''
_READ_ITEM_NEW = '''        return cls._subclasses_by_sml.get(data_type.value.upper(), cls._subclasses_by_sml["L"]).from_sml(parser)'''

MUTANTS = [
    # --- writers (to_sml paths)
    ("bool-text-swapped", "secsgem/secs/item_boolean.py", 'return "0x1" if value else "0x0"', 'return "0x0" if value else "0x1"'),
    ("number-separator-dropped", "secsgem/secs/item.py", 'values_string = " ".join([', 'values_string = "".join(['),
    ("float-format-g", "secsgem/secs/item_number.py", 'return f"{value}"', 'return f"{value:g}"'),
    ("str-hex-prefix-dropped-after-literal", "secsgem/secs/item_str.py", "data += '\" ' + hex(output.encode(self._encoding)[0])", "data += '\" ' + hex(output.encode(self._encoding)[0])[2:]"),
    ("str-printable-flag-not-reset", "secsgem/secs/item_str.py", "                    data += \" \" + hex(output.encode(self._encoding)[0])\n                last_char_printable = False", "                    data += \" \" + hex(output.encode(self._encoding)[0])\n                last_char_printable = True"),
    ("binary-format-no-prefix", "secsgem/secs/item_b.py", "return hex(value)", 'return f"{value:02x}"'),
    ("list-count-off-by-one", "secsgem/secs/item_l.py", "[{len(self._value)}]", "[{len(self._value) + 1}]"),
    # --- readers
    ("str-strip-blanks-too", "secsgem/secs/item_str.py", "item.value[1:-1].encode(", "item.value[1:-1].strip().encode("),
    ("literal-closed-by-any-quote", "secsgem/secs/sml.py", "if char == current_delimiter:", "if char in self.literal_delimiter:"),
    ("whitespace-splits-literals", "secsgem/secs/sml.py", "            if current_delimiter:\n                current_delimiter, current_token", "            if current_delimiter and char not in self.whitespaces:\n                current_delimiter, current_token"),
    ("operator-before-pending-token", "secsgem/secs/sml.py",
     "        if current_token:\n            self._tokens.append(SMLToken(current_token, location.line, location.column, self))\n            current_token = \"\"\n\n        self._tokens.append(SMLToken(char, self._line, self._col, self))\n        location.reset()",
     "        self._tokens.append(SMLToken(char, self._line, self._col, self))\n        if current_token:\n            self._tokens.append(SMLToken(current_token, location.line, location.column, self))\n            current_token = \"\"\n\n        location.reset()"),
    # --- rejection / termination
    ("list-terminator-includes-square-bracket", "secsgem/secs/item.py", 'while parser.peek_token().value != ">":', 'while parser.peek_token().value not in ">]":'),
    ("unknown-type-read-as-list", "secsgem/secs/item.py", _READ_ITEM_OLD, _READ_ITEM_NEW),
    ("token-index-clamped-at-end", "secsgem/secs/sml.py", _GET_PEEK_OLD, _GET_PEEK_NEW),
    # --- long texts (population rt:long)
    ("literal-closed-at-4095-characters", "secsgem/secs/sml.py", "        if char == current_delimiter:\n            current_token += char", "        if char == current_delimiter or len(current_token) >= 4095:\n            current_token += char"),
    ("source-capped-at-64k", "secsgem/secs/sml.py", "            source = io.StringIO(source)", "            source = io.StringIO(source[:65536])"),
    ("list-count-capped-at-999", "secsgem/secs/item_l.py", "[{len(self._value)}]", "[{min(len(self._value), 999)}]"),
]
