_HDR_LOOP = """            length <<= 8
            length += bytearray(data)[text_pos]
"""

MUTANTS = [
    # item header: length bytes
    (
        "hdr-third-length-byte-dropped",
        "secsgem/secs/variables/base.py",
        "for _ in range(length_bytes):\n            length <<= 8",
        "for _ in range(min(length_bytes, 2)):\n            length <<= 8",
    ),
    (
        "hdr-length-masked-to-16-bits",
        "secsgem/secs/variables/base.py",
        _HDR_LOOP,
        "            length <<= 8\n            length = (length + bytearray(data)[text_pos]) & 0xFFFF\n",
    ),
    (
        "hdr-length-little-endian",
        "secsgem/secs/variables/base.py",
        _HDR_LOOP,
        "            length += bytearray(data)[text_pos] << (8 * _)\n",
    ),
    # item header: format code
    (
        "hdr-format-mask-7c",
        "secsgem/secs/variables/base.py",
        "format_code = (format_byte & 0b11111100) >> 2",
        "format_code = (format_byte & 0b01111100) >> 2",
    ),
    # numeric payload
    (
        "num-count-off-by-one-above-255",
        "secsgem/secs/variables/base_number.py",
        "for _ in range(length // self._bytes):",
        "for _ in range(length // self._bytes - (length > 255)):",
    ),
    (
        "num-decode-little-endian",
        "secsgem/secs/variables/base_number.py",
        'result.append(struct.unpack(f">{self._struct_code}", result_text)[0])',
        'result.append(struct.unpack(f"<{self._struct_code}", result_text)[0])',
    ),
    # Dynamic.decode table
    ("dyn-table-drops-i8", "secsgem/secs/variables/dynamic.py", "            I8.format_code: I8,\n", ""),
    ("revert-fix-dynamic-jis8", "secsgem/secs/variables/dynamic.py", "            JIS8.format_code: JIS8,\n", ""),
    (
        "dyn-decode-ignores-start",
        "secsgem/secs/variables/dynamic.py",
        "        return self.value.decode(data, start)",
        "        return self.value.decode(data[start:])",
    ),
    # float limits (the repaired defect, per format)
    (
        "revert-fix-f4-limits",
        "secsgem/secs/variables/f4.py",
        "_min = -3.4028234663852886e38\n    _max = 3.4028234663852886e38",
        "_min = -3.40282e38\n    _max = 3.40282e38",
    ),
    (
        "revert-fix-f8-limits",
        "secsgem/secs/variables/f8.py",
        "_min = -1.7976931348623157e308\n    _max = 1.7976931348623157e308",
        "_min = -1.79769e308\n    _max = 1.79769e308",
    ),
    # other payload decoders reached through the anchored Dynamic/Array code
    (
        "bool-only-0x01-is-true",
        "secsgem/secs/variables/boolean.py",
        "if bytearray(data)[text_pos] == 0:",
        "if bytearray(data)[text_pos] != 1:",
    ),
    (
        "array-count-low-byte-only",
        "secsgem/secs/variables/array.py",
        "        for _ in range(length):\n            new_object = generate(self.item_decriptor)\n            text_pos = new_object.decode(data, text_pos)",
        "        for _ in range(length & 0xFF):\n            new_object = generate(self.item_decriptor)\n            text_pos = new_object.decode(data, text_pos)",
    ),
]
