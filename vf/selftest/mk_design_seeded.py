"""Regenerate DESIGN.md section 8.2 (table of seeded changes) from /verif/seeded/*/meta.json.

usage: python -m vf.selftest.mk_design_seeded      (rewrites everything from the heading of 8.2 to the end of DESIGN.md)
"""
import json
import os

HERE = os.path.dirname(os.path.dirname(os.path.dirname(os.path.abspath(__file__))))

STRENGTHENED = """Checks strengthened because a seeded change was missed (generator reach, never the oracle):

* **C01** `C01-jis8-backslash-tilde-encode` - arbitrary characters are offered to the text types (task `text_accept`), not only
  text built from bytes through the reference table.
* **C05** `C05-open-transaction-before-selected-check`, `C05-source-check-outside-lock` - a transaction left open across a
  deselect (`app_request_open` / `reply_open`), and a Select.req racing the close of the link under parked preemptions in the
  transition and the disconnect handler.
* **C06** `C06-queue-registered-after-send` - the peer answers from inside the simulation (`peer_actor`), so a reply can overtake
  a preempted requester.
* **C17** `C17-first-block-clears-all-reassembly` - two application threads send from the same side (`run_pair`).
* **C02** `C02-dynamic-count-vs-byte-length` - count-limited Dynamic receivers with wide numeric element formats.
* **C03** `C03-instance-reply-required-from-has-reply` - flags reported by *instances* and the (S, F, W) of the HSMS header built
  for them are compared with the catalogue, not only the class attributes.
* **C04** `C04-recv-drain-drops-exact-1024` - frames and segments whose length is an exact multiple of the 1024-byte `recv` size.
* **C07** `C07-leave-wait-delay-cancels-wrong-timer` - history templates that restart the attempt while a timer of the previous
  attempt is pending.
* **C08** `C08-cached-callback-wrapper` - callbacks are unregistered / re-registered between messages and the same function is
  sent again.
* **C10** `C10-divmod-packetisation-resends-all` - block lengths that are exact multiples of `send_packet_size`.
* **C20** `C20-report-values-shared-across-reports` - the same event subscribed by two reports (was caught by C12 before).
* **C06** `C06-dispatcher-clear-after-drain` (lost wake-up of the dispatcher) - inbound frames due at the same instant arrive as a
  burst (one segment or back-to-back) instead of one by one with the endpoint idle in between; the application handler may return
  at once; a focused burst family (immediate replies, unsolicited primaries at equal instants, no later traffic that would rescue a
  stranded block) runs under preemptions in the dispatcher and the receive hand-over.
* **C07** `C07-commack-falsy-accepts-empty` - refusing S1F14 bodies carry any COMMACK other than one byte 0: values 1, 2, 64,
  255 and an item without any byte (decodable, but not "COMMACK = 0").
* **C08** `C08-reply-system-zero-falsy` - primaries carry boundary system bytes (0, 1, 2^31-1, 2^31, 2^32-1) besides the peer's
  running counter; C05's peer counter may start just below 2^32 for the same reason.
* **C20** `C20-protocol-enabled-before-commstate` - schedules with parked preemptions inside `enable`/`disable` and the link-event
  handlers; this also uncovered a limitation of the scheduler itself: busy-waiting threads (`_start_receiver`) were given their
  turn only after parked threads had been resumed, so a preempted thread could never be overtaken by the connect thread. The
  scheduler now serves busy-waiters before it resumes parked threads (all simulation-based checks re-run, no new report).
* **C07** `C07-any-function-13-in-wait-cra` - other inbound messages are no longer only the user's S10F3: function 13 / 14 on
  other streams and primaries with built-in handlers arrive in every communication state.
* **C20** `C20-subscription-recorded-after-enable` - op `subscribe_racing`: the equipment application triggers the event the
  moment the host's S2F37 has enabled it, i.e. inside the host's `subscribe_collection_event` call.
* **C06** `C06-stop-ends-dispatcher-start-revives` - family "slow handler across reconnect" (a handler that is still busy while
  the link drops and comes back); a case no longer ends when the link is down, and what the peer sends on the final link must
  all be delivered (in order), not only "at most once".
* **C08** `C08-s6f12-early-ack-then-abort` - a third of the well-formed bodies fill every open list of the catalogue structure
  with 1 or 2 members (before: the minimal tree, every open list empty, so an S6F11 never carried a report).
* **C01** `C01-number-encode-cache-stale-after-setitem` - task `reuse`: an object that was already encoded is changed through
  `set()`, the indexer or `decode()` and must then encode / report its current value.
* **C05** `C05-select-transition-by-requester-thread` - the peer's first data message may travel in the same segment as its
  Select.rsp (`answer_select` with `then_data`).
* **C03** `C03-default-catalogue-list-shared` - task `isolation`: `StreamsFunctions.update` in one container must not change what
  another default container, or the shipped catalogue list, finds under the same S/F numbers.
* **C04** `C04-bytequeue-pop-whole-buffer-unlocked-check` - schedules with parked line-level preemptions inside the receive buffer
  (`ByteQueue`) and the framing loop, and the `chunk-race` family: one segment whose frame boundaries coincide with the 1024-byte
  `recv` chunks, so that the next chunk is appended while a frame that is exactly the whole buffer is being taken out.
* **C03**, **C19** `C03-cached-sfdl-tokenizer-shared-cursor`, `C19-cached-tokenizer-shared-cursor` - task `pair`: two simulated
  threads use the same definition / the same function at the same time under generated line-level preemptions in the structure
  reader (`vf/conc.py`); each must get what a single thread gets.
* **C06** `C06-connected-handler-parses-buffer-inline` - family `eager-reconnect`: at a reconnect the peer's first primaries travel
  directly behind its Select.req and sit in the receive buffer while the endpoint still handles the new connection.
* **C06** `C06-response-queue-pooling` - reply action `edge` (the reply leaves the peer at the very instant the caller's T3 expires,
  sent by a thread inside the simulation) and the `t3-edge` family: whatever that race leaves behind must not reach a later caller.
* **C10** `C10-linger-zero-abortive-close` - the application closes the connection right after its sends were reported successful
  while the peer has not read them; the simulated sockets model `SO_LINGER` with zero timeout (RST, undelivered bytes discarded).
* **C09** `C09-listen-socket-reuseaddr-set-after-bind` - the simulated sockets model `TIME_WAIT` after an active close: re-binding
  the listening port fails with EADDRINUSE unless `SO_REUSEADDR` was set before `bind` (the existing disable / re-enable follow-up
  then reports `reconnect-refused`).
* **C09** `C09-receiver-loop-stop-check-before-trigger-clear` - was found by the closerace task at once, but as a harness error
  (the scripted peer's Select.rsp hit a connection that the wedged endpoint had reset): a new connection that the endpoint drops
  is now the failure `reselect-failed`.
* **C05** `C05-logging-decode-except-narrowed`, `C05-dispatcher-thread-per-connect` - data-message bodies are generated (conforming,
  over-long / too-short lists, other item formats, empty, unrelated valid SECS-II; catalogued and uncatalogued S/F) and judged by
  state only; op `req_then_data` puts data directly behind a Select.req / Deselect.req (same segment, back to back, or the moment the
  response is on the wire), a reconnect family runs it on the second and third connection under preemptions in the select handlers.
* **C07** `C07-wait-cra-s1f13-reply-reuses-communicating-handler`, `C07-wait-delay-skips-rearm-while-old-timer-thread-alive` - the
  application's `on_commack_requested` may answer differently on consecutive calls and the model follows the COMMACK on the wire;
  op `fast_reply` answers a retry S1F13 the moment it is on the wire, the `fast-retry` template runs that under PRNG schedules (the only
  C07 histories that leave the run-to-block schedule).
* **C08** `C08-gem-handler-reattached-on-reenable`, `C08-dispatcher-trigger-cleared-after-drain` - a restart op / family keeps one
  handler object through two or three sessions; a burst family sends primaries back to back (a W primary in the segment of a silent
  one, or fired on the first output) under preemptions in the dispatcher, with the oracle looking before any rescuing traffic.
* **C01** `C01-dynamic-decode-count-precheck-uses-byte-length` - Dynamic items with a count limit (counts elements, not bytes).
* **C03** `C03-dynamic-set-keeps-held-type-if-it-accepts-value` - a function object that held another conforming value is given the
  case's value through `set()`.
* **C04** `C04-whole-frame-segment-bypasses-receive-buffer` - segments that arrive a generated number of scheduling steps after the
  previous one (mid-processing) and the `whole-frame-race` family.
* **C11** `C11-collection-event-sender-queue-coalesces-pending-ceids` - op `flips`: several LOCAL/REMOTE switches in a row while the host
  has not acknowledged the earlier event reports.
* **C12** `C12-report-variable-resolution-cache-survives-delete-all` - template `redefine-after-use` (a report that was reported once is
  deleted - delete-all, delete-one, unlink first - and defined again under the same id with other variables).
* **C13** `C13-sv-encoded-value-memo-compared-by-equality` - template: poll, update to a value that compares equal but differs on the
  wire (0.0 / -0.0), poll again.
* **C14** `C14-iteml-decode-depth-guard-counter-leaks-on-failed-decode` - a valid list encoding is decoded right after a series of
  refused damaged copies of it.
* **C15** `C15-sml-tokenizer-chunked-read-drops-literal-state` - long items: texts of 1k..98k characters with lengths around
  1024 / 4096 / 8192 / ... / 65536, long numeric items, lists of up to 1800 items (`rt:long`, `enum_long`), with a minimiser that finds
  the first length at which the failure appears.
* **C16** `C16-duplicate-block-filter-keyed-by-system-and-block-number`, `C16-incomplete-message-table-capped-at-16-evicts-oldest` -
  consecutive complete messages of distinct transactions with equal system bytes (`reuse`), and 17-40 multi-block messages open at once.
* **C17** `C17-dispatcher-trigger-cleared-after-drain`, `C17-send-result-published-before-stored` - the `rush` family (back-to-back sends
  of one application thread, a line carrier that keeps a preempted thread parked over several line rounds - the ordinary line actor
  lets every thread settle between two line events - and a systematic sweep of every preemption site of the hand-over functions), and
  parked preemptions in the send-result hand-over for the corruption cases.
* **C20** `C20-report-id-counter-reset-on-enable` - automatic report ids, three collection events, variable lists of 1..4, and the
  `restart_history` template (subscribe, restart, subscribe another event, trigger); events are compared per report by variable ids.

One produced change was discarded instead of kept (`C20-second-link-resets-enabled`: linking a further report to an enabled
collection event builds a fresh link object, which is disabled until the next S2F37): SEMI E5 itself says that linked event
reports default to disabled upon linking, C12 deliberately mirrors the implementation on this point (section 4, C12), and the
host API re-enables the event in the same call - the statement of C20 does not pin the flag in that window, so a check that
reported it would over-reach.

In the tenth round `C02-dynamic-decode-reuses-same-type-value-stale-empty-binary` (Dynamic.decode re-uses the item it holds) was
confirmed when it arrived but stopped breaking anything once the defect it relied on was repaired in /repo (1aabe6e: an empty
Binary item now replaces the held value): its demonstration passes on the repaired tree, so it is not kept; the class it pointed
to (a receiver object decoding two items one after the other) stays in C02.

A second one was discarded in the ninth round (`C18-source-check-accepts-ancestor-states`: a transition whose listed source is
a composite state is accepted while one of its children is current): whether that is "allowed" is exactly the question the
statement leaves open (C18, correction 1: generated source sets are closed downward so that it never arises), and UML would side
with the change - a check that reported it would over-reach.

Final regression of rounds nine and ten: after all checks had been strengthened, the 58 kept changes of these two rounds were run
again against the final quick tiers (`python -m vf.selftest.seeded check <name> quick`, /repo at 1aabe6e); the run was stopped for
time after 40 changes (C01 ... C14 in name order), all 40 CAUGHT; the remaining 18 (C14 ... C20) were each verified against the
final version of their check when that check was strengthened.

Sibling catches (a change to one property's anchored code seen by another check as well): `C04-bytequeue-read-offset-survives-clear`
by C09 and `C11-transition-source-check-before-lock` by C18 (both missed by the check of their own property: the needed alphabet -
link loss inside a frame, two threads inside a transition - belongs to the sibling); `C20-report-values-shared-across-reports`
by C12; `C05-source-check-outside-lock` by C18; the reversal of fix d663f2e by C05 and C09.
"""


def main():
    path = os.path.join(HERE, "DESIGN.md")
    s = open(path).read()
    head = s[: s.index("### 8.2 Independently seeded changes")]
    rows, strengthened = [], 0
    sdir = os.path.join(HERE, "seeded")
    for n in sorted(os.listdir(sdir)):
        m = json.load(open(os.path.join(sdir, n, "meta.json")))
        v = m["verified_by_main"]
        needs = " ".join(str(m["needs"]).split())[:220].replace("|", "/")
        res = v["check"].split("->", 1)[1].strip() if "->" in v["check"] else v["check"]
        rows.append(f"| `{n}` | {m['property']} | {needs} | {' '.join(res.split()).replace('|', '/')} |")
        strengthened += bool(v.get("check_strengthened"))
    body = f"""### 8.2 Independently seeded changes (`/verif/seeded/<name>/`)

{len(rows)} changes (ten batches; the ninth and tenth asked every agent for two changes with different mechanisms) were written by fresh sub-agents that saw only the text of one property and a
scratch worktree of /repo (nothing from /verif). Each has `patch.diff`, `demo.py` (fails with the change, passes without)
and `meta.json` (what it needs to manifest, why the suite does not notice, what was run). Every one was confirmed here in a
scratch worktree of /repo HEAD (`python -m vf.selftest.seeded confirm <name>`: demo exit 0 without / exit 1 with the patch,
all 2834 repo tests pass with the patch) and then run against the registered quick check
(`python -m vf.selftest.seeded check <name> quick`; the check is pointed at the patched scratch tree through `VF_REPO`,
/repo itself is never patched). All {len(rows)} are caught by a registered quick tier now - {len(rows) - 2} by the check of their own property, two by
the check of a sibling property (see 'Sibling catches' below); {strengthened} were
missed by the version of the check that existed when the change arrived and led to a stronger check (listed below the table).
The "needs" column is cut to 220 characters; the full text is in `meta.json`. (This section is generated:
`python -m vf.selftest.mk_design_seeded`.)

| seeded change | property | needs | result |
|---|---|---|---|
""" + "\n".join(rows) + "\n\n" + STRENGTHENED
    open(path, "w").write(head + body)
    print(len(rows), "seeded changes,", strengthened, "strengthened")


if __name__ == "__main__":
    main()
