"""Runner: ./check <ID> quick|thorough [--replay FILE].

Exit codes: 0 property held on everything explored (KNOWN-FINDING lines may be printed),
1 VIOLATION (line `VIOLATION property=<id> replay=<path>`), 2 harness error.

A check module (vf/checks/cXX.py) provides:
  PROPERTY, LEVEL, RULE, ASSUMPTIONS, TECHNIQUE
  plan(tier, seed) -> list[(task_name, kwargs)]           tasks run in worker processes
  run_task(name, kwargs, ctx)                             records into ctx (vf.run.Ctx)
  replay(case, ctx) -> Failure | None                     one saved case, no Hypothesis
"""

from __future__ import annotations

import hashlib
import importlib
import json
import multiprocessing
import os
import sys
import time
import traceback
from collections import Counter

HERE = os.path.dirname(os.path.dirname(os.path.abspath(__file__)))
OUT = os.environ.get("VF_SCRATCH") or HERE  # evidence/ and new replay files (scratch dir for mutant self-tests)
REPO = os.environ.get("VF_REPO", "/repo")


def _pin_repo():
    """Make sure the code under test is the working tree at $VF_REPO."""
    if REPO not in sys.path[:1]:
        sys.path.insert(0, REPO)
    import secsgem  # noqa

    path = os.path.realpath(secsgem.__file__)
    if not path.startswith(os.path.realpath(REPO) + os.sep):
        print(f"HARNESS-ERROR secsgem imported from {path}, expected under {REPO}")
        sys.exit(2)


class Failure:
    """One oracle disagreement."""

    def __init__(self, bucket, case, observed="", expected="", detail=None):
        self.bucket = bucket
        self.case = case
        self.observed = _short(observed)
        self.expected = _short(expected)
        self.detail = detail

    def to_json(self):
        return {
            "bucket": self.bucket,
            "case": self.case,
            "observed": self.observed,
            "expected": self.expected,
            "detail": self.detail,
        }

    def __repr__(self):
        return f"Failure({self.bucket!r}, case={_short(self.case, 300)}, observed={self.observed}, expected={self.expected})"


class HarnessError(Exception):
    pass


class _Stop(Exception):
    """Raised inside a hypothesis test to signal a (new) failure."""


def _short(x, n=600):
    s = x if isinstance(x, str) else repr(x)
    return s if len(s) <= n else s[:n] + f"...(+{len(s) - n})"


def chash(case) -> bytes:
    return hashlib.blake2b(json.dumps(case, sort_keys=True, default=repr).encode(), digest_size=8).digest()


class Ctx:
    """Per-process collector handed to run_task / replay."""

    MAX_HASHES = 400_000
    MAX_SAMPLES = 6

    def __init__(self, prop, tier, seed, known_keys, deadline):
        self.prop = prop
        self.tier = tier
        self.seed = seed
        self.known_keys = set(known_keys)
        self.deadline = deadline
        self.evals = 0
        self.nontrivial = set()
        self.nontrivial_overflow = 0
        self.classes = Counter()
        self.samples = []
        self.failures = []  # list[Failure] (new buckets only, one per bucket)
        self.known_hits = Counter()
        self.excluded = Counter()
        self.notes = []
        self.budget_hit = False
        self._session_buckets = set()

    # ---- recording
    def case(self, case, nontrivial, classes=(), key=None):
        self.evals += 1
        for c in classes:
            self.classes[c] += 1
        if nontrivial:
            h = key if key is not None else chash(case)
            if len(self.nontrivial) < self.MAX_HASHES:
                self.nontrivial.add(h)
            elif h not in self.nontrivial:
                self.nontrivial_overflow += 0  # conservative: not counted
            if len(self.samples) < self.MAX_SAMPLES and (self.evals % 7 == 1 or len(self.samples) < 2):
                self.samples.append(_sample(case))

    def count(self, cls, n=1):
        self.classes[cls] += n

    def exclude(self, why, n=1):
        self.excluded[why] += n

    def note(self, text):
        if text not in self.notes:
            self.notes.append(text)

    def time_left(self):
        return self.deadline - time.time()

    def out_of_time(self):
        if time.time() > self.deadline:
            self.budget_hit = True
            return True
        return False

    # ---- failures
    def is_known(self, f: Failure):
        return f.bucket in self.known_keys

    def report(self, f: Failure | None):
        """Record a failure found outside Hypothesis (enumerations). Returns True if it is new."""
        if f is None:
            return False
        if self.is_known(f):
            self.known_hits[f.bucket] += 1
            return False
        if f.bucket in self._session_buckets:
            self.classes["repeat_of_new_bucket:" + f.bucket] += 1
            return False
        self._session_buckets.add(f.bucket)
        self.failures.append(f)
        return True

    def hyp(self, strategy, body, max_examples, seed_offset=0, shrink=None, max_buckets=4, stateful_steps=None):
        """Run body(case)->Failure|None over generated cases; collect-then-shrink per bucket."""
        import hypothesis
        from hypothesis import HealthCheck, Phase, given, settings

        if shrink is None:
            shrink = True
        phases = [Phase.generate] + ([Phase.shrink] if shrink else [])
        shrink_budget = 20 if self.tier == "quick" else 120
        remaining = max_examples
        round_no = 0
        buckets_found = 0
        chunk_size = 400 if self.tier == "quick" else 2000  # Hypothesis keeps drawing after the budget: run in chunks
        while remaining > 0 and buckets_found <= max_buckets and not self.out_of_time():
            round_no += 1
            this = min(remaining, chunk_size)
            last = {}
            n_before = self.evals

            @hypothesis.seed(self.seed * 1000003 + seed_offset * 101 + round_no)
            @settings(
                max_examples=this,
                database=None,
                deadline=None,
                phases=phases,
                report_multiple_bugs=False,
                suppress_health_check=list(HealthCheck),
                print_blob=False,
            )
            @given(strategy)
            def t(case):
                if "f" in last:
                    # shrinking: bounded by its own budget; once exhausted every input "fails" so that the
                    # shrinker terminates at once and the best genuine failure seen so far is kept
                    if time.time() > last["shrink_until"] or time.time() > self.deadline + 10:
                        last["cut"] = True
                        raise _Stop(last["f"].bucket)
                elif self.out_of_time():
                    return
                f = body(case)
                if f is None:
                    return
                if self.is_known(f):
                    self.known_hits[f.bucket] += 1
                    return
                if f.bucket in self._session_buckets:
                    return
                if "f" not in last:
                    last["shrink_until"] = time.time() + shrink_budget
                last["f"] = f
                raise _Stop(f.bucket)

            try:
                t()
            except _Stop:
                f = last["f"]
                self._session_buckets.add(f.bucket)
                self.failures.append(f)
                buckets_found += 1
                remaining -= max(1, min(this, self.evals - n_before))
                continue
            except hypothesis.errors.Flaky as exc:
                if last.get("cut"):
                    # shrinking was cut short by its time budget (Hypothesis notices the forced stop): keep the
                    # smallest genuine failure seen so far
                    f = last["f"]
                    self._session_buckets.add(f.bucket)
                    self.failures.append(f)
                    self.note("shrinking of a failure was cut short by its time budget")
                    buckets_found += 1
                    remaining -= max(1, min(this, self.evals - n_before))
                    continue
                # nondeterministic body: harness problem
                raise HarnessError(f"flaky hypothesis test: {exc}") from exc
            remaining -= this


def _sample(case):
    s = json.dumps(case, default=repr)
    if len(s) > 700:
        return s[:700] + "..."
    return case


# --------------------------------------------------------------------------------------------
# known findings


def load_known(prop):
    path = os.path.join(HERE, "known_findings.json")
    if not os.path.exists(path):
        return [], []
    data = json.load(open(path))
    known = [e for e in data.get("known", []) if e["property"] == prop]
    fixed = [e for e in data.get("fixed", []) if e["property"] == prop]
    return known, fixed


# --------------------------------------------------------------------------------------------
# worker


def _worker(args):
    modname, prop, tier, seed, known_keys, deadline, name, kwargs = args
    try:
        _pin_repo()
        mod = importlib.import_module(modname)
        ctx = Ctx(prop, tier, seed, known_keys, deadline)
        mod.run_task(name, kwargs, ctx)
        return _pack(ctx, name)
    except BaseException:  # noqa
        return {"error": f"task {name} {kwargs}: " + traceback.format_exc()}


def _pack(ctx, name):
    return {
        "task": name,
        "evals": ctx.evals,
        "nontrivial": ctx.nontrivial,
        "classes": ctx.classes,
        "samples": ctx.samples,
        "failures": [f.to_json() for f in ctx.failures],
        "known_hits": ctx.known_hits,
        "excluded": ctx.excluded,
        "notes": ctx.notes,
        "budget_hit": ctx.budget_hit,
    }


# --------------------------------------------------------------------------------------------


def _interleave(tasks):
    """Round-robin over the task kinds (order inside a kind kept), so that every kind of a plan gets its share of workers
    from the start and none is starved when the budget is hit on a loaded machine."""
    kinds, by = [], {}
    for t in tasks:
        if t[0] not in by:
            by[t[0]] = []
            kinds.append(t[0])
        by[t[0]].append(t)
    out = []
    while any(by[k] for k in kinds):
        for k in kinds:
            if by[k]:
                out.append(by[k].pop(0))
    return out


def main(argv):
    if len(argv) < 2:
        print("usage: check <ID> quick|thorough [--replay FILE]")
        return 2
    prop = argv[0].upper()
    tier = argv[1]
    replay_file = None
    if tier == "--replay":
        tier, replay_file = "quick", argv[2]
    elif len(argv) >= 4 and argv[2] == "--replay":
        replay_file = argv[3]
    if tier not in ("quick", "thorough"):
        print("tier must be quick or thorough")
        return 2
    try:
        seed = int(os.environ.get("VERIF_SEED", "1"))
    except ValueError:
        seed = 1
    _pin_repo()
    modname = f"vf.checks.{prop.lower()}"
    try:
        mod = importlib.import_module(modname)
    except Exception:
        traceback.print_exc()
        print(f"HARNESS-ERROR cannot import {modname}")
        return 2

    t0 = time.time()
    budget = getattr(mod, "BUDGET_S", {"quick": 150, "thorough": 1500})[tier]
    deadline = t0 + budget
    known, fixed = load_known(prop)
    known_keys = [e["key"] for e in known]

    if replay_file:
        ctx = Ctx(prop, tier, seed, [], deadline)
        data = json.load(open(replay_file))
        f = mod.replay(data["case"], ctx)
        if f is not None:
            print(f"replay still fails: {f}")
            print(f"VIOLATION property={prop} replay={replay_file}")
            return 1
        print("replay passes")
        return 0

    violations = []  # Failure json
    known_lines = {}
    still_known = []
    ctx0 = Ctx(prop, tier, seed, [], deadline)
    # 1. witnesses of known findings: still failing -> KNOWN-FINDING, else searched again
    for e in known:
        try:
            f = mod.replay(e["witness"], ctx0)
        except Exception:
            traceback.print_exc()
            print(f"HARNESS-ERROR replay of known finding {e['key']}")
            return 2
        if f is not None and f.bucket == e["key"]:
            known_lines[e["key"]] = e["what"]
            still_known.append(e["key"])
        elif f is not None:
            violations.append(f.to_json())
        else:
            ctx0.note(f"known finding {e['key']} no longer reproduces; region searched again")
    # 2. witnesses of fixed findings and committed regression replays must pass
    regress = []
    for e in fixed:
        if "witness" in e:
            regress.append((f"fixed:{e['key']}", e["witness"]))
    rdir = os.path.join(HERE, "replays", prop)
    if os.path.isdir(rdir):
        for fn in sorted(os.listdir(rdir)):
            if fn.endswith(".json") and not fn.startswith("new-"):
                try:
                    regress.append((fn, json.load(open(os.path.join(rdir, fn)))["case"]))
                except Exception:
                    pass
    n_regress = 0
    for name, case in regress:
        try:
            f = mod.replay(case, ctx0)
        except Exception:
            traceback.print_exc()
            print(f"HARNESS-ERROR regression replay {name}")
            return 2
        n_regress += 1
        if f is not None and f.bucket not in still_known:
            f.bucket = f.bucket
            violations.append(f.to_json())

    # 3. generated search
    tasks = _interleave(mod.plan(tier, seed))
    nproc = int(os.environ.get("VF_PROCS", "16"))
    args = [(modname, prop, tier, seed, still_known, deadline, n, kw) for (n, kw) in tasks]
    results = []
    if os.environ.get("VF_INPROC") == "1" or nproc == 1:
        results = [_worker(a) for a in args]
    else:
        mpc = multiprocessing.get_context("fork")
        with mpc.Pool(min(nproc, max(1, len(args))), maxtasksperchild=getattr(mod, "MAXTASKS", None)) as pool:
            asyncs = [pool.apply_async(_worker, (a,)) for a in args]
            hard = deadline + getattr(mod, "GRACE_S", 120)
            for a, arg in zip(asyncs, args):
                try:
                    results.append(a.get(timeout=max(1.0, hard - time.time())))
                except multiprocessing.TimeoutError:
                    print(f"HARNESS-ERROR watchdog: task {arg[6]} {arg[7]} did not finish")
                    pool.terminate()
                    return 2

    evals = ctx0.evals
    nontrivial = set(ctx0.nontrivial)
    classes = Counter(ctx0.classes)
    samples = list(ctx0.samples)
    known_hits = Counter()
    excluded = Counter()
    notes = list(ctx0.notes)
    budget_hit = False
    seen_buckets = {v["bucket"] for v in violations}
    per_task = {}
    for r in results:
        if "error" in r:
            print(r["error"])
            print(f"HARNESS-ERROR in worker")
            return 2
        evals += r["evals"]
        nontrivial |= r["nontrivial"]
        classes.update(r["classes"])
        for s in r["samples"]:
            if len(samples) < 12:
                samples.append(s)
        known_hits.update(r["known_hits"])
        excluded.update(r["excluded"])
        for n in r["notes"]:
            if n not in notes:
                notes.append(n)
        budget_hit = budget_hit or r["budget_hit"]
        per_task[r["task"]] = per_task.get(r["task"], 0) + r["evals"]
        for f in r["failures"]:
            if f["bucket"] not in seen_buckets:
                seen_buckets.add(f["bucket"])
                violations.append(f)

    # 4. output
    for k, what in known_lines.items():
        print(f"KNOWN-FINDING: property={prop} {k}: {what} (generated hits this run: {known_hits.get(k, 0)})")
    rc = 0
    vpaths = []
    odir = os.path.join(OUT, "replays", prop)
    if violations:
        os.makedirs(odir, exist_ok=True)
        for v in violations:
            safe = "".join(c if c.isalnum() or c in "-_." else "_" for c in v["bucket"])[:80]
            path = os.path.join(odir, f"new-{safe}.json")
            json.dump(
                {"property": prop, "tier": tier, "seed": seed, **v, "tree": _tree()},
                open(path, "w"),
                indent=1,
                default=repr,
            )
            print(f"  bucket={v['bucket']} observed={_short(v['observed'], 300)} expected={_short(v['expected'], 300)}")
            print(f"  case={_short(json.dumps(v['case'], default=repr), 500)}")
            print(f"VIOLATION property={prop} replay={os.path.relpath(path, OUT)}")
            vpaths.append(path)
        rc = 1

    wall = time.time() - t0
    cov = {
        "evaluations": evals,
        "distinct_nontrivial": len(nontrivial),
        "rule": mod.RULE,
        "samples": samples if samples else ["(no sample recorded)"],
        "classes": dict(sorted(classes.items())),
        "per_task_evaluations": per_task,
        "known_finding_hits": dict(known_hits),
        "excluded_by_construction": dict(excluded),
        "regression_replays": n_regress,
        "known_findings_reproduced": sorted(known_lines),
        "budget_hit": budget_hit,
        "notes": notes,
        "technique": getattr(mod, "TECHNIQUE", ""),
    }
    if getattr(mod, "EXHAUSTIVE_NOTE", None):
        cov["exhaustive_parts"] = mod.EXHAUSTIVE_NOTE
    ev = {
        "property_id": prop,
        "tier": tier,
        "seed": seed,
        "level": mod.LEVEL,
        "coverage": cov,
        "assumptions": list(getattr(mod, "ASSUMPTIONS", [])),
        "wall_s": round(wall, 2),
        "violations": len(violations),
    }
    os.makedirs(os.path.join(OUT, "evidence"), exist_ok=True)
    with open(os.path.join(OUT, "evidence", f"{prop}.json"), "w") as fh:
        json.dump(ev, fh, indent=1, default=repr)
    print(
        f"{prop} {tier} seed={seed}: evaluations={evals} distinct_nontrivial={len(nontrivial)} "
        f"known_hits={sum(known_hits.values())} violations={len(violations)} wall={wall:.1f}s"
        + (" (budget hit: inconclusive beyond what was covered)" if budget_hit else "")
    )
    return rc


def _tree():
    try:
        import subprocess

        return subprocess.run(
            ["git", "-C", REPO, "describe", "--always", "--dirty"], capture_output=True, text=True, timeout=10
        ).stdout.strip()
    except Exception:
        return "?"


if __name__ == "__main__":
    try:
        rc = main(sys.argv[1:])
    except SystemExit:
        raise
    except BaseException:
        traceback.print_exc()
        print("HARNESS-ERROR")
        rc = 2
    sys.stdout.flush()
    os._exit(rc)
