"""C08 - every primary expecting a reply is answered exactly once, same system bytes.

A COMMUNICATING GemEquipmentHandler / GemHostHandler (real HSMS protocol + TCP classes, simulated sockets, deterministic
scheduler) receives generated sequences of primaries: any stream 1..127 / odd function 1..255 (catalogued with a built-in
handler, catalogued with a user callback registered by the case, catalogued without callback, uncatalogued), W-bit set or
not, bodies well-formed / empty / truncated / random / the valid body of another function; user callbacks return the
secondary, send it themselves, or raise; remote-command callbacks succeed or raise.

Oracle (outbound frames are parsed by ref.e37 / ref.e5, never by secsgem), per injected primary, at the next quiescent
point:
  W set   -> exactly ONE data frame with its system bytes, and it is
             - the secondary (S, F+1) the user callback returned (body identical), or
             - (S, 0) when the user callback raised, or
             - S9F5 whose body is a B item with the 10 offending header bytes when no callback exists, or
             - for built-in handlers and for malformed bodies: any one of (S, F+1), (S, 0), S9Fx (the statement fixes the
               count and the system bytes, not which of its three answers a built-in handler chooses for bad data)
  W clear -> no frame with its system bytes when the message is handled without error
Primaries the handler originates itself (fresh system bytes: S6F11, S5F1, S1F1 ...) are answered by the scripted peer.
"""

from __future__ import annotations

from hypothesis import strategies as st

from vf import gemrig, hsmsrig
from vf.gemrig import A, B, L
from vf.ref import e5, e37
from vf.run import Failure

PROPERTY = "C08"
LEVEL = "exploration"
TECHNIQUE = "property-based testing of message sequences against a reply-count/identity oracle decoded by independent codecs, under a deterministic scheduler"
RULE = (
    "Sequences of 1..12 (quick) / 1..30 (thorough) inbound primaries; (S,F) drawn with equal weight from the classes "
    "built-in handler / user callback (returns secondary | sends it itself | raises) / catalogued without callback / "
    "uncatalogued (any S 1..127, odd F 1..255); W in {0,1}; body in {valid, empty, truncated, random bytes, valid body of "
    "another function}; S2F41 with registered rcmd callbacks that succeed or raise; host and equipment role. Non-trivial = "
    "malformed/empty body, or uncatalogued S/F, or failing callback, or >= 10 messages mixing all classes; distinct by case hash."
)
ASSUMPTIONS = [
    "for built-in handlers and malformed bodies any ONE of the statement's three answers is accepted",
    "a callback that raises on a primary WITHOUT W-bit is outside the statement (not 'handled without error')",
    "default schedule; concurrency of the reply path is C06's subject",
]
BUDGET_S = {"quick": 110, "thorough": 1200}

EQ_BUILTIN = [(1, 1), (1, 3), (1, 11), (1, 13), (1, 15), (1, 17), (2, 13), (2, 15), (2, 29), (2, 33), (2, 35), (2, 37), (2, 41), (5, 3), (5, 5), (5, 7), (6, 15)]
HOST_BUILTIN = [(1, 1), (1, 13), (5, 1), (6, 11), (10, 1)]
# catalogued primaries without a built-in handler, with a valid body (independent E5 trees) and the secondary a user callback returns
USER = {
    (2, 17): (None, (2, 18), (A, b"2024010112000000")),
    (7, 1): ((L, [(A, b"pp"), ("U4", [10])]), (7, 2), (B, b"\x00")),
    (7, 3): ((L, [(A, b"pp"), (B, b"\x01\x02\x03")]), (7, 4), (B, b"\x00")),
    (7, 5): ((A, b"pp"), (7, 6), (L, [(A, b"pp"), (B, b"\x01")])),
    (7, 19): (None, (7, 20), (L, [(A, b"a"), (A, b"b")])),
    (10, 3): ((L, [(B, b"\x01"), (A, b"text")]), (10, 4), (B, b"\x00")),
}
# bodies that must be more specific than the default-constructed function (which is what "valid" means otherwise)
VALID_SPECIAL = {
    (1, 3): (L, [("U4", [1002])]),
    (2, 41): (L, [(A, b"START"), (L, [])]),
    (6, 15): ("U4", [1]),
}
NOCB = [(1, 21), (1, 23), (2, 21), (2, 23), (2, 25), (2, 43), (2, 45), (2, 47), (2, 49), (5, 9), (5, 11), (5, 13), (5, 15), (5, 17), (6, 1), (6, 5), (6, 7), (6, 19), (6, 21), (6, 23), (7, 17), (12, 1), (12, 3), (12, 5), (12, 7), (12, 9), (12, 11), (12, 13), (12, 15), (12, 17), (12, 19), (14, 1), (14, 3)]
UNCAT = [(99, 1), (1, 99), (127, 255), (64, 1), (3, 1), (8, 1), (1, 5), (2, 1), (100, 101), (11, 11)]


@st.composite
def case_strategy(draw, max_msgs=12):
    role = draw(st.sampled_from(["equipment", "equipment", "host"]))
    builtin = EQ_BUILTIN if role == "equipment" else HOST_BUILTIN
    n = draw(st.integers(1, max_msgs))
    msgs = []
    for _ in range(n):
        if draw(st.integers(0, 7)) == 0:
            # the application removes / re-installs one of its callbacks between messages
            seen = [tuple(x["sf"]) for x in msgs if "ctl" not in x and tuple(x["sf"]) in USER]
            sf = draw(st.sampled_from(seen)) if seen and draw(st.booleans()) else draw(st.sampled_from(sorted(USER)))
            msgs.append({"ctl": draw(st.sampled_from(["unregister", "unregister", "register"])), "sf": list(sf)})
            # ... and the same function arrives again afterwards
            msgs.append({"cls": "user", "sf": list(sf), "w": 1, "body": "valid", "cb": draw(st.sampled_from(["return", "raise"]))})
            continue
        cls = draw(st.sampled_from(["builtin", "user", "nocb", "uncat"]))
        if cls == "builtin":
            sf = draw(st.sampled_from(builtin))
        elif cls == "user":
            sf = draw(st.sampled_from(sorted(USER)))
        elif cls == "nocb":
            sf = draw(st.sampled_from(NOCB))
        else:
            sf = draw(st.one_of(st.sampled_from(UNCAT), st.tuples(st.integers(1, 127), st.integers(0, 127).map(lambda x: 2 * x + 1))))
        m = {"cls": cls, "sf": list(sf), "w": draw(st.sampled_from([1, 1, 0])), "body": draw(st.sampled_from(["valid", "valid", "valid", "empty", "trunc", "random", "other"]))}
        if m["body"] == "random":
            m["raw"] = draw(st.binary(min_size=1, max_size=12)).hex()
        if cls == "user":
            m["cb"] = draw(st.sampled_from(["return", "return", "self_send", "raise"]))
        if tuple(sf) == (2, 41):
            m["rcmd"] = draw(st.sampled_from(["ok", "raise", "unknown"]))
        if m["body"] == "valid" and draw(st.integers(0, 2)) == 0:
            m["fill"] = draw(st.sampled_from([1, 2]))  # open lists of the structure carry 1 or 2 members instead of none
        sysb = draw(st.sampled_from([None, None, None, None, None, 0, 1, 0x7FFFFFFF, 0x80000000, 0xFFFFFFFF]))
        if sysb is not None:
            m["sys"] = sysb  # boundary system bytes (0 and 2^32-1 are legal); otherwise the peer's running counter
        msgs.append(m)
    return {"role": role, "msgs": msgs}


_CAT = {}


def _minimal(shape, items, fill=0):
    """Smallest well-formed E5 tree for a catalogue shape (independent reader vf/ref/catalogue.py); fill = number of
    members put into every open list (0: the minimal tree)."""
    kind = shape[0]
    if kind == "item":
        it = items[shape[1]]
        f = it.types[0]
        if f == "L":
            return (L, [])
        if f in ("A", "J", "B"):
            return (f, b"\x00" if f == "B" else b"x")
        if f == "BOOLEAN":
            return (f, [False])
        return (f, [0])
    if kind == "array":
        return (L, [_minimal(shape[2], items, fill) for _ in range(fill)])
    return (L, [_minimal(c, items, fill) for c in shape[2]])


def _valid_body(sf, role, handler, fill=0):
    """A well-formed body for a catalogued primary: a specific tree, or the minimal tree of its catalogue structure."""
    from vf.ref import catalogue

    sf = tuple(sf)
    if sf in USER:
        item = USER[sf][0]
        return b"" if item is None else e5.encode(item)
    if sf in VALID_SPECIAL:
        return e5.encode(VALID_SPECIAL[sf])
    if not _CAT:
        _CAT["fn"] = catalogue.functions()
        _CAT["items"] = catalogue.items()
    fn = _CAT["fn"].get(sf)
    if fn is None or fn.shape is None:
        return b""
    return e5.encode(_minimal(fn.shape, _CAT["items"], fill))


def run_case(case, observe=None):
    role = case["role"]
    stats = {"malformed": 0, "uncat": 0, "failing_cb": 0, "classes": set()}
    with hsmsrig.make_world({}) as w:
        sim = w.sim
        rig = gemrig.GemRig(w, role=role, t3=10, handler_kwargs={"initial_control_state": "HOST_OFFLINE"} if role == "equipment" else None)
        h = rig.h
        import secsgem.secs

        # user callbacks (behaviour switched per message through `mode`)
        mode = {}

        def mk_cb(sf):
            sec_sf, sec_item = USER[sf][1], USER[sf][2]

            def cb(handler, message):
                beh = mode.get("cb", "return")
                if beh == "raise":
                    raise RuntimeError("user callback fails")
                fn = handler.stream_function(*sec_sf)()
                fn.decode(e5.encode(sec_item))
                if beh == "self_send":
                    if message.header.require_response:
                        handler.send_response(fn, message.header.system)
                    return None
                return fn

            return cb

        for sf in USER:
            h.register_stream_function(sf[0], sf[1], mk_cb(sf))
        if role == "equipment":
            def rcmd_start(**kw):
                if mode.get("rcmd") == "raise":
                    raise RuntimeError("remote command fails")

            h.callbacks.rcmd_START = rcmd_start
        if not rig.establish():
            return Failure("setup-failed", case, rig.comm_state(), "COMMUNICATING")
        rig.data_out()
        catalogued = {(c.stream, c.function) for c in h.settings.streams_functions._functions}
        for i, m in enumerate(case["msgs"]):
            sf = tuple(m["sf"])
            if "ctl" in m:
                if m["ctl"] == "unregister":
                    h.unregister_stream_function(sf[0], sf[1])
                    stats["unregistered"] = stats.get("unregistered", 0) + 1
                else:
                    h.register_stream_function(sf[0], sf[1], mk_cb(sf))
                continue
            cls = m["cls"]
            # the label is a generation hint; the real class comes from the catalogue and the registered callbacks
            has_callback = f"s{sf[0]:02d}f{sf[1]:02d}" in h.callbacks
            if sf in USER and has_callback:
                cls = "user"
            elif has_callback:
                cls = "builtin"
            elif sf in catalogued:
                cls = "nocb"
            else:
                cls = "uncat"
            mode.clear()
            mode["cb"] = m.get("cb", "return")
            mode["rcmd"] = m.get("rcmd", "ok")
            body = _valid_body(sf, role, h, fill=m.get("fill", 0))
            if sf == (2, 41) and m.get("rcmd") == "unknown":
                body = e5.encode((L, [(A, b"NOPE"), (L, [])]))
            kind = m["body"]
            if kind == "empty":
                body2 = b""
            elif kind == "trunc":
                body2 = body[:-1] if len(body) > 1 else b"\x01"
            elif kind == "random":
                body2 = bytes.fromhex(m["raw"])
            elif kind == "other":
                body2 = e5.encode((L, [(A, b"x"), (L, [("U1", [1]), (A, b"y")]), (B, b"\x09")]))
            else:
                body2 = body
            malformed = body2 != body
            stats["classes"].add(cls)
            if malformed:
                stats["malformed"] += 1
            if cls == "uncat":
                stats["uncat"] += 1
            if m.get("cb") == "raise" or m.get("rcmd") == "raise":
                stats["failing_cb"] += 1
            s = m["sys"] if m.get("sys") is not None else rig.next_sys()
            header10 = e37.data_frame(0, sf[0], sf[1], m["w"], s, b"")[4:14]
            rig.feed(e37.data_frame(0, sf[0], sf[1], m["w"], s, body2))
            # collect until quiescent; answer primaries the handler originates
            mine = []
            for _ in range(6):
                sim.settle()
                fr = rig.data_out()
                if not fr:
                    break
                for f in fr:
                    if f["system"] == s:
                        mine.append(f)
                    elif f["w"]:
                        rig.send_sf(f["stream"], f["function"] + 1, 0, (B, b"\x00") if f["stream"] in (5, 6, 10) else (L, []), system=f["system"])

            def fail(bucket, obs, exp):
                return Failure(bucket, case, f"msg#{i} S{sf[0]}F{sf[1]} W={m['w']} body={kind} cls={cls} cb={m.get('cb')} rcmd={m.get('rcmd')}: {obs}", exp)

            got = [(f["stream"], f["function"]) for f in mine]
            has_cb = cls in ("builtin", "user")
            if m["w"]:
                if len(mine) == 0:
                    why = "uncatalogued" if sf not in catalogued else ("malformed-body" if malformed else "wellformed")
                    return fail(f"no-reply:{why}:{'callback' if has_cb else 'no-callback'}", got, "exactly one reply")
                if len(mine) > 1:
                    return fail(f"multiple-replies:{'rcmd-raises' if m.get('rcmd') == 'raise' else cls}", got, "exactly one reply")
                r = mine[0]
                rsf = (r["stream"], r["function"])
                if r["w"]:
                    return fail("reply-has-wbit", rsf, "secondary without W")
                if not has_cb:
                    if rsf != (9, 5):
                        return fail("no-callback-not-s9f5", rsf, "S9F5")
                    try:
                        item = e5.decode_all(r["body"])
                    except e5.E5Error as exc:
                        return fail("s9f5-body-invalid", repr(exc), "B item with header")
                    if item != (B, header10):
                        return fail("s9f5-header-mismatch", item, (B, header10))
                elif cls == "user" and not malformed:
                    if m.get("cb", "return") == "raise":
                        if rsf != (sf[0], 0):
                            return fail("failing-callback-not-abort", rsf, (sf[0], 0))
                    else:
                        if rsf != USER[sf][1]:
                            return fail("callback-secondary-not-sent", rsf, USER[sf][1])
                        if r["body"] != e5.encode(USER[sf][2]):
                            return fail("callback-secondary-body-changed", r["body"].hex(), e5.encode(USER[sf][2]).hex())
                else:
                    if rsf not in ((sf[0], sf[1] + 1), (sf[0], 0)) and rsf[0] != 9:
                        return fail("reply-wrong-function", rsf, f"S{sf[0]}F{sf[1] + 1} or S{sf[0]}F0 or S9Fx")
            else:
                handled_without_error = not malformed and m.get("cb") != "raise" and m.get("rcmd") != "raise"
                if handled_without_error and mine:
                    return fail("reply-without-wbit" if has_cb else "s9f5-without-wbit", got, "no reply")
        if observe is not None:
            observe.update({"malformed": stats["malformed"], "uncat": stats["uncat"], "failing_cb": stats["failing_cb"], "nclasses": len(stats["classes"])})
    return None


def plan(tier, seed):
    quick = tier == "quick"
    return [("gen", {"shard": i, "n": 150 if quick else 1500, "max_msgs": 12 if quick else 30}) for i in range(16)]


def run_task(name, kw, ctx):
    def body(case):
        obs = {}
        f = run_case(case, obs)
        nt = bool(obs.get("malformed") or obs.get("uncat") or obs.get("failing_cb") or any("ctl" in m for m in case["msgs"]) or (len(case["msgs"]) >= 10 and obs.get("nclasses", 0) >= 4))
        cls = [case["role"]]
        for k in ("malformed", "uncat", "failing_cb"):
            if obs.get(k):
                cls.append(k)
        for m in case["msgs"]:
            if "ctl" in m:
                cls.append(f"ctl:{m['ctl']}")
                continue
            cls.append(f"cls:{m['cls']}")
            cls.append(f"body:{m['body']}")
        ctx.case(case, nt or f is not None, cls)
        return f

    ctx.hyp(case_strategy(kw["max_msgs"]), body, kw["n"], seed_offset=kw["shard"])


def replay(case, ctx):
    return run_case(case)
