"""C08 - every primary expecting a reply is answered exactly once, same system bytes.

A COMMUNICATING GemEquipmentHandler / GemHostHandler (real HSMS protocol + TCP classes, simulated sockets, deterministic
scheduler) receives generated sequences of primaries: any stream 1..127 / odd function 1..255 (catalogued with a built-in
handler, catalogued with a user callback registered by the case, catalogued without callback, uncatalogued), W-bit set or
not, bodies well-formed / empty / truncated / random / the valid body of another function; user callbacks return the
secondary, send it themselves, or raise; remote-command callbacks succeed or raise.

Oracle (outbound frames are parsed by ref.e37 / ref.e5, never by secsgem), per injected primary, at the next quiescent
point:
  W set   -> exactly ONE data frame with its system bytes, and it is
             - the secondary (S, F+1) the user callback returned (body identical), or
             - (S, 0) when the user callback raised, or
             - S9F5 whose body is a B item with the 10 offending header bytes when no callback exists, or
             - for built-in handlers and for malformed bodies: any one of (S, F+1), (S, 0), S9Fx (the statement fixes the
               count and the system bytes, not which of its three answers a built-in handler chooses for bad data)
  W clear -> no frame with its system bytes when the message is handled without error
Primaries the handler originates itself (fresh system bytes: S6F11, S5F1, S1F1 ...) are answered by the scripted peer.

History classes beyond "one primary at a time on a fresh link" (case["family"]):
  restart - the SAME handler object lives through 2..3 sessions: handler.disable() + handler.enable() (while selected, or
            after the peer dropped the connection), or the peer drops the connection and comes back while the handler stays
            enabled; the scripted peer re-establishes communication each time (connect, Select, S1F13/S1F14) and the oracle
            is applied to the primaries of the second and third session as well. Restart ops also occur (rarely) inside the
            long mixed histories of the main family.
  burst   - 2..5 primaries arrive without the endpoint coming to rest in between: in one TCP segment ("joined"), or each one
            the instant the peer sees new output of the handler ("on-output": a peer that fires its next primary as soon as
            the previous answer shows up), or a mix; under a PRNG schedule with parked line-level preemptions in the
            receiver -> dispatcher hand-over (ProtocolDispatcher.queue_block / _dispatcher_thread_function). Primaries
            without W-bit in a burst come from the silent classes (no callback, uncatalogued, callback that sends nothing).
            The oracle looks at the first quiescent point after the burst; the peer sends nothing in between except the
            answers to primaries the handler originates itself, so a primary stranded inside the endpoint is not rescued
            by later traffic. User-callback behaviour is keyed by the primary's system bytes (members of a burst are handled
            while later ones are already on the wire); one remote-command behaviour per burst.
A miscount seen in one of these classes gets the bucket suffix :in-burst / :after-restart.
"""

from __future__ import annotations

from hypothesis import strategies as st

from vf import gemrig, hsmsrig
from vf.gemrig import A, B, L
from vf.ref import e5, e37
from vf.run import Failure

PROPERTY = "C08"
LEVEL = "exploration"
TECHNIQUE = "property-based testing of message sequences against a reply-count/identity oracle decoded by independent codecs, under a deterministic scheduler"
RULE = (
    "Sequences of 1..12 (quick) / 1..30 (thorough) inbound primaries; (S,F) drawn with equal weight from the classes "
    "built-in handler / user callback (returns secondary | sends it itself | raises) / catalogued without callback / "
    "uncatalogued (any S 1..127, odd F 1..255); W in {0,1}; body in {valid, empty, truncated, random bytes, valid body of "
    "another function}; S2F41 with registered rcmd callbacks that succeed or raise; host and equipment role. Families (10:2:4): "
    "main (the above, plus callback register/unregister ops and, 1 slot in 24, a link restart); restart (2..3 sessions of the "
    "same handler object, separated by disable+enable | peer close then disable+enable | peer reconnect, communication "
    "re-established by the peer, 1..3 primaries per later session, W-bit in 4 of 5); burst (1..4 bursts of 2..5 primaries, "
    "members joined in one segment | sent the instant handler output is seen | mixed, PRNG schedule seed/switch 0.5|0.9 with "
    "parked preemptions p 0.05..0.2 in queue_block/_dispatcher_thread_function, no other traffic before the oracle looks). "
    "Non-trivial = malformed/empty body, or uncatalogued S/F, or failing callback, or a control op (callback change, restart), or "
    "a burst, or >= 10 messages mixing all classes; distinct by case hash."
)
ASSUMPTIONS = [
    "for built-in handlers and malformed bodies any ONE of the statement's three answers is accepted",
    "a callback that raises on a primary WITHOUT W-bit is outside the statement (not 'handled without error')",
    "default schedule except in the burst family (PRNG schedule + preemptions in the receiver->dispatcher hand-over); concurrent requesters on the reply path are C06's subject",
    "after a link restart the statement applies again once the scripted peer has re-established communication (COMMUNICATING)",
    "in a burst the oracle is evaluated at the first quiescent point after the last member (virtual time does not advance, no T3 expiry)",
]
BUDGET_S = {"quick": 110, "thorough": 1200}

EQ_BUILTIN = [(1, 1), (1, 3), (1, 11), (1, 13), (1, 15), (1, 17), (2, 13), (2, 15), (2, 29), (2, 33), (2, 35), (2, 37), (2, 41), (5, 3), (5, 5), (5, 7), (6, 15)]
HOST_BUILTIN = [(1, 1), (1, 13), (5, 1), (6, 11), (10, 1)]
# catalogued primaries without a built-in handler, with a valid body (independent E5 trees) and the secondary a user callback returns
USER = {
    (2, 17): (None, (2, 18), (A, b"2024010112000000")),
    (7, 1): ((L, [(A, b"pp"), ("U4", [10])]), (7, 2), (B, b"\x00")),
    (7, 3): ((L, [(A, b"pp"), (B, b"\x01\x02\x03")]), (7, 4), (B, b"\x00")),
    (7, 5): ((A, b"pp"), (7, 6), (L, [(A, b"pp"), (B, b"\x01")])),
    (7, 19): (None, (7, 20), (L, [(A, b"a"), (A, b"b")])),
    (10, 3): ((L, [(B, b"\x01"), (A, b"text")]), (10, 4), (B, b"\x00")),
}
# bodies that must be more specific than the default-constructed function (which is what "valid" means otherwise)
VALID_SPECIAL = {
    (1, 3): (L, [("U4", [1002])]),
    (2, 41): (L, [(A, b"START"), (L, [])]),
    (6, 15): ("U4", [1]),
}
NOCB = [(1, 21), (1, 23), (2, 21), (2, 23), (2, 25), (2, 43), (2, 45), (2, 47), (2, 49), (5, 9), (5, 11), (5, 13), (5, 15), (5, 17), (6, 1), (6, 5), (6, 7), (6, 19), (6, 21), (6, 23), (7, 17), (12, 1), (12, 3), (12, 5), (12, 7), (12, 9), (12, 11), (12, 13), (12, 15), (12, 17), (12, 19), (14, 1), (14, 3)]
UNCAT = [(99, 1), (1, 99), (127, 255), (64, 1), (3, 1), (8, 1), (1, 5), (2, 1), (100, 101), (11, 11)]


def _draw_msg(draw, builtin, wdist=(1, 1, 0), quiet_w0=False):
    """One inbound primary (plain data). quiet_w0: a primary WITHOUT W-bit is drawn from the classes that stay silent
    (no callback / uncatalogued / a user callback that sends the secondary itself), so that it is 'handled without error'."""
    w = draw(st.sampled_from(list(wdist)))
    cls = draw(st.sampled_from(["nocb", "uncat", "user"] if (quiet_w0 and not w) else ["builtin", "user", "nocb", "uncat"]))
    if cls == "builtin":
        sf = draw(st.sampled_from(builtin))
    elif cls == "user":
        sf = draw(st.sampled_from(sorted(USER)))
    elif cls == "nocb":
        sf = draw(st.sampled_from(NOCB))
    else:
        sf = draw(st.one_of(st.sampled_from(UNCAT), st.tuples(st.integers(1, 127), st.integers(0, 127).map(lambda x: 2 * x + 1))))
    m = {"cls": cls, "sf": list(sf), "w": w, "body": draw(st.sampled_from(["valid", "valid", "valid", "empty", "trunc", "random", "other"]))}
    if m["body"] == "random":
        m["raw"] = draw(st.binary(min_size=1, max_size=12)).hex()
    if cls == "user":
        m["cb"] = "self_send" if (quiet_w0 and not w) else draw(st.sampled_from(["return", "return", "self_send", "raise"]))
        if quiet_w0 and not w:
            m["body"] = "valid"
    if tuple(sf) == (2, 41):
        m["rcmd"] = draw(st.sampled_from(["ok", "raise", "unknown"]))
    if m["body"] == "valid" and draw(st.integers(0, 2)) == 0:
        m["fill"] = draw(st.sampled_from([1, 2]))  # open lists of the structure carry 1 or 2 members instead of none
    sysb = draw(st.sampled_from([None, None, None, None, None, 0, 1, 0x7FFFFFFF, 0x80000000, 0xFFFFFFFF]))
    if sysb is not None:
        m["sys"] = sysb  # boundary system bytes (0 and 2^32-1 are legal); otherwise the peer's running counter
    return m


RESTART_HOW = ["disable", "disable", "peer-close", "reconnect"]


@st.composite
def case_strategy(draw, max_msgs=12):
    role = draw(st.sampled_from(["equipment", "equipment", "host"]))
    builtin = EQ_BUILTIN if role == "equipment" else HOST_BUILTIN
    family = draw(st.sampled_from(["main"] * 10 + ["restart"] * 2 + ["burst"] * 4))
    if family == "restart":
        # focused family: the SAME handler object lives through 2..3 sessions (disabled and enabled again, or the link drops
        # and the peer comes back); communication is re-established by the scripted peer and primaries arrive in every session
        msgs = []
        for k in range(draw(st.sampled_from([2, 2, 3]))):
            if k:
                msgs.append({"ctl": "restart", "how": draw(st.sampled_from(RESTART_HOW))})
            for _ in range(draw(st.integers(1 if k else 0, 3))):
                msgs.append(_draw_msg(draw, builtin, wdist=(1, 1, 1, 1, 0), quiet_w0=True))
        return {"role": role, "msgs": msgs, "family": "restart"}
    if family == "burst":
        # focused family: 2..5 primaries arrive without the endpoint going idle in between - in one segment / back to back
        # ("joined") or each one the instant the peer sees output of the handler ("on-output", a peer that fires its next
        # primary as soon as the previous answer shows up) - under a PRNG schedule with parked preemptions in the
        # receiver -> dispatcher hand-over. Nothing else is sent before the oracle looks (no rescuing traffic).
        sched = {"seed": draw(st.integers(1, 2**31)), "switch": draw(st.sampled_from([0.5, 0.9])), "pprob": draw(st.sampled_from([0.05, 0.1, 0.2])),
                 "hot": ["_dispatcher_thread_function", "queue_block"]}
        msgs = []
        for _ in range(draw(st.integers(1, 4))):
            arrival = draw(st.sampled_from(["joined", "on-output", "mixed"]))
            group = []
            for _ in range(draw(st.sampled_from([2, 2, 3, 3, 4, 5]))):
                m = _draw_msg(draw, builtin, wdist=(1, 1, 1, 0), quiet_w0=True)
                m["arrive"] = draw(st.sampled_from(["joined", "on-output"])) if arrival == "mixed" else arrival
                group.append(m)
            msgs.append({"burst": group})
        return {"role": role, "msgs": msgs, "sched": sched, "family": "burst"}
    n = draw(st.integers(1, max_msgs))
    msgs = []
    for _ in range(n):
        k = draw(st.integers(0, 23))
        if k == 23:
            # link restart inside a long mixed history
            msgs.append({"ctl": "restart", "how": draw(st.sampled_from(RESTART_HOW))})
            continue
        if k < 3:
            # the application removes / re-installs one of its callbacks between messages
            seen = [tuple(x["sf"]) for x in msgs if "ctl" not in x and tuple(x["sf"]) in USER]
            sf = draw(st.sampled_from(seen)) if seen and draw(st.booleans()) else draw(st.sampled_from(sorted(USER)))
            msgs.append({"ctl": draw(st.sampled_from(["unregister", "unregister", "register"])), "sf": list(sf)})
            # ... and the same function arrives again afterwards
            msgs.append({"cls": "user", "sf": list(sf), "w": 1, "body": "valid", "cb": draw(st.sampled_from(["return", "raise"]))})
            continue
        msgs.append(_draw_msg(draw, builtin))
    return {"role": role, "msgs": msgs}


_CAT = {}


def _minimal(shape, items, fill=0):
    """Smallest well-formed E5 tree for a catalogue shape (independent reader vf/ref/catalogue.py); fill = number of
    members put into every open list (0: the minimal tree)."""
    kind = shape[0]
    if kind == "item":
        it = items[shape[1]]
        f = it.types[0]
        if f == "L":
            return (L, [])
        if f in ("A", "J", "B"):
            return (f, b"\x00" if f == "B" else b"x")
        if f == "BOOLEAN":
            return (f, [False])
        return (f, [0])
    if kind == "array":
        return (L, [_minimal(shape[2], items, fill) for _ in range(fill)])
    return (L, [_minimal(c, items, fill) for c in shape[2]])


def _valid_body(sf, role, handler, fill=0):
    """A well-formed body for a catalogued primary: a specific tree, or the minimal tree of its catalogue structure."""
    from vf.ref import catalogue

    sf = tuple(sf)
    if sf in USER:
        item = USER[sf][0]
        return b"" if item is None else e5.encode(item)
    if sf in VALID_SPECIAL:
        return e5.encode(VALID_SPECIAL[sf])
    if not _CAT:
        _CAT["fn"] = catalogue.functions()
        _CAT["items"] = catalogue.items()
    fn = _CAT["fn"].get(sf)
    if fn is None or fn.shape is None:
        return b""
    return e5.encode(_minimal(fn.shape, _CAT["items"], fill))


def _reestablish(rig, how, k):
    """Link restart on the SAME handler object; the scripted peer re-establishes communication.
    disable: handler.disable() while selected, handler.enable(); peer-close: the peer drops the connection first, then
    disable/enable; reconnect: the peer drops the connection and comes back (the handler stays enabled)."""
    sim = rig.sim
    if how in ("peer-close", "reconnect"):
        rig.peer.close()
        sim.settle()
    if how != "reconnect":
        st, _ = rig.disable()
        if st != "done":
            return False
        rig.drain()
        return rig.establish()
    if not rig.connect_peer() or not rig.select_from_peer(0x2001 + k):
        return False
    for _ in range(8):
        sim.settle()
        frames = rig.data_out()
        for f in frames:
            if (f["stream"], f["function"]) == (1, 13) and f["w"]:
                item = (L, [(B, b"\x00"), (L, [])]) if rig.role == "equipment" else (L, [(B, b"\x00"), (L, [(A, b"peer"), (A, b"1.0")])])
                rig.send_sf(1, 14, 0, item, system=f["system"])
            elif (f["stream"], f["function"]) == (1, 1) and f["w"]:
                rig.send_sf(1, 2, 0, (L, []), system=f["system"])
        if not frames and rig.comm_state() == "COMMUNICATING":
            break
    return rig.comm_state() == "COMMUNICATING"


def run_case(case, observe=None):
    role = case["role"]
    stats = {"malformed": 0, "uncat": 0, "failing_cb": 0, "classes": set(), "sessions": 1, "later_session_w": 0, "burst_msgs": 0, "burst_max": 0, "preempts": 0}
    with hsmsrig.make_world(case.get("sched", {})) as w:
        sim = w.sim
        rig = gemrig.GemRig(w, role=role, t3=10, handler_kwargs={"initial_control_state": "HOST_OFFLINE"} if role == "equipment" else None)
        h = rig.h
        import secsgem.secs

        # user callbacks (behaviour switched per message through `mode`, keyed by the primary's system bytes: the members of
        # a burst are handled while later ones are already on the wire)
        mode = {}

        def mk_cb(sf):
            sec_sf, sec_item = USER[sf][1], USER[sf][2]

            def cb(handler, message):
                beh = mode.get(message.header.system, "return")
                if beh == "raise":
                    raise RuntimeError("user callback fails")
                fn = handler.stream_function(*sec_sf)()
                fn.decode(e5.encode(sec_item))
                if beh == "self_send":
                    if message.header.require_response:
                        handler.send_response(fn, message.header.system)
                    return None
                return fn

            return cb

        for sf in USER:
            h.register_stream_function(sf[0], sf[1], mk_cb(sf))
        if role == "equipment":
            def rcmd_start(**kw):
                if mode.get("rcmd") == "raise":
                    raise RuntimeError("remote command fails")

            h.callbacks.rcmd_START = rcmd_start
        if not rig.establish():
            return Failure("setup-failed", case, rig.comm_state(), "COMMUNICATING")
        rig.data_out()
        catalogued = {(c.stream, c.function) for c in h.settings.streams_functions._functions}

        def prepare(m, rcmd_raise, taken):
            """Classify one primary against the handler's present callback table and build its frame."""
            sf = tuple(m["sf"])
            # the label is a generation hint; the real class comes from the catalogue and the registered callbacks
            has_callback = f"s{sf[0]:02d}f{sf[1]:02d}" in h.callbacks
            if sf in USER and has_callback:
                cls = "user"
            elif has_callback:
                cls = "builtin"
            elif sf in catalogued:
                cls = "nocb"
            else:
                cls = "uncat"
            rcmd = m.get("rcmd")
            if rcmd == "ok" and rcmd_raise:
                rcmd = "raise"  # one remote-command behaviour per burst (the callback gets no message to tell them apart)
            body = _valid_body(sf, role, h, fill=m.get("fill", 0))
            if sf == (2, 41) and rcmd == "unknown":
                body = e5.encode((L, [(A, b"NOPE"), (L, [])]))
            kind = m["body"]
            if kind == "empty":
                body2 = b""
            elif kind == "trunc":
                body2 = body[:-1] if len(body) > 1 else b"\x01"
            elif kind == "random":
                body2 = bytes.fromhex(m["raw"])
            elif kind == "other":
                body2 = e5.encode((L, [(A, b"x"), (L, [("U1", [1]), (A, b"y")]), (B, b"\x09")]))
            else:
                body2 = body
            malformed = body2 != body
            stats["classes"].add(cls)
            if malformed:
                stats["malformed"] += 1
            if cls == "uncat":
                stats["uncat"] += 1
            if m.get("cb") == "raise" or rcmd == "raise":
                stats["failing_cb"] += 1
            s = m["sys"] if m.get("sys") is not None else rig.next_sys()
            while s in taken:  # the members of one burst are told apart by their system bytes
                s = rig.next_sys()
            taken.add(s)
            mode[s] = m.get("cb", "return")
            return {"m": m, "sf": sf, "cls": cls, "rcmd": rcmd, "kind": kind, "malformed": malformed, "sys": s,
                    "header10": e37.data_frame(0, sf[0], sf[1], m["w"], s, b"")[4:14], "frame": e37.data_frame(0, sf[0], sf[1], m["w"], s, body2)}

        def judge(i, r, mine, where):
            m, sf, cls, kind, malformed, rcmd = r["m"], r["sf"], r["cls"], r["kind"], r["malformed"], r["rcmd"]

            def fail(bucket, obs, exp):
                return Failure(bucket, case, f"msg#{i}{where} S{sf[0]}F{sf[1]} W={m['w']} body={kind} cls={cls} cb={m.get('cb')} rcmd={rcmd}: {obs}", exp)

            got = [(f["stream"], f["function"]) for f in mine]
            has_cb = cls in ("builtin", "user")
            if m["w"]:
                if len(mine) == 0:
                    why = "uncatalogued" if sf not in catalogued else ("malformed-body" if malformed else "wellformed")
                    return fail(f"no-reply:{why}:{'callback' if has_cb else 'no-callback'}", got, "exactly one reply")
                if len(mine) > 1:
                    return fail(f"multiple-replies:{'rcmd-raises' if rcmd == 'raise' else cls}", got, "exactly one reply")
                rep = mine[0]
                rsf = (rep["stream"], rep["function"])
                if rep["w"]:
                    return fail("reply-has-wbit", rsf, "secondary without W")
                if not has_cb:
                    if rsf != (9, 5):
                        return fail("no-callback-not-s9f5", rsf, "S9F5")
                    try:
                        item = e5.decode_all(rep["body"])
                    except e5.E5Error as exc:
                        return fail("s9f5-body-invalid", repr(exc), "B item with header")
                    if item != (B, r["header10"]):
                        return fail("s9f5-header-mismatch", item, (B, r["header10"]))
                elif cls == "user" and not malformed:
                    if m.get("cb", "return") == "raise":
                        if rsf != (sf[0], 0):
                            return fail("failing-callback-not-abort", rsf, (sf[0], 0))
                    else:
                        if rsf != USER[sf][1]:
                            return fail("callback-secondary-not-sent", rsf, USER[sf][1])
                        if rep["body"] != e5.encode(USER[sf][2]):
                            return fail("callback-secondary-body-changed", rep["body"].hex(), e5.encode(USER[sf][2]).hex())
                else:
                    if rsf not in ((sf[0], sf[1] + 1), (sf[0], 0)) and rsf[0] != 9:
                        return fail("reply-wrong-function", rsf, f"S{sf[0]}F{sf[1] + 1} or S{sf[0]}F0 or S9Fx")
            else:
                handled_without_error = not malformed and m.get("cb") != "raise" and rcmd != "raise"
                if handled_without_error and mine:
                    return fail("reply-without-wbit" if has_cb else "s9f5-without-wbit", got, "no reply")
            return None

        for i, m in enumerate(case["msgs"]):
            if "ctl" in m:
                if m["ctl"] == "restart":
                    rig.data_out()
                    if not _reestablish(rig, m.get("how", "disable"), stats["sessions"]):
                        return Failure("setup-failed", case, f"session {stats['sessions'] + 1} ({m.get('how')}): {rig.comm_state()}", "COMMUNICATING")
                    rig.data_out()
                    stats["sessions"] += 1
                    continue
                sf = tuple(m["sf"])
                if m["ctl"] == "unregister":
                    h.unregister_stream_function(sf[0], sf[1])
                    stats["unregistered"] = stats.get("unregistered", 0) + 1
                else:
                    h.register_stream_function(sf[0], sf[1], mk_cb(sf))
                continue
            group = m["burst"] if "burst" in m else [m]
            mode.clear()
            rcmd_raise = any(x.get("rcmd") == "raise" for x in group)
            mode["rcmd"] = "raise" if rcmd_raise else "ok"
            taken = set()
            recs = [prepare(x, rcmd_raise and len(group) > 1, taken) for x in group]
            out = []
            if len(group) == 1:
                rig.feed(recs[0]["frame"])
            else:
                # burst: the endpoint never goes idle between two members. "joined" members share one segment with their
                # predecessor; an "on-output" member is sent the instant the peer sees any new output of the handler
                # (or, if none comes, once the handler has come to rest)
                stats["burst_msgs"] += len(group)
                stats["burst_max"] = max(stats["burst_max"], len(group))
                pend = b""
                for k, r in enumerate(recs):
                    if k and r["m"].get("arrive", "joined") == "on-output":
                        out += rig.data_out()
                        rig.feed(pend, settle=False)
                        pend = b""
                        sim.pump(stop=lambda: bool(rig.peer.rx))
                    pend += r["frame"]
                rig.feed(pend, settle=False)
            # collect until quiescent; answer primaries the handler originates (also those seen while the burst was going out)
            fr = list(out)
            for _ in range(12):
                sim.settle()
                new = rig.data_out()
                out += new
                fr += new
                if not fr:
                    break
                for f in fr:
                    if f["system"] not in taken and f["w"]:
                        rig.send_sf(f["stream"], f["function"] + 1, 0, (B, b"\x00") if f["stream"] in (5, 6, 10) else (L, []), system=f["system"])
                fr = []
            for k, r in enumerate(recs):
                if r["m"]["w"] and stats["sessions"] > 1:
                    stats["later_session_w"] += 1
                f = judge(i, r, [x for x in out if x["system"] == r["sys"]], f".{k}/{len(recs)}" if len(recs) > 1 else "")
                if f is not None:
                    if f.bucket.startswith(("no-reply:", "multiple-replies:")):
                        # the count went wrong in a history class of its own: name it (a different cause than a handler that
                        # miscounts for a single message on a fresh link)
                        f.bucket += (":in-burst" if len(recs) > 1 else "") + (":after-restart" if stats["sessions"] > 1 else "")
                    return f
        stats["preempts"] = len(sim.preempt_hits)
        if observe is not None:
            observe.update({"malformed": stats["malformed"], "uncat": stats["uncat"], "failing_cb": stats["failing_cb"], "nclasses": len(stats["classes"]),
                            "sessions": stats["sessions"], "later_session_w": stats["later_session_w"], "burst_msgs": stats["burst_msgs"],
                            "burst_max": stats["burst_max"], "preempts": stats["preempts"]})
    return None


def plan(tier, seed):
    quick = tier == "quick"
    return [("gen", {"shard": i, "n": 120 if quick else 1200, "max_msgs": 12 if quick else 30}) for i in range(16)]


def _flat(case):
    for m in case["msgs"]:
        if "burst" in m:
            yield from m["burst"]
        else:
            yield m


def run_task(name, kw, ctx):
    def body(case):
        obs = {}
        f = run_case(case, obs)
        flat = list(_flat(case))
        nt = bool(obs.get("malformed") or obs.get("uncat") or obs.get("failing_cb") or any("ctl" in m for m in flat) or obs.get("burst_msgs")
                  or (len(flat) >= 10 and obs.get("nclasses", 0) >= 4))
        cls = [case["role"], f"family:{case.get('family', 'main')}"]
        for k in ("malformed", "uncat", "failing_cb"):
            if obs.get(k):
                cls.append(k)
        if obs.get("sessions", 1) > 1:
            cls.append(f"sessions:{min(obs['sessions'], 3)}{'+' if obs['sessions'] > 3 else ''}")
        if obs.get("later_session_w"):
            cls.append("w-primary-judged-in-later-session")
            ctx.count("w-primaries-judged-in-later-sessions", obs["later_session_w"])
        if obs.get("burst_msgs"):
            cls.append(f"burst-max:{obs['burst_max']}")
            cls.append("burst-with-preemptions" if obs.get("preempts") else "burst-without-preemptions")
            ctx.count("primaries-judged-in-bursts", obs["burst_msgs"])
        for m in case["msgs"]:
            if "burst" in m:
                arr = {x.get("arrive", "joined") for x in m["burst"][1:]}
                cls.append("burst:" + ("mixed" if len(arr) > 1 else (sorted(arr)[0] if arr else "single")))
                if any(not x["w"] for x in m["burst"][:-1]) and any(x["w"] for x in m["burst"][1:]):
                    cls.append("burst:silent-primary-before-w-primary")
        for m in flat:
            if "ctl" in m:
                cls.append(f"ctl:{m['ctl']}" + (f":{m.get('how', 'disable')}" if m["ctl"] == "restart" else ""))
                continue
            cls.append(f"cls:{m['cls']}")
            cls.append(f"body:{m['body']}")
        ctx.case(case, nt or f is not None, cls)
        return f

    ctx.hyp(case_strategy(kw["max_msgs"]), body, kw["n"], seed_offset=kw["shard"])


def replay(case, ctx):
    return run_case(case)
