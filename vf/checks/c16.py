"""C16 - SECS-I blocks split, checksum and reassemble any message body without loss.

Four oracles, all against the independent E4 block model vf/ref/secs1.py:

1. split      SecsIMessage(header, body).blocks: every block holds at most 244 data bytes, there are
              max(1, ceil(len/244)) of them, numbered 1..n, E-bit on exactly the last, device id / R / W / stream /
              function / system bytes preserved, data pieces are the reference pieces (so they concatenate to the body).
2. codec      SecsIBlock.encode() is byte-identical to the reference block; SecsIBlock.decode(encode(b)) (the decode API
              the receive path uses; it is handed a bytearray there) returns an object with equal fields and data.
3. reassembly blocks of 2-4 messages with distinct system bytes are encoded, decoded and fed - each message in order,
              interleaved by a generated merge - to SecsIProtocol._add_message_block (what the dispatcher thread calls
              through Protocol._dispatch_block for every block SecsIProtocol._process_received_data accepted), on a
              protocol object that never opens a connection and never starts a thread. Exactly at the last block of a
              message a complete message with the original fields and body comes back, None otherwise. For bodies that are
              a valid S7F3 (L[PPID A, PPBODY B]) the blocks go through _dispatch_block instead and exactly one
              `message_received` event per transaction is required (handler called synchronously; no thread involved).
              With "repeat" the same traffic is fed a second time to the same protocol object (system bytes are reused
              by later transactions once a transaction is complete).
              "many": 17..40 two- or three-block messages with distinct system bytes that are all open at the same time
              (all first blocks, then all second blocks ... in a generated message order, or a generated merge).
3b. reuse     2-6 COMPLETE messages fed one after the other (no interleaving) whose system bytes come from a pool of one
              or two values, so that consecutive messages of DIFFERENT transactions carry the same system bytes: both
              ends number their transactions independently, so the peer's primary numbered N can be directly followed by
              the peer's reply to our own primary numbered N (same stream, function +1, W-bit dropped), or the peer uses
              the same system bytes for its next transaction (other stream/function), or the two headers differ in
              exactly one of device id / R / W / stream / function. Mostly single-block messages (so that the two blocks
              also agree in block number 1 and E-bit), some multi-block ones. Every message must come back exactly at
              its last block with its own header and body (same oracle as 3).
4. corruption for sampled encoded blocks EVERY single-byte corruption (every position x the 255 other values) is given to
              SecsIBlock.decode the way SecsIProtocol._process_received_data would: it reads the length byte L and then
              takes L+3 bytes off the line. The result must not be a block object (None and an exception both count as
              "not accepted"; exception types are counted in the class distribution).

Corrections (where the oracle was narrowed to the statement):
* Length byte raised by the corruption: the receiver waits for bytes that never come; the block never "arrives" and
  nothing is accepted. Excluded by construction and counted (C17 looks at the line protocol).
* Length byte lowered: the receiver frames a shorter block whose "checksum" field is two of the original data bytes.
  Whether that frame is valid is decided by the reference model: if its checksum field happens to match (only possible for
  the length byte; a single changed header/data/checksum byte always changes sum or field by 1..255 and the sum of at most
  254 bytes cannot wrap 16 bits) the frame IS a valid E4 block and any conforming receiver accepts it - counted as
  excluded, not a violation. Otherwise acceptance is a violation.
* The reassembled message is compared on device id, R, W, stream, function, system bytes and body only; the block number
  / E-bit of the message's header view are not part of "the original header" (Message.from_block renumbers the stored
  first block to 1, harmless).
* Bodies above 32767 blocks, blocks arriving out of order or twice, and concurrent messages sharing system bytes are
  outside the statement and never generated. In the "reuse" cases messages that share system bytes are never open at
  the same time (each is fed completely before the next one starts), and two consecutive messages with equal system
  bytes always differ in at least one other header field BY CONSTRUCTION: a block whose whole 10-byte header equals that
  of the previously accepted block is a retransmission duplicate that an E4 receiver may discard, so that input is
  never generated; blocks of distinct transactions (different header) must all be delivered.
"""

from __future__ import annotations

import hashlib
import random

from hypothesis import strategies as st

from vf.ref import e5, secs1
from vf.run import Failure

PROPERTY = "C16"
LEVEL = "exploration"
TECHNIQUE = (
    "exhaustive enumeration (body lengths 0..2000 and every 244-multiple +-1 up to 40 blocks, R x W x stream x function, "
    "every single-byte corruption of sampled blocks) + property-based testing (Hypothesis) of generated headers and "
    "block interleavings, against an independent SEMI E4 block model"
)
RULE = (
    "Cases: (a) split/encode/decode of (header fields, body length, fill) for all lengths 0..2000, k*244+{-1,0,1} for "
    "k<=40, sampled lengths up to 32767 blocks, all R x W x stream x function with sampled device/system; (b) single "
    "blocks with arbitrary block number / E-bit; (c) 2-4 messages with distinct system bytes, blocks interleaved by a "
    "generated merge, fed to SecsIProtocol._add_message_block or _dispatch_block; also 17-40 multi-block messages all "
    "open at once (round-robin in a generated order or a generated merge); (c2) 2-6 complete messages fed one "
    "after the other with system bytes from a pool of 1-2 values, consecutive messages with equal system bytes being "
    "distinct transactions (primary then reply, next transaction, or one differing header field; mostly single-block); "
    "(d) every (position, value) "
    "single-byte corruption of sampled reference-encoded blocks, framed as the receive path frames it. Oracle: "
    "vf/ref/secs1.py (block layout, split rule, checksum, reassembly). Non-trivial = body length >= 243 (at or above "
    "the first 244 boundary -1), or a merge that switches message >= 3 times, or a corruption. Distinct by hash of the "
    "plain case; corruptions are distinct per (position class, signed delta)."
)
ASSUMPTIONS = [
    "reference block model vf/ref/secs1.py written from SEMI E4 (with hand-computed vectors) is correct",
    "the receiver frames a block as: length byte L, then L+2 further bytes (secsgem/secsi/protocol.py wait_for(length + 3)); "
    "a corrupted length byte that demands more bytes than were sent means the block never arrives (excluded)",
    "calling _add_message_block/_dispatch_block directly is equivalent to the dispatcher thread calling them one block "
    "at a time (the dispatcher is a single thread draining a FIFO queue)",
]
BUDGET_S = {"quick": 110, "thorough": 900}
EXHAUSTIVE_NOTE = (
    "both tiers: body lengths 0..2000 and k*244+{-1,0,1} for k<=40; all 131072 R x W x stream x function combinations; "
    "all positions x 255 values of every sampled block (quick 16 blocks, thorough 256 blocks); thorough: 3 bodies at "
    "the 32767-block limit"
)

NEVER_ARRIVES = "length byte raised: receiver waits for bytes that never come, block never arrives (see C17)"
COLLISION = "length byte lowered and the shorter frame carries a matching checksum: a valid E4 block, inherent to the format"


# --------------------------------------------------------------------------------------------
# plain data -> bytes / secsgem objects


def make_body(length, fill):
    """Deterministic body bytes. fill: "z" zeros, "f" 0xFF, int -> 251-byte pseudo-random pattern (251 is prime, so
    every 244-byte block starts at a different phase of the pattern and a mis-sliced block is visible)."""
    if fill == "z":
        return bytes(length)
    if fill == "f":
        return b"\xff" * length
    pat = b"".join(hashlib.blake2b(bytes([i]) + int(fill).to_bytes(8, "big"), digest_size=64).digest() for i in range(4))[:251]
    return (pat * (length // 251 + 1))[:length]


def body_of(spec):
    """Body of a message spec: raw {"len","fill"} or S7F3 {"ppid","pplen","fill"}."""
    if "ppid" in spec:
        return e5.encode(("L", [("A", spec["ppid"].encode("ascii")), ("B", make_body(spec["pplen"], spec["fill"]))]))
    return make_body(spec["len"], spec["fill"])


def sg_header(h, blk=0, e=True):
    from secsgem.secsi.header import SecsIHeader

    return SecsIHeader(
        h["sys"],
        h["dev"],
        h["s"],
        h["f"],
        block=blk,
        from_equipment=bool(h["r"]),
        require_response=bool(h["w"]),
        last_block=bool(e),
    )


_GETTERS = (
    ("dev", "device_id", False),
    ("r", "from_equipment", True),
    ("w", "require_response", True),
    ("s", "stream", False),
    ("f", "function", False),
    ("sys", "system", False),
    ("blk", "block", False),
    ("e", "last_block", True),
)


def field_diff(hdr, ref_fields, names):
    """First field of a secsgem header that differs from the reference fields, or None."""
    for key, attr, is_bit in _GETTERS:
        if key not in names:
            continue
        got = getattr(hdr, attr)
        want = ref_fields[key]
        if is_bit:
            if bool(got) != bool(want):
                return key, got, want
        elif got != want or isinstance(got, bool):
            return key, got, want
    return None


def _exc(e):
    return f"{type(e).__name__}: {e}"


def new_protocol():
    """A SECS-I protocol object that has no connection and no running thread."""
    from secsgem.secsi.protocol import SecsIProtocol
    from secsgem.secsi.settings import SecsISettings

    return SecsIProtocol(SecsISettings(port="VF-NO-PORT"))


# --------------------------------------------------------------------------------------------
# oracle 2: codec of one block (shared by split and single-block cases)


def check_codec(case, block, fields, data, as_bytearray):
    from secsgem.secsi.message import SecsIBlock

    want = secs1.block(fields, data)
    try:
        got = block.encode()
    except Exception as exc:
        return Failure(f"encode:raises:{type(exc).__name__}", case, _exc(exc), want[:40].hex())
    if got != want:
        if len(got) != len(want):
            part = "size"
        else:
            pos = next(i for i in range(len(want)) if got[i] != want[i])
            part = secs1.position_class(pos, len(want))
        return Failure(f"encode:{part}", case, bytes(got[:40]).hex(), want[:40].hex(), detail={"block": fields["blk"]})
    wire = bytearray(want) if as_bytearray else want
    return check_decode_valid(case, wire, fields, data)


def check_decode_valid(case, wire, fields, data):
    """A valid block must come back from SecsIBlock.decode with equal fields."""
    from secsgem.secsi.message import SecsIBlock

    try:
        dec = SecsIBlock.decode(wire)
    except Exception as exc:
        return Failure(f"decode:raises:{type(exc).__name__}", case, _exc(exc), "block object", detail={"block": fields["blk"]})
    if dec is None:
        return Failure("decode:valid-block-rejected", case, "None", "block object", detail={"block": fields["blk"]})
    d = field_diff(dec.header, fields, secs1.BLOCK_FIELDS)
    if d:
        return Failure(f"decode:field:{d[0]}", case, repr(d[1]), repr(d[2]), detail={"block": fields["blk"]})
    if bytes(dec.data) != data:
        return Failure("decode:data", case, bytes(dec.data[:40]).hex(), data[:40].hex(), detail={"block": fields["blk"]})
    return None


# --------------------------------------------------------------------------------------------
# oracle 1 (+2): split


def check_split(case):
    """case = {"k":"split","hdr":{dev,r,w,s,f,sys},"len":N,"fill":..,"blk0":int,"e0":0|1}"""
    from secsgem.secsi.message import SecsIMessage

    hdr = case["hdr"]
    body = make_body(case["len"], case["fill"])
    ref_blocks = secs1.message_blocks(hdr, body)
    try:
        msg = SecsIMessage(sg_header(hdr, case.get("blk0", 0), case.get("e0", 1)), body)
        blocks = list(msg.blocks)
    except Exception as exc:
        return Failure(f"split:raises:{type(exc).__name__}", case, _exc(exc), f"{len(ref_blocks)} blocks")
    for b in blocks:
        if len(b.data) > secs1.MAX_DATA:
            return Failure("split:block-size", case, len(b.data), "<= 244")
    if len(blocks) != len(ref_blocks):
        return Failure("split:block-count", case, len(blocks), len(ref_blocks))
    for i, (b, (fields, data)) in enumerate(zip(blocks, ref_blocks)):
        if b.header.block != fields["blk"] or isinstance(b.header.block, bool):
            return Failure("split:block-number", case, f"block[{i}].block={b.header.block!r}", fields["blk"])
        if bool(b.header.last_block) != bool(fields["e"]):
            return Failure("split:end-bit", case, f"block[{i}] of {len(blocks)} last_block={b.header.last_block!r}", bool(fields["e"]))
        d = field_diff(b.header, fields, secs1.MSG_FIELDS)
        if d:
            return Failure(f"split:field:{d[0]}", case, f"block[{i}] {d[1]!r}", repr(d[2]))
        if bytes(b.data) != data:
            return Failure("split:data", case, f"block[{i}] {bytes(b.data[:24]).hex()} ({len(b.data)} bytes)", f"{data[:24].hex()} ({len(data)} bytes)")
    # the message's own view
    try:
        mdata, mcomplete, mhdr = msg.data, msg.complete, msg.header
    except Exception as exc:
        return Failure(f"split:message-view:raises:{type(exc).__name__}", case, _exc(exc), "header/data/complete")
    if bytes(mdata) != body or not mcomplete or field_diff(mhdr, hdr, secs1.MSG_FIELDS):
        return Failure("split:message-view", case, f"data equal={bytes(mdata) == body} complete={mcomplete!r} header={mhdr}", "original body, complete, original fields")
    # codec of every block
    for i, (b, (fields, data)) in enumerate(zip(blocks, ref_blocks)):
        f = check_codec(case, b, fields, data, as_bytearray=(i + case["len"]) % 2 == 0)
        if f:
            return f
    return None


def check_block(case):
    """case = {"k":"block","hdr":{dev,r,w,s,f,sys,blk,e},"dlen":n,"fill":..,"ba":0|1}: one block built directly."""
    from secsgem.secsi.message import SecsIBlock

    fields = case["hdr"]
    data = make_body(case["dlen"], case["fill"])
    try:
        blk = SecsIBlock(sg_header(fields, fields["blk"], fields["e"]), data)
    except Exception as exc:
        return Failure(f"block:raises:{type(exc).__name__}", case, _exc(exc), "block object")
    return check_codec(case, blk, fields, data, as_bytearray=bool(case.get("ba", 1)))


# --------------------------------------------------------------------------------------------
# oracle 3: reassembly


def merge_of(case, counts):
    m = case["merge"]
    if isinstance(m, dict):  # derived merge for very long messages: {"seed": n}
        rnd = random.Random(m["seed"])
        left = list(counts)
        out = []
        total = sum(left)
        while total:
            # pick a message proportionally to its remaining blocks, in short runs
            i = rnd.choices(range(len(left)), weights=left)[0]
            run = min(left[i], rnd.randint(1, 3))
            out.extend([i] * run)
            left[i] -= run
            total -= run
        return out
    if sorted(m) != sorted(i for i, c in enumerate(counts) for _ in range(c)):
        raise ValueError(f"merge does not match block counts {counts}")
    return m


def alternations(merge):
    return sum(1 for a, b in zip(merge, merge[1:]) if a != b)


def check_reasm(case):
    """case = {"k":"reasm","msgs":[{"hdr":..,"len"/"ppid"..}],"merge":[..]|{"seed"},"via":"add"|"dispatch","wire":"sg"|"ref","repeat":0|1}"""
    from secsgem.secsi.message import SecsIBlock, SecsIMessage

    msgs = case["msgs"]
    if len({m["hdr"]["sys"] for m in msgs}) != len(msgs):
        raise ValueError("system bytes must be distinct")
    bodies = [body_of(m) for m in msgs]
    decoded = []
    for m, body in zip(msgs, bodies):
        ref_blocks = secs1.message_blocks(m["hdr"], body)
        if case.get("wire", "sg") == "ref":
            frames = [secs1.block(f, d) for f, d in ref_blocks]
        else:
            try:
                frames = [b.encode() for b in SecsIMessage(sg_header(m["hdr"]), body).blocks]
            except Exception as exc:
                return Failure(f"encode:raises:{type(exc).__name__}", case, _exc(exc), "encoded blocks")
            if len(frames) != len(ref_blocks):
                return Failure("split:block-count", case, len(frames), len(ref_blocks))
        blocks = []
        for fr, (fields, data) in zip(frames, ref_blocks):
            need = secs1.frame_at_receiver(bytes(fr))
            if need is None or len(need) != len(fr):
                return Failure("encode:size", case, bytes(fr[:40]).hex(), "length byte + L + 2 bytes")
            try:
                blk = SecsIBlock.decode(bytearray(fr))
            except Exception as exc:
                return Failure(f"decode:raises:{type(exc).__name__}", case, _exc(exc), "block object")
            if blk is None:
                return Failure("decode:valid-block-rejected", case, "None", "block object")
            blocks.append(blk)
        decoded.append(blocks)
    counts = [len(b) for b in decoded]
    merge = merge_of(case, counts)
    proto = new_protocol()
    events = []
    proto.events.message_received += events.append
    via = case.get("via", "add")
    for round_no in range(2 if case.get("repeat") else 1):
        ptr = [0] * len(msgs)
        completed = [0] * len(msgs)
        for step, i in enumerate(merge):
            blk = decoded[i][ptr[i]]
            ptr[i] += 1
            is_last = ptr[i] == counts[i]
            where = f"round {round_no} step {step} message {i} block {ptr[i]}/{counts[i]}"
            n_before = len(events)
            try:
                if via == "dispatch":
                    proto._dispatch_block(proto, blk)
                    new = [ev["message"] for ev in events[n_before:]]
                else:
                    res = proto._add_message_block(blk)
                    new = [] if res is None else [res]
            except Exception as exc:
                return Failure(f"reasm:raises:{type(exc).__name__}", case, f"{where}: {_exc(exc)}", "block accepted")
            if not is_last:
                if new:
                    return Failure("reasm:early-complete", case, f"{where}: {len(new)} message(s) delivered", "nothing before the last block")
                continue
            if len(new) != 1:
                b = "reasm:not-complete-at-last-block" if not new else "reasm:delivered-more-than-once"
                if via == "dispatch":
                    b = "dispatch:event-count"
                return Failure(b, case, f"{where}: {len(new)} message(s) delivered", "exactly one")
            completed[i] += 1
            got = new[0]
            try:
                d = field_diff(got.header, msgs[i]["hdr"], secs1.MSG_FIELDS)
                gdata = bytes(got.data)
            except Exception as exc:
                return Failure(f"reasm:message-view:raises:{type(exc).__name__}", case, f"{where}: {_exc(exc)}", "header/data")
            if d:
                return Failure(f"reasm:field:{d[0]}", case, f"{where}: {d[1]!r}", repr(d[2]))
            if gdata != bodies[i]:
                diff = next((k for k in range(min(len(gdata), len(bodies[i]))) if gdata[k] != bodies[i][k]), min(len(gdata), len(bodies[i])))
                return Failure("reasm:body", case, f"{where}: {len(gdata)} bytes, first difference at {diff}", f"{len(bodies[i])} bytes of the original body")
        if completed != [1] * len(msgs):
            return Failure("reasm:not-complete-at-last-block", case, completed, "one complete message per transaction")
    return None


# --------------------------------------------------------------------------------------------
# oracle 3b: consecutive complete messages of distinct transactions that share system bytes

HDR_REST = ("dev", "r", "w", "s", "f")
DISPATCH_SF = [(1, 1), (1, 15), (2, 17), (5, 7), (7, 19), (14, 0), (0, 0), (12, 0)]  # catalogued header-only functions


def reuse_pairs(msgs):
    """Consecutive messages with equal system bytes: [(index of the second, sorted differing header fields)]."""
    out = []
    for i in range(1, len(msgs)):
        a, b = msgs[i - 1]["hdr"], msgs[i]["hdr"]
        if a["sys"] == b["sys"]:
            out.append((i, [k for k in HDR_REST if a[k] != b[k]]))
    return out


def check_reuse(case):
    """case = {"k":"reuse","msgs":[{"hdr":..,"len":n,"fill":..}],"via":"add"|"dispatch","wire":"sg"|"ref"}: every message
    is fed completely (all its blocks in order) before the next one starts."""
    from secsgem.secsi.message import SecsIBlock, SecsIMessage

    msgs = case["msgs"]
    for i, diff in reuse_pairs(msgs):
        if not diff:
            raise ValueError(f"messages {i - 1} and {i}: identical headers (a retransmission duplicate, not a distinct transaction)")
    proto = new_protocol()
    events = []
    proto.events.message_received += events.append
    via = case.get("via", "add")
    for i, m in enumerate(msgs):
        body = body_of(m)
        ref_blocks = secs1.message_blocks(m["hdr"], body)
        if case.get("wire", "sg") == "ref":
            frames = [secs1.block(f, d) for f, d in ref_blocks]
        else:
            try:
                frames = [b.encode() for b in SecsIMessage(sg_header(m["hdr"]), body).blocks]
            except Exception as exc:
                return Failure(f"encode:raises:{type(exc).__name__}", case, _exc(exc), "encoded blocks")
            if len(frames) != len(ref_blocks):
                return Failure("split:block-count", case, len(frames), len(ref_blocks))
        for j, fr in enumerate(frames):
            where = f"message {i} block {j + 1}/{len(frames)}"
            try:
                blk = SecsIBlock.decode(bytearray(fr))
            except Exception as exc:
                return Failure(f"decode:raises:{type(exc).__name__}", case, f"{where}: {_exc(exc)}", "block object")
            if blk is None:
                return Failure("decode:valid-block-rejected", case, f"{where}: None", "block object")
            n_before = len(events)
            try:
                if via == "dispatch":
                    proto._dispatch_block(proto, blk)
                    new = [ev["message"] for ev in events[n_before:]]
                else:
                    res = proto._add_message_block(blk)
                    new = [] if res is None else [res]
            except Exception as exc:
                return Failure(f"reasm:raises:{type(exc).__name__}", case, f"{where}: {_exc(exc)}", "block accepted")
            if j < len(frames) - 1:
                if new:
                    return Failure("reasm:early-complete", case, f"{where}: {len(new)} message(s) delivered", "nothing before the last block")
                continue
            if len(new) != 1:
                same = i > 0 and msgs[i - 1]["hdr"]["sys"] == m["hdr"]["sys"]
                if not new:
                    b = "reuse:message-after-one-with-equal-system-bytes-not-delivered" if same else "reasm:not-complete-at-last-block"
                else:
                    b = "reasm:delivered-more-than-once"
                return Failure(b, case, f"{where}: {len(new)} message(s) delivered", "exactly one")
            got = new[0]
            try:
                d = field_diff(got.header, m["hdr"], secs1.MSG_FIELDS)
                gdata = bytes(got.data)
            except Exception as exc:
                return Failure(f"reasm:message-view:raises:{type(exc).__name__}", case, f"{where}: {_exc(exc)}", "header/data")
            if d:
                return Failure(f"reasm:field:{d[0]}", case, f"{where}: {d[1]!r}", repr(d[2]))
            if gdata != body:
                diff = next((k for k in range(min(len(gdata), len(body))) if gdata[k] != body[k]), min(len(gdata), len(body)))
                return Failure("reasm:body", case, f"{where}: {len(gdata)} bytes, first difference at {diff}", f"{len(body)} bytes of the original body")
    return None


# --------------------------------------------------------------------------------------------
# oracle 4: corruption


def corrupt_outcome(frame, pos, val):
    """Feed one corrupted block to the decode API as the receive path would. Returns (status, detail):
    "never-arrives" | "rejected:None" | "rejected:exc:<Type>" | "collision" | "ACCEPTED"."""
    from secsgem.secsi.message import SecsIBlock

    line = bytearray(frame)
    line[pos] = val
    fed = secs1.frame_at_receiver(bytes(line))
    if fed is None:
        return "never-arrives", None
    try:
        res = SecsIBlock.decode(bytearray(fed))
    except Exception as exc:
        return f"rejected:exc:{type(exc).__name__}", None
    if res is None:
        return "rejected:None", None
    if secs1.parse(fed) is not None:
        return "collision", None
    return "ACCEPTED", repr(res.header)


def check_corrupt(case):
    """case = {"k":"corrupt","hdr":{..,blk,e},"dlen":n,"fill":..,"pos":p,"val":v}"""
    data = make_body(case["dlen"], case["fill"])
    frame = secs1.block(case["hdr"], data)
    pos, val = case["pos"], case["val"]
    if not 0 <= pos < len(frame) or val == frame[pos] or not 0 <= val <= 255:
        raise ValueError("not a corruption")
    f = check_decode_valid(case, bytearray(frame), case["hdr"], data)
    if f:
        return f
    status, detail = corrupt_outcome(frame, pos, val)
    if status == "ACCEPTED":
        pc = secs1.position_class(pos, len(frame)).split(":")[0]
        return Failure(f"corrupt-accepted:{pc}", case, f"byte {pos} {frame[pos]:#04x}->{val:#04x} accepted as {detail}", "None or an exception")
    return None


def corrupt_block_all(spec, ctx):
    """Every single-byte corruption of one reference-encoded block."""
    data = make_body(spec["dlen"], spec["fill"])
    frame = secs1.block(spec["hdr"], data)
    base = {"k": "corrupt", "hdr": spec["hdr"], "dlen": spec["dlen"], "fill": spec["fill"]}
    f = check_decode_valid(dict(base, pos=0, val=(frame[0] + 1) & 0xFF), bytearray(frame), spec["hdr"], data)
    if f:
        ctx.report(f)
        return
    ctx.count(f"corrupt:block-dlen:{len_class(spec['dlen'])}")
    n = len(frame)
    for pos in range(n):
        if ctx.out_of_time():
            return
        pc = secs1.position_class(pos, n)
        orig = frame[pos]
        for val in range(256):
            if val == orig:
                continue
            status, detail = corrupt_outcome(frame, pos, val)
            if status == "never-arrives":
                ctx.exclude(NEVER_ARRIVES)
                continue
            if status == "collision":
                ctx.exclude(COLLISION)
                continue
            ctx.evals += 1
            ctx.classes[f"corrupt:{pc}"] += 1
            ctx.classes[f"corrupt:{status}"] += 1
            ctx.nontrivial.add(f"corrupt:{pc}:{val - orig}".encode())
            if status == "ACCEPTED":
                case = dict(base, pos=pos, val=val)
                ctx.report(Failure(f"corrupt-accepted:{pc.split(':')[0]}", case, f"byte {pos} {orig:#04x}->{val:#04x} accepted as {detail}", "None or an exception"))
    if len(ctx.samples) < 2:
        ctx.samples.append(dict(base, pos="0..%d" % (n - 1), val="all 255 other values"))


# --------------------------------------------------------------------------------------------
# classes


def len_class(n):
    if n <= 1:
        return str(n)
    if n < 243:
        return "2-242"
    if n <= 245:
        return str(n)
    r = n % 244
    if r == 243:
        return "k*244-1"
    if r == 0:
        return "k*244"
    if r == 1:
        return "k*244+1"
    return "other>245"


def nblocks_class(n):
    if n <= 3:
        return str(n)
    if n <= 10:
        return "4-10"
    if n <= 40:
        return "11-40"
    if n < secs1.MAX_BLOCKS:
        return "41-32766"
    return "32767"


def hdr_classes(h):
    out = [f"R={h['r']}", f"W={h['w']}"]
    for key, top in (("s", 127), ("f", 255), ("dev", 0x7FFF), ("sys", 0xFFFFFFFF)):
        if h[key] == 0:
            out.append(f"{key}=0")
        elif h[key] == top:
            out.append(f"{key}=max")
        elif key in ("dev", "sys") and h[key] > 0xFF:
            out.append(f"{key}>255")
    return out


def split_classes(case):
    n = case["len"]
    return [f"len:{len_class(n)}", f"blocks:{nblocks_class(secs1.n_blocks(n))}", f"fill:{case['fill'] if isinstance(case['fill'], str) else 'pattern'}"] + hdr_classes(case["hdr"])


def record_split(ctx, case):
    ctx.case(case, case["len"] >= 243, ["kind:split"] + split_classes(case))


# --------------------------------------------------------------------------------------------
# strategies (plain data)

_SYS_EDGE = [0, 1, 0xFF, 0x100, 0xFFFF, 0x10000, 0xFFFFFF, 0x1000000, 0x7FFFFFFF, 0x80000000, 0xFFFFFFFE, 0xFFFFFFFF]
_DEV_EDGE = [0, 1, 0x7F, 0x80, 0xFF, 0x100, 0x7F00, 0x7FFE, 0x7FFF]


def hdr_strategy():
    return st.fixed_dictionaries(
        {
            "dev": st.one_of(st.sampled_from(_DEV_EDGE), st.integers(0, 0x7FFF)),
            "r": st.integers(0, 1),
            "w": st.integers(0, 1),
            "s": st.one_of(st.sampled_from([0, 1, 64, 126, 127]), st.integers(0, 127)),
            "f": st.one_of(st.sampled_from([0, 1, 127, 128, 254, 255]), st.integers(0, 255)),
            "sys": st.one_of(st.sampled_from(_SYS_EDGE), st.integers(0, 0xFFFFFFFF)),
        }
    )


def fill_strategy():
    return st.one_of(st.integers(0, 1 << 32), st.integers(0, 1 << 32), st.sampled_from(["z", "f"]))


def boundary_len(max_k):
    return st.builds(lambda k, d: max(0, k * 244 + d), st.integers(0, max_k), st.sampled_from([-1, 0, 1]))


def split_strategy(max_k=40):
    return st.fixed_dictionaries(
        {
            "k": st.just("split"),
            "hdr": hdr_strategy(),
            "len": st.one_of(st.integers(0, 2000), boundary_len(max_k), st.integers(0, max_k * 244 + 1)),
            "fill": fill_strategy(),
            "blk0": st.sampled_from([0, 0, 1, 77, 0x7FFF]),
            "e0": st.integers(0, 1),
        }
    )


def block_strategy():
    @st.composite
    def _s(draw):
        h = draw(hdr_strategy())
        h["blk"] = draw(st.one_of(st.sampled_from([0, 1, 2, 0xFF, 0x100, 0x7F00, 0x7FFE, 0x7FFF]), st.integers(0, 0x7FFF)))
        h["e"] = draw(st.integers(0, 1))
        return {
            "k": "block",
            "hdr": h,
            "dlen": draw(st.one_of(st.sampled_from([0, 1, 243, 244]), st.integers(0, 244))),
            "fill": draw(fill_strategy()),
            "ba": draw(st.integers(0, 1)),
        }

    return _s()


def reasm_strategy():
    @st.composite
    def _s(draw):
        n = draw(st.integers(2, 4))
        via = draw(st.sampled_from(["add", "add", "dispatch"]))
        same_sf = draw(st.booleans())
        near = draw(st.booleans())
        if near:  # system bytes that differ in one bit / one byte only
            base = draw(st.one_of(st.sampled_from(_SYS_EDGE), st.integers(0, 0xFFFFFFFF)))
            bits = draw(st.lists(st.integers(0, 31), min_size=n - 1, max_size=n - 1, unique=True))
            systems = [base] + [base ^ (1 << b) for b in bits]
        else:
            systems = draw(st.lists(st.one_of(st.sampled_from(_SYS_EDGE), st.integers(0, 0xFFFFFFFF)), min_size=n, max_size=n, unique=True))
        msgs = []
        for i in range(n):
            h = draw(hdr_strategy())
            h["sys"] = systems[i]
            if via == "dispatch":
                h["s"], h["f"] = 7, 3
                spec = {
                    "hdr": h,
                    "ppid": draw(st.text(alphabet="ABCXYZ019-_.", min_size=0, max_size=12)),
                    "pplen": draw(st.one_of(st.integers(0, 700), boundary_len(8))),
                    "fill": draw(fill_strategy()),
                }
            else:
                if same_sf and i > 0:
                    h["s"], h["f"] = msgs[0]["hdr"]["s"], msgs[0]["hdr"]["f"]
                spec = {"hdr": h, "len": draw(st.one_of(st.integers(0, 700), boundary_len(10), st.integers(245, 2000))), "fill": draw(fill_strategy())}
            msgs.append(spec)
        counts = [secs1.n_blocks(len(body_of(m))) for m in msgs]
        seq = [i for i, c in enumerate(counts) for _ in range(c)]
        rr = []
        left = list(counts)
        while any(left):
            for i in range(n):
                if left[i]:
                    rr.append(i)
                    left[i] -= 1
        merge = draw(st.one_of(st.permutations(seq), st.permutations(seq), st.just(rr), st.just(seq), st.just(seq[::-1])))
        return {
            "k": "reasm",
            "msgs": msgs,
            "merge": list(merge),
            "via": via,
            "wire": draw(st.sampled_from(["sg", "sg", "ref"])),
            "repeat": draw(st.integers(0, 1)),
        }

    return _s()


def many_strategy():
    """17..40 multi-block messages with distinct system bytes open AT THE SAME TIME: all first blocks before any second
    block (round-robin), or a generated merge."""

    @st.composite
    def _s(draw):
        n = draw(st.one_of(st.integers(17, 24), st.integers(17, 24), st.integers(25, 40)))
        base = draw(st.one_of(st.sampled_from(_SYS_EDGE), st.integers(0, 0xFFFFFFFF)))
        step = draw(st.sampled_from([1, 1, 2, 0x100, 0x10001]))
        systems = [(base + i * step) & 0xFFFFFFFF for i in range(n)]
        via = draw(st.sampled_from(["add", "add", "dispatch"]))
        msgs = []
        for i in range(n):
            h = draw(hdr_strategy())
            h["sys"] = systems[i]
            if via == "dispatch":
                h["s"], h["f"] = 7, 3
                msgs.append({"hdr": h, "ppid": "P%d" % i, "pplen": draw(st.sampled_from([245, 300, 480, 489, 700])), "fill": draw(fill_strategy())})
            else:
                msgs.append({"hdr": h, "len": draw(st.sampled_from([245, 245, 300, 488, 489, 700])), "fill": draw(fill_strategy())})
        counts = [secs1.n_blocks(len(body_of(m))) for m in msgs]
        seq = [i for i, c in enumerate(counts) for _ in range(c)]
        order = list(draw(st.permutations(list(range(n)))))
        rr = []
        left = list(counts)
        while any(left):
            for i in order:
                if left[i]:
                    rr.append(i)
                    left[i] -= 1
        merge = draw(st.one_of(st.just(rr), st.just(rr), st.permutations(seq)))
        return {"k": "reasm", "msgs": msgs, "merge": list(merge), "via": via, "wire": draw(st.sampled_from(["sg", "ref"])), "repeat": draw(st.integers(0, 1))}

    return _s()


def max_open(merge, counts):
    """Largest number of transactions that have received a block but not yet their last one."""
    ptr = [0] * len(counts)
    best = 0
    for i in merge:
        ptr[i] += 1
        best = max(best, sum(1 for p, c in zip(ptr, counts) if 0 < p < c))
    return best


def reuse_strategy():
    @st.composite
    def _s(draw):
        n = draw(st.integers(2, 6))
        via = draw(st.sampled_from(["add", "add", "dispatch"]))
        pool = draw(st.lists(st.one_of(st.sampled_from(_SYS_EDGE), st.integers(0, 0xFFFFFFFF)), min_size=1, max_size=2, unique=True))
        msgs = []
        for i in range(n):
            if i == 0:
                h = draw(hdr_strategy())
                h["sys"] = pool[0]
                if via == "dispatch":
                    h["s"], h["f"] = draw(st.sampled_from(DISPATCH_SF))
            else:
                p = msgs[-1]["hdr"]
                sysb = draw(st.sampled_from([p["sys"], p["sys"]] + pool))
                rel = draw(st.sampled_from(["reply", "next", "one", "fresh"] if via == "add" else ["next", "one"]))
                if rel == "reply":  # primary <-> its counterpart of the other parity: same stream, neighbouring function
                    h = dict(p)
                    if p["f"] % 2:
                        h["f"], h["w"] = (p["f"] + 1 if p["f"] < 255 else 254), 0
                    else:
                        h["f"], h["w"] = max(1, p["f"] - 1), draw(st.integers(0, 1))
                    h["r"] = draw(st.sampled_from([p["r"], p["r"], 1 - p["r"]]))
                elif rel == "next":  # the next transaction: another stream/function
                    h = dict(p)
                    if via == "dispatch":
                        h["s"], h["f"] = draw(st.sampled_from([sf for sf in DISPATCH_SF if sf != (p["s"], p["f"])]))
                    else:
                        h["s"] = draw(st.integers(0, 127))
                        h["f"] = draw(st.integers(0, 255))
                        if (h["s"], h["f"]) == (p["s"], p["f"]):
                            h["f"] = (p["f"] + 2) % 256
                    h["w"] = draw(st.sampled_from([p["w"], 1 - p["w"]]))
                elif rel == "one":  # exactly one other header field differs
                    h = dict(p)
                    which = draw(st.sampled_from(["dev", "r", "w", "s", "f"] if via == "add" else ["dev", "r", "w"]))
                    if which == "dev":
                        h["dev"] = p["dev"] ^ (1 << draw(st.integers(0, 14)))
                    elif which in ("r", "w"):
                        h[which] = 1 - p[which]
                    elif which == "s":
                        h["s"] = (p["s"] + draw(st.integers(1, 127))) % 128
                    else:
                        h["f"] = (p["f"] + draw(st.integers(1, 255))) % 256
                else:
                    h = draw(hdr_strategy())
                    if all(h[k] == p[k] for k in HDR_REST):
                        h["w"] = 1 - h["w"]
                h["sys"] = sysb
            ln = draw(st.one_of(st.sampled_from([0, 0, 1, 10, 243, 244]), st.integers(0, 244), st.integers(0, 244), st.sampled_from([245, 488, 489, 700])))
            msgs.append({"hdr": h, "len": ln, "fill": draw(fill_strategy())})
        return {"k": "reuse", "msgs": msgs, "via": via, "wire": draw(st.sampled_from(["sg", "sg", "ref"]))}

    return _s()


def reuse_record(ctx, case):
    msgs = case["msgs"]
    nb = [secs1.n_blocks(m["len"]) for m in msgs]
    pairs = reuse_pairs(msgs)
    classes = ["kind:reuse", f"reuse:msgs:{len(msgs)}", f"reuse:via:{case['via']}", f"reuse:wire:{case.get('wire', 'sg')}"]
    for i, diff in pairs:
        single = nb[i - 1] == 1 and nb[i] == 1
        classes.append("reuse:equal-system-bytes:" + ("both-single-block" if single else "multi-block-involved"))
        a, b = msgs[i - 1]["hdr"], msgs[i]["hdr"]
        if len(diff) == 1:
            classes.append(f"reuse:differs-only-in:{diff[0]}")
        elif a["s"] == b["s"] and abs(a["f"] - b["f"]) == 1 and "dev" not in diff:
            classes.append("reuse:differs:primary/reply")
        else:
            classes.append("reuse:differs:several-fields")
    if len(pairs) >= 2:
        classes.append("reuse:equal-system-bytes:>=3-in-a-row" if any(pairs[k][0] + 1 == pairs[k + 1][0] for k in range(len(pairs) - 1)) else "reuse:equal-system-bytes:two-pairs")
    if not pairs:
        classes.append("reuse:no-equal-neighbours")
    ctx.case(case, bool(pairs), classes)


def reasm_record(ctx, case):
    lens = [len(body_of(m)) for m in case["msgs"]]
    merge = case["merge"] if isinstance(case["merge"], list) else merge_of(case, [secs1.n_blocks(n) for n in lens])
    alt = alternations(merge)
    sfs = {(m["hdr"]["s"], m["hdr"]["f"]) for m in case["msgs"]}
    classes = [
        "kind:reasm",
        f"reasm:msgs:{len(lens)}" if len(lens) <= 4 else "reasm:msgs:17-40",
        f"reasm:via:{case['via']}",
        f"reasm:wire:{case.get('wire', 'sg')}",
        "reasm:alt:" + ("0" if alt == 0 else "1-2" if alt < 3 else "3-9" if alt < 10 else ">=10"),
        f"reasm:maxblocks:{nblocks_class(max(secs1.n_blocks(n) for n in lens))}",
    ]
    mo = max_open(merge, [secs1.n_blocks(n) for n in lens]) if isinstance(case["merge"], list) else None
    if mo is not None:
        classes.append("reasm:open-at-once:" + ("0-1" if mo <= 1 else "2-4" if mo <= 4 else "5-16" if mo <= 16 else ">=17"))
    if len(sfs) == 1:
        classes.append("reasm:same-stream-function")
    if case.get("repeat"):
        classes.append("reasm:repeat")
    if any(secs1.n_blocks(n) == 1 for n in lens) and any(secs1.n_blocks(n) > 1 for n in lens):
        classes.append("reasm:single+multi-block")
    ctx.case(case, alt >= 3 or max(lens) >= 243, classes)


# --------------------------------------------------------------------------------------------
# tasks

_BOUNDARY_LENGTHS = sorted({k * 244 + d for k in range(1, 41) for d in (-1, 0, 1)})
ALL_LENGTHS = sorted(set(range(0, 2001)) | set(_BOUNDARY_LENGTHS))


def _rand_hdr(rnd):
    def pick(edge, top):
        return edge[rnd.randrange(len(edge))] if rnd.random() < 0.3 else rnd.randint(0, top)

    return {
        "dev": pick(_DEV_EDGE, 0x7FFF),
        "r": rnd.randint(0, 1),
        "w": rnd.randint(0, 1),
        "s": pick([0, 1, 127], 127),
        "f": pick([0, 1, 255], 255),
        "sys": pick(_SYS_EDGE, 0xFFFFFFFF),
    }


def _rand_fill(rnd):
    x = rnd.random()
    return "z" if x < 0.1 else "f" if x < 0.2 else rnd.getrandbits(32)


def corrupt_specs(tier, seed):
    """Blocks whose every single-byte corruption is tried."""
    rnd = random.Random(seed * 7919 + 16)
    if tier == "quick":
        dlens = [0, 1, 2, 5, 16, 33, 64, 100, 128, 200, 242, 243, 244, 244, 244, 0]
    else:
        dlens = [0, 1, 2, 3, 243, 244, 244, 244] * 8 + [rnd.randint(0, 244) for _ in range(190)] + [0, 244]
    specs = []
    for i, n in enumerate(dlens):
        h = _rand_hdr(rnd)
        h["blk"] = rnd.choice([1, 1, 2, 255, 256, 0x7FFF, rnd.randint(1, 0x7FFF)])
        h["e"] = rnd.randint(0, 1)
        fill = _rand_fill(rnd)
        if i == len(dlens) - 1:
            # all-zero header and data: lowering the length byte yields shorter frames whose checksum field (two zero
            # data bytes) matches - exercises the "collision" exclusion
            h = {"dev": 0, "r": 0, "w": 0, "s": 0, "f": 0, "sys": 0, "blk": 0, "e": 0}
            fill = "z"
            n = 40 if tier == "quick" else 244
        elif i == len(dlens) - 2 or i == 12:
            h = {"dev": 0x7FFF, "r": 1, "w": 1, "s": 127, "f": 255, "sys": 0xFFFFFFFF, "blk": 0x7FFF, "e": 1}
            fill = "f"  # largest possible checksum 0xFD02
        specs.append({"hdr": h, "dlen": n, "fill": fill})
    return specs


def _hyp(ctx, strategy, body, n, seed_offset):
    ctx.hyp(strategy, body, n, seed_offset=seed_offset, max_buckets=2)


def plan(tier, seed):
    quick = tier == "quick"
    tasks = [("refself", {})]
    specs = corrupt_specs(tier, seed)
    # big blocks first so that the pool is balanced
    order = sorted(range(len(specs)), key=lambda i: -specs[i]["dlen"])
    nsh = 16
    for sh in range(nsh):
        mine = [specs[i] for k, i in enumerate(order) if k % nsh == sh]
        tasks.append(("corrupt", {"specs": mine}))
    if not quick:
        for i, n in enumerate([secs1.MAX_BODY, secs1.MAX_BODY - 243, secs1.MAX_BODY - 244]):
            tasks.append(("limit", {"len": n, "i": i}))
        tasks.append(("limit_reasm", {}))
        for sh in range(16):
            tasks.append(("biglens", {"shard": sh, "n": 12}))
    for sh in range(16):
        tasks.append(("hdrenum", {"shard": sh, "of": 16}))
    for sh in range(8):
        tasks.append(("lengths", {"shard": sh, "of": 8}))
    for sh in range(8):
        tasks.append(("reasm", {"shard": sh, "n": 400 if quick else 5000}))
    for sh in range(4):
        tasks.append(("many", {"shard": sh, "n": 60 if quick else 1000}))
    for sh in range(4):
        tasks.append(("reuse", {"shard": sh, "n": 300 if quick else 4000}))
    for sh in range(4):
        tasks.append(("gen_split", {"shard": sh, "n": 250 if quick else 5000}))
    for sh in range(2):
        tasks.append(("gen_block", {"shard": sh, "n": 600 if quick else 10000}))
    return tasks


def run_task(name, kw, ctx):
    if name == "refself":
        secs1.selftest()
        e5.selftest()
    elif name == "lengths":
        for idx, n in enumerate(ALL_LENGTHS):
            if idx % kw["of"] != kw["shard"]:
                continue
            if ctx.out_of_time():
                return
            rnd = random.Random(ctx.seed * 1000003 + n)
            case = {"k": "split", "hdr": _rand_hdr(rnd), "len": n, "fill": _rand_fill(rnd), "blk0": rnd.choice([0, 0, 1, 77]), "e0": rnd.randint(0, 1)}
            record_split(ctx, case)
            ctx.report(check_split(case))
    elif name == "hdrenum":
        rnd = random.Random(ctx.seed * 1000003 + 500000 + kw["shard"])
        lens = [0, 1, 7, 243, 244, 245, 488, 489, 100, 300]
        k = 0
        for s in range(128):
            if s % kw["of"] != kw["shard"]:
                continue
            for f in range(256):
                if ctx.out_of_time():
                    return
                for r in (0, 1):
                    for w in (0, 1):
                        h = _rand_hdr(rnd)
                        h.update(r=r, w=w, s=s, f=f)
                        k += 1
                        case = {"k": "split", "hdr": h, "len": lens[k % len(lens)], "fill": _rand_fill(rnd), "blk0": 0, "e0": 1}
                        record_split(ctx, case)
                        ctx.report(check_split(case))
        ctx.count("hdrenum:stream-values-done", len([s for s in range(128) if s % kw["of"] == kw["shard"]]))
    elif name == "gen_split":

        def body(case):
            record_split(ctx, case)
            return check_split(case)

        _hyp(ctx, split_strategy(), body, kw["n"], kw["shard"])
    elif name == "gen_block":

        def body(case):
            h = case["hdr"]
            ctx.case(case, True, ["kind:block", f"block:dlen:{len_class(case['dlen'])}", f"block:E={h['e']}", "block:number:" + ("0" if h["blk"] == 0 else "1" if h["blk"] == 1 else "<256" if h["blk"] < 256 else "max" if h["blk"] == 0x7FFF else ">=256")])
            return check_block(case)

        _hyp(ctx, block_strategy(), body, kw["n"], 40 + kw["shard"])
    elif name == "reasm":

        def body(case):
            reasm_record(ctx, case)
            return check_reasm(case)

        _hyp(ctx, reasm_strategy(), body, kw["n"], 20 + kw["shard"])
    elif name == "many":

        def body(case):
            reasm_record(ctx, case)
            return check_reasm(case)

        _hyp(ctx, many_strategy(), body, kw["n"], 80 + kw["shard"])
    elif name == "reuse":

        def body(case):
            reuse_record(ctx, case)
            return check_reuse(case)

        _hyp(ctx, reuse_strategy(), body, kw["n"], 60 + kw["shard"])
    elif name == "corrupt":
        for spec in kw["specs"]:
            if ctx.out_of_time():
                return
            corrupt_block_all(spec, ctx)
    elif name == "biglens":
        rnd = random.Random(ctx.seed * 1000003 + 700000 + kw["shard"])
        for j in range(kw["n"]):
            if ctx.out_of_time():
                return
            # log-uniform block count between 41 and 32767, length at or next to a block boundary half of the time
            nb = int(41 * (secs1.MAX_BLOCKS / 41) ** rnd.random())
            n = nb * 244 + rnd.choice([-1, 0, 1]) if rnd.random() < 0.5 else rnd.randint((nb - 1) * 244 + 1, nb * 244)
            n = min(n, secs1.MAX_BODY)
            case = {"k": "split", "hdr": _rand_hdr(rnd), "len": n, "fill": _rand_fill(rnd), "blk0": 0, "e0": 1}
            record_split(ctx, case)
            ctx.report(check_split(case))
    elif name == "limit":
        rnd = random.Random(ctx.seed * 1000003 + 900000 + kw["i"])
        case = {"k": "split", "hdr": _rand_hdr(rnd), "len": kw["len"], "fill": rnd.getrandbits(32), "blk0": 0, "e0": 1}
        record_split(ctx, case)
        ctx.report(check_split(case))
    elif name == "limit_reasm":
        rnd = random.Random(ctx.seed * 1000003 + 950000)
        hs = [_rand_hdr(rnd) for _ in range(3)]
        for i, h in enumerate(hs):
            h["sys"] = (hs[0]["sys"] + i) & 0xFFFFFFFF
        case = {
            "k": "reasm",
            "msgs": [
                {"hdr": hs[0], "len": secs1.MAX_BODY, "fill": rnd.getrandbits(32)},
                {"hdr": hs[1], "len": 245, "fill": rnd.getrandbits(32)},
                {"hdr": hs[2], "len": 244 * 500 - 1, "fill": rnd.getrandbits(32)},
            ],
            "merge": {"seed": rnd.getrandbits(32)},
            "via": "add",
            "wire": "sg",
            "repeat": 0,
        }
        reasm_record(ctx, case)
        ctx.report(check_reasm(case))
    else:
        raise ValueError(name)


def replay(case, ctx):
    k = case.get("k")
    if k == "split":
        return check_split(case)
    if k == "block":
        return check_block(case)
    if k == "reasm":
        return check_reasm(case)
    if k == "corrupt":
        return check_corrupt(case)
    if k == "reuse":
        return check_reuse(case)
    raise ValueError(f"unknown case kind {k!r}")
