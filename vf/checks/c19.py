"""C19 - function structure definitions (SFDL) are read exactly as documented.

Oracle source: /repo/docs/firststeps/sfdl.md, re-implemented in vf/ref/sfdl.py (no secsgem import there).

What is demanded (and nothing more)
  * well-formed text of the documented grammar  ->  secsgem.secs.variables.functions.generate(text) returns an object
    whose shape (Array / List / data item class, member keys in order, recursively through Array.item_decriptor) equals
    the documented shape: several members -> keyed record, one member -> open array, keys by rules K1..K4 of ref.sfdl.
  * a text with one closing bracket removed, or with one data item name replaced by an identifier that is not
    catalogued, raises an exception. The statement says "rejected with an error": the exception TYPE is not part of the
    statement, so anything other than SFDLParseError is only counted ("wrong-error-type:<Type>") and noted.

Corrections / narrowing decided against the document text (DESIGN.md section 7 material)
  * `< L >` (empty list) is not in the documented grammar (every list has members): never generated as well-formed.
  * text after the first complete definition is outside the grammar and is neither "a missing closing bracket" nor "an
    unknown data item name": a removed OPENING bracket always leaves one surplus '>' and can only be accepted by
    ignoring trailing text, so acceptance of such a mutant is counted and noted, not reported - unless the reference
    classifies the mutant as an unknown data item name (e.g. `<L<SVID>>` -> `<LSVID>>`).
  * case: the document spells the tag 'L' and all names in upper case and says nothing about case folding; the code
    shows intent to fold (`item_token.value.upper()`) but the tokenizer rejects `l`/`Svid` while accepting `svid`
    (sub-module attribute of secsgem.secs.data_items). Case variants are therefore a separate mutation class whose
    oracle accepts BOTH outcomes the two readings allow: an error, or exactly the shape of the upper-case text.
    Identifiers used as "unknown names" never are case variants of catalogued names.
  * record members whose key the document does not define (U1 unnamed record directly in a record - the catalogue uses
    it six times -, U2 unnamed open list of an open list, U3 unnamed open list of a named list) are not generated
    (construction: the member gets a list name; counted with ctx.exclude); in catalogue structures such keys are
    wildcards. Siblings whose documented keys collide are disambiguated by a list name / another item (counted).
  * a comment glued between two words (`L#c<EOL>NAME`) is not generated: "end with the line break" can be read as the
    line break belonging to the comment, which would glue the words.
  * the new-API reader secsgem.secs.function.DataStructure is outside the property's anchors and unused by the
    runtime; its disagreements with the document are counted and noted (task "newapi"), never reported as violations.

Genuine defects of the reviewed tree (root-cause buckets, see B1..B3 below; all in functions._generate_from_sfdl)
  B1 named-list-of-one-item-read-as-record: the document's own example `< L SVIDS < SVID > >` ("This will make the
     list of SVIDs available with the key/attribute SVIDS"; "Open lists are defined with only one data item") becomes
     the member list ["SVIDS", SVID] of length 2 and is built as a List {SVID} instead of an Array of SVID.
  B2 list-name-leaks-into-unnamed-member-list: the name given to a list is also handed to each member list; an
     unnamed member `< L < SVID > >` ("the name of the nested data item is used to override the key") is read as
     ["N", SVID]: key N instead of SVID, record instead of open array, and two such members collapse into one key
     (a member is silently lost).
  B3 list-name-lost-when-first-member-is-a-list: "this name can be overridden, by passing the name after the L tag" /
     "also other nested lists can be named this way" - but a named list whose first member is a list keeps no name
     unless it is an open list of an unnamed record: its key is DATA, or the name of its member list.
A check of one case collects ALL differences and reports the first one whose bucket is not registered as known, so the
three known defects do not hide other defects in the same definition.
"""

from __future__ import annotations

import json
import os
import random
import re
import subprocess
import sys

from hypothesis import strategies as st

from vf.ref import sfdl
from vf.run import Failure

PROPERTY = "C19"
LEVEL = "exploration"
TECHNIQUE = (
    "grammar-based property testing (Hypothesis) against an independent recursive-descent reader of the documented "
    "grammar; exhaustive over the catalogue structures and the document's examples; mutation of brackets/names; "
    "coverage-guided fuzzing (atheris) in the thorough tier"
)
RULE = (
    "Texts are rendered from generated definition trees (item | < L [NAME] member+ >, depth <= 6, width <= 6, item names "
    "from data_items.yaml, fresh list names) in four layouts (document style, one line, no optional whitespace, random "
    "blank/tab/LF/CRLF/CR gaps) with optional '#' comments; only nestings whose member keys the document defines and "
    "whose sibling keys do not collide. Mutants: one '>' dropped, one '<' dropped, one item name replaced by an "
    "uncatalogued identifier, one L or item name lower-cased. Plus every structure of functions.yaml and every code "
    "block of sfdl.md. Oracle: shape of functions.generate(text) == documented shape of the reference reader; "
    "missing-'>' and unknown-name mutants must raise. Non-trivial = depth >= 3, or a named list, or comments / "
    "irregular whitespace, or a mutant; distinct by hash of the text."
)
ASSUMPTIONS = [
    "vf/ref/sfdl.py reads docs/firststeps/sfdl.md correctly (its selftest holds the document's own examples and prose)",
    "the catalogue of data item names is the key set of secsgem/secs/data_items.yaml (124 names)",
    "whitespace = blank, tab, LF, CR; a line break is LF, CRLF or CR; a comment may end at end of text",
    "list names are identifiers [A-Za-z_][A-Za-z0-9_]* that are not (case variants of) catalogued names or L",
]
BUDGET_S = {"quick": 100, "thorough": 900}
EXHAUSTIVE_NOTE = "all structures of functions.yaml (115 of 134 functions have one) and all 10 code blocks of sfdl.md"

REPO = os.environ.get("VF_REPO", "/repo")
NEWAPI_AS_FAILURE = False


def _load_names():
    import yaml

    with open(os.path.join(REPO, "secsgem", "secs", "data_items.yaml"), encoding="utf8") as fh:
        return sorted(yaml.safe_load(fh))


NAMES = _load_names()
NAMESET = frozenset(NAMES)
UPPERSET = frozenset(n.upper() for n in NAMES)

# identifiers that are not catalogued (nor case variants of catalogued names, nor the list tag)
UNKNOWN_POOL = [
    "NOPE", "XSVID", "SVIDX", "SV1D", "DATA", "UNKNOWN", "LL", "L1", "LIST", "U4", "A", "B", "ANY", "Array", "List", "String",
    "Dynamic", "X", "x9", "_X", "ITEM", "NAME", "S1F1", "None", "True", "object", "type",
    # attributes of the package secsgem.secs.data_items that are not data items
    "DataItemBase", "__all__", "__builtins__", "__doc__", "__file__", "__name__", "__path__", "__spec__", "__loader__",
    "__package__", "__cached__", "_all", "base", "data_items", "__dict__", "__class__",
]  # fmt: skip
UNKNOWN_POOL = [u for u in UNKNOWN_POOL if u.upper() not in UPPERSET and u.upper() != "L"]
LISTNAME_POOL = ["REPORTS", "SVIDS", "DS", "DV", "ITEMS", "ENTRY", "N1", "N2", "X_1", "Rows", "values", "_p", "LIMITS", "DATA", "A", "Z9"]


# --------------------------------------------------------------------------------------------
# generation (plain data)


def _ident():
    first = "ABCDEFGHIJKLMNOPQRSTUVWXYZabcdefghijklmnopqrstuvwxyz_"
    rest = first + "0123456789"
    return st.builds(lambda a, b: a + b, st.sampled_from(first), st.text(alphabet=rest, max_size=7))


IDENT_S = _ident()
LISTNAME_S = st.one_of(st.sampled_from(LISTNAME_POOL), IDENT_S)
UNKNOWN_S = st.one_of(st.sampled_from(UNKNOWN_POOL), IDENT_S)
CODE_S = st.integers(0, 9999)
DIGIT_S = st.integers(0, 9)
STYLE_S = st.sampled_from(["doc", "oneline", "compact", "rand", "rand"])
SEED_S = st.integers(0, 2**20)
STEP_S = st.sampled_from([4, 2])
INDEX_S = st.integers(0, 63)


def _fresh(name, taken):
    """A list name that is no (case variant of a) catalogued name, not L, and not in `taken`."""
    if name.upper() in UPPERSET or name.upper() == "L":
        name = "N_" + name
    base, k = name, 1
    while name in taken:
        k += 1
        name = f"{base}{k}"
    return name


DEPTH_S = st.integers(0, 6)
WIDTHS = [1, 1, 1, 2, 2, 2, 3, 3, 4, 5, 6]


def tree_core(draw, max_depth=6, budget=48):
    """Tree from a `draw` callable (Hypothesis' draw, or RndDraw for the plain random loop)."""
    left = [budget]

    def node(d, force_list):
        left[0] -= 1
        c = draw(CODE_S)  # one draw per node (item/list, named, width, chain) keeps generation cheap
        if d <= 0 or left[0] <= 0 or (not force_list and c < 4000):
            return {"t": "item", "name": NAMES[c % len(NAMES)]}
        c = c if force_list else c - 4000
        name = None
        if c % 10 < 4:
            name = _fresh(draw(LISTNAME_S), ())
        w = WIDTHS[(c // 10) % len(WIDTHS)]
        deep = (c // 110) % 10 < 3  # chains reach the depth limit
        return {"t": "list", "name": name, "m": [node(d - 1, deep and i == 0) for i in range(w)]}

    d = min(draw(DEPTH_S), max_depth)
    return node(d, d > 0)


def case_core(draw, max_depth=6):
    tree = tree_core(draw, max_depth)
    layout = {"style": draw(STYLE_S), "seed": draw(SEED_S), "comments": draw(DIGIT_S) < 3, "step": draw(STEP_S)}
    mut = None
    if draw(DIGIT_S) < 5:
        mut = {"op": draw(MUTOP_S), "index": draw(INDEX_S), "ident": draw(UNKNOWN_S)}
    return {"tree": tree, "layout": layout, "mut": mut}


@st.composite
def cases(draw, max_depth=6):
    return case_core(draw, max_depth)


class RndDraw:
    """The same generator driven by random.Random (uniform choices; Hypothesis biases towards small values)."""

    def __init__(self, rnd):
        self.rnd = rnd

    def __call__(self, strat):
        r = self.rnd
        if strat is CODE_S:
            return r.randrange(10000)
        if strat is DIGIT_S:
            return r.randrange(10)
        if strat is DEPTH_S:
            return r.randrange(7)
        if strat is STYLE_S:
            return ["doc", "oneline", "compact", "rand", "rand"][r.randrange(5)]
        if strat is SEED_S:
            return r.randrange(2**20)
        if strat is STEP_S:
            return [4, 2][r.randrange(2)]
        if strat is INDEX_S:
            return r.randrange(64)
        if strat is MUTOP_S:
            return MUT_OPS[r.randrange(len(MUT_OPS))]
        if strat is LISTNAME_S or strat is UNKNOWN_S:
            pool = LISTNAME_POOL if strat is LISTNAME_S else UNKNOWN_POOL
            if r.random() < 0.5:
                return pool[r.randrange(len(pool))]
            first = "ABCDEFGHIJKLMNOPQRSTUVWXYZabcdefghijklmnopqrstuvwxyz_"
            return first[r.randrange(len(first))] + "".join((first + "0123456789")[r.randrange(63)] for _ in range(r.randrange(8)))
        raise AssertionError("unknown strategy")


def repair(node, stats, counter=None):
    """Make every record member's key documented and unique among its siblings (construction, counted)."""
    if counter is None:
        counter = [0]
    if node["t"] == "item":
        return node
    for m in node["m"]:
        repair(m, stats, counter)
    if sfdl.is_record(node):
        taken = set()
        for i, m in enumerate(node["m"]):
            k, rule = sfdl.key_of(m)
            if k is None:
                stats[f"undefined-key-nesting:{rule}:member-given-a-list-name"] = stats.get(f"undefined-key-nesting:{rule}:member-given-a-list-name", 0) + 1
                counter[0] += 1
                m["name"] = _fresh(f"G{counter[0]}", taken)
                k = m["name"]
            if k in taken:
                stats["sibling-key-collision:disambiguated"] = stats.get("sibling-key-collision:disambiguated", 0) + 1
                if m["t"] == "item":
                    j = NAMES.index(m["name"])
                    while NAMES[j % len(NAMES)] in taken:
                        j += 1
                    m["name"] = NAMES[j % len(NAMES)]
                    k = m["name"]
                else:
                    counter[0] += 1
                    m["name"] = _fresh(m["name"] or f"G{counter[0]}", taken)
                    k = m["name"]
            taken.add(k)
    return node


COMMENT_ALPHABET = (
    "abcdefghijklmnopqrstuvwxyzABCDEFGHIJKLMNOPQRSTUVWXYZ0123456789 \t<>#\"'`\\/()[]{}=,.;:!?-_+*&%$@^~|"
    "äßé中Ω"
)
GAPS = ["", "", " ", " ", "  ", "\t", "\n", "\n    ", "\r\n", "\r\n\t", " \t ", "\n\n", "\r", " \r "]
WORDS = ("L", "lname", "item")


def tokens_of(node, depth=0, out=None):
    """[(kind, text, depth)] kind in open/close/L/lname/item."""
    if out is None:
        out = []
    out.append(("open", "<", depth))
    if node["t"] == "item":
        out.append(("item", node["name"], depth))
        out.append(("iclose", ">", depth))
    else:
        out.append(("L", "L", depth))
        if node["name"] is not None:
            out.append(("lname", node["name"], depth))
        for m in node["m"]:
            tokens_of(m, depth + 1, out)
        out.append(("close", ">", depth))
    return out


def render_pieces(node, layout):
    """-> (gaps, toks): text = gaps[0] + toks[0] + gaps[1] + ... + toks[n-1] + gaps[n]."""
    toks = tokens_of(node)
    style = layout["style"]
    rnd = random.Random(layout["seed"])
    comments = layout["comments"]
    step = layout.get("step", 4)
    gaps = []
    n = len(toks)
    for i in range(n + 1):
        prev = toks[i - 1] if i > 0 else None
        nxt = toks[i] if i < n else None
        need = prev is not None and nxt is not None and prev[0] in WORDS and nxt[0] in WORDS
        if style == "doc":
            if prev is None or nxt is None:
                g = "" if prev is None else ("\n" if rnd.random() < 0.5 else "")
            elif nxt[0] == "open":
                g = "\n" + " " * (step * nxt[2])
            elif nxt[0] == "close":
                g = "\n" + " " * (step * nxt[2])
            else:
                g = " "
        elif style == "oneline":
            g = "" if prev is None or nxt is None else " "
        elif style == "compact":
            g = " " if need else ""
        else:
            g = GAPS[rnd.randrange(len(GAPS))]
            if need and g == "":
                g = " "
        if comments and rnd.random() < (0.5 if style == "doc" else 0.2):
            k = rnd.randrange(0, 12)
            text = "".join(COMMENT_ALPHABET[rnd.randrange(len(COMMENT_ALPHABET))] for _ in range(k))
            if style == "doc":
                # the document's layout: comment at the end of a line
                if g.startswith("\n"):
                    g = "  #" + text + g
                elif nxt is None:
                    g = " #" + text + ("\n" if rnd.random() < 0.5 else "")
            else:
                eol = ["\n", "\n", "\n", "\r\n", "\r"][rnd.randrange(5)]
                if nxt is None and rnd.random() < 0.5:
                    eol = ""  # comment ended by the end of the text
                lead = " " if need else ["", " ", "  "][rnd.randrange(3)]  # never word#...EOLword
                g = lead + "#" + text + eol + g
        gaps.append(g)
    return gaps, toks


def join(gaps, toks):
    out = [gaps[0]]
    for i, t in enumerate(toks):
        out.append(t if isinstance(t, str) else t[1])
        out.append(gaps[i + 1])
    return "".join(out)


MUT_OPS = ["drop-close", "drop-open", "unknown-name", "lower-l", "case-item"]
MUTOP_S = st.sampled_from(MUT_OPS)


def mutate(gaps, toks, op, index, ident):
    """-> mutated text or None when the operator has no site."""
    texts = [t[1] for t in toks]
    if op == "drop-close":
        sites = [i for i, t in enumerate(toks) if t[0] in ("close", "iclose")]
    elif op == "drop-open":
        sites = [i for i, t in enumerate(toks) if t[0] == "open"]
    elif op in ("unknown-name", "case-item"):
        sites = [i for i, t in enumerate(toks) if t[0] == "item"]
    else:
        sites = [i for i, t in enumerate(toks) if t[0] == "L"]
    if not sites:
        return None
    i = sites[index % len(sites)]
    if op in ("drop-close", "drop-open"):
        texts[i] = ""
    elif op == "unknown-name":
        texts[i] = ident
    elif op == "lower-l":
        texts[i] = "l"
    else:
        name = texts[i]
        texts[i] = name.lower() if index % 3 else name[0] + name[1:].lower()
        if texts[i] == name:  # one-letter names: V -> v
            texts[i] = name.lower()
    return join(gaps, texts)


def build_case(gen, stats):
    """generated structure -> plain replayable case {"text", "mut": None | {"op", "orig"}} (None if no mutation site)."""
    tree = repair(json.loads(json.dumps(gen["tree"])), stats)
    gaps, toks = render_pieces(tree, gen["layout"])
    text = join(gaps, toks)
    irregular = gen["layout"]["style"] in ("compact", "rand") or "#" in text
    meta = {"style": gen["layout"]["style"], "comments": "#" in text, "irregular": irregular}
    if gen["mut"] is None:
        return {"text": text, "mut": None}, meta
    m = gen["mut"]
    ident = m["ident"]
    if ident.upper() in UPPERSET or ident.upper() == "L":
        ident = "Q_" + ident
    mtext = mutate(gaps, toks, m["op"], m["index"], ident)
    if mtext is None:
        return None, meta
    return {"text": mtext, "mut": {"op": m["op"], "orig": text}}, meta


# --------------------------------------------------------------------------------------------
# observation of the code under test


def observed_shape(obj):
    from secsgem.secs.variables import Array, List
    from secsgem.secs.variables import functions

    if isinstance(obj, Array):
        try:
            elem = functions.generate(obj.item_decriptor)
        except Exception as exc:  # descriptor cannot be instantiated: part of the observed shape
            return {"a": f"!invalid-descriptor({type(obj.item_decriptor).__name__}):{type(exc).__name__}"}
        if elem is None:
            return {"a": "!invalid-descriptor(None)"}
        return {"a": observed_shape(elem)}
    if isinstance(obj, List):
        return {"r": [[k, observed_shape(v)] for k, v in obj.data.items()]}
    mod = type(obj).__module__ or ""
    name = type(obj).__name__
    if mod.startswith("secsgem.secs.data_items."):
        return name
    return f"!{mod}.{name}"


def _kind(shape):
    if isinstance(shape, str):
        return "invalid" if shape.startswith("!") else "item"
    return "array" if "a" in shape else "record"


# Root-cause buckets of the defects present in the reviewed tree (all in _generate_from_sfdl's way of carrying a list
# name as a leading str of the member list and of handing it to the member lists):
B1 = "named-list-of-one-item-read-as-record"  # < L SVIDS < SVID > >: ["SVIDS", SVID] has length 2 -> List
B2 = "list-name-leaks-into-unnamed-member-list"  # < L N < L < SVID > > ... >: the member list is read as ["N", SVID]
B3 = "list-name-lost-when-first-member-is-a-list"  # < L N < L ... > < X > > keeps no name: key DATA / a member's name


def _is_k2(m):
    """Unnamed open list of one data item."""
    return m["t"] == "list" and m["name"] is None and len(m["m"]) == 1 and m["m"][0]["t"] == "item"


def _key_cat(got, parent, member):
    if got == "DATA":
        return "DATA"
    if member["t"] == "list" and any(c["t"] == "list" and c["name"] == got for c in member["m"]):
        return "member-list-name"
    if parent["name"] is not None and got == parent["name"]:
        return "enclosing-list-name"
    if got == "UNKNOWN":
        return "UNKNOWN"
    if got in NAMESET:
        return "item-name"
    return "other"


def compare(node, got, parent, path, out, attrib=True):
    """Walk the reference tree and the observed shape together; append (bucket, path, expected, observed).

    Differences are looked through where the rest is still comparable, so that one defect does not hide another.
    attrib=False: symptom buckets only (no attribution to the root causes B1..B3 of the legacy reader).
    """
    if node["t"] == "item":
        if got != node["name"]:
            b = "wrong-item-class" if _kind(got) == "item" else f"kind:item->{_kind(got)}"
            out.append((b, path, node["name"], got))
        return
    if sfdl.is_open(node):
        m = node["m"][0]
        k = _kind(got)
        if k == "array":
            compare(m, got["a"], node, path + "[]", out, attrib)
        elif k == "record" and len(got["r"]) == 1:
            own = node["name"] is not None
            inherited = not own and parent is not None and parent["name"] is not None
            if attrib and m["t"] == "item" and own:
                b = B1
            elif attrib and m["t"] == "item" and inherited:
                b = B2
            else:
                scope = "own-name" if own else "parent-name" if inherited else "no-name"
                b = f"open-list-read-as-record:{'item' if m['t'] == 'item' else 'list'}-member:{scope}"
            out.append((b, path, sfdl.shape(node), got))
            compare(m, got["r"][0][1], node, path + "[]", out, attrib)  # the element shape is still comparable
        else:
            out.append((f"kind:array->{k}", path, sfdl.shape(node), got))
        return
    k = _kind(got)
    if k != "record":
        out.append(("record-read-as-array" if k == "array" else f"kind:record->{k}", path, sfdl.shape(node), got))
        return
    if len(got["r"]) != len(node["m"]):
        # members that collapsed onto one key: attribute to the defect that produced the colliding key
        gotkeys = [g[0] for g in got["r"]]
        if not attrib:
            out.append(("record-member-count", path, sfdl.shape(node), got))
        elif node["name"] is not None and node["name"] in gotkeys and any(_is_k2(m) for m in node["m"]):
            out.append((B2, path, sfdl.shape(node), got))
        elif any(m["t"] == "list" and m["name"] is not None and m["m"][0]["t"] == "list" and m["name"] not in gotkeys for m in node["m"]):
            out.append((B3, path, sfdl.shape(node), got))
        else:
            out.append(("record-member-count", path, sfdl.shape(node), got))
        return
    for i, m in enumerate(node["m"]):
        expk, rule = sfdl.key_of(m)
        gotk, gots = got["r"][i]
        if expk is not None and gotk != expk:
            cat = _key_cat(gotk, node, m)
            if attrib and _is_k2(m) and node["name"] is not None and gotk == node["name"]:
                b = B2
            elif attrib and rule == "K4" and m["m"][0]["t"] == "list" and cat in ("DATA", "member-list-name"):
                b = B3
            else:
                b = f"key:{rule}->{cat}"
            out.append((b, f"{path}.{i}", expk, gotk))
        compare(m, gots, node, f"{path}.{gotk}", out, attrib)


def _msg_class(exc):
    s = str(exc).split("^-- ")[-1]
    s = re.sub(r"[^A-Za-z '<>]", " ", s)
    return " ".join(s.split()[:3])


def _exc(e):
    return f"{type(e).__name__}: {str(e)[-160:]}"


def _pick(diffs, case, known):
    """First difference whose bucket is not a registered known finding (so known defects do not mask others)."""
    if not diffs:
        return None
    for b, path, exp, got in diffs:
        if b not in known:
            return Failure(b, case, f"at {path}: {json.dumps(got)[:400]}", json.dumps(exp)[:400])
    b, path, exp, got = diffs[0]
    return Failure(b, case, f"at {path}: {json.dumps(got)[:400]}", json.dumps(exp)[:400])


def check_case(case, ctx=None, wildcard_ok=False):
    """case = {"text": str, "mut": None | {"op": str, "orig": str}} -> Failure | None. Harness errors propagate."""
    from secsgem.secs.functions.sfdl_tokenizer import SFDLParseError
    from secsgem.secs.variables import functions

    known = ctx.known_keys if ctx is not None else ()
    text, mut = case["text"], case.get("mut")

    def count(cls):
        if ctx is not None:
            ctx.count(cls)

    if mut is None:
        tree = sfdl.parse(text, NAMESET)  # generator bug if this raises -> exit 2
        if not wildcard_ok and (sfdl.undefined_keys(tree) or sfdl.collisions(tree)):
            raise AssertionError(f"case outside the documented key rules: {text!r}")
        try:
            obj = functions.generate(text)
        except Exception as exc:
            return Failure(f"wellformed-rejected:{type(exc).__name__}:{_msg_class(exc)}", case, _exc(exc), json.dumps(sfdl.shape(tree))[:400])
        diffs = []
        compare(tree, observed_shape(obj), None, "$", diffs)
        return _pick(diffs, case, known)

    op = mut["op"]
    orig_tree = sfdl.parse(mut["orig"], NAMESET)
    try:
        sfdl.parse(text, NAMESET)
    except sfdl.SfdlError as exc:
        ref_kind = exc.kind
    else:
        raise AssertionError(f"mutant is still well-formed: {text!r}")
    try:
        obj = functions.generate(text)
    except SFDLParseError:
        count(f"mut-outcome:{op}:rejected:SFDLParseError")
        return None
    except Exception as exc:
        count(f"mut-outcome:{op}:rejected:{type(exc).__name__}")
        if op not in ("lower-l", "case-item"):
            count(f"wrong-error-type:{type(exc).__name__}")
            if ctx is not None:
                ctx.note(
                    f"wrong-error-type:{type(exc).__name__} (weaker class, counted, not a violation): some {op} mutants are rejected "
                    f"with {type(exc).__name__} instead of SFDLParseError" + (", e.g. '< L SVID > >' (the list is left without members)" if type(exc).__name__ == "IndexError" else "")
                )
        return None
    got = observed_shape(obj)
    if op in ("lower-l", "case-item"):
        count(f"mut-outcome:{op}:accepted")
        diffs = []
        compare(orig_tree, got, None, "$", diffs)  # accepted => must be read as the upper-case definition
        return _pick(diffs, case, known)
    if op == "drop-close":
        count(f"mut-outcome:{op}:ACCEPTED")
        return Failure("accepted:missing-closing-bracket", case, json.dumps(got)[:400], "an error")
    if op == "unknown-name" or ref_kind == "unknown-item":
        count(f"mut-outcome:{op}:ACCEPTED")
        return Failure("accepted:unknown-item-name", case, json.dumps(got)[:400], "an error")
    # drop-open accepted: only possible by ignoring the surplus '>' (trailing text) - outside the statement
    count(f"mut-outcome:{op}:accepted-ignoring-trailing-text({ref_kind})")
    if ctx is not None:
        ctx.note(
            "outside the statement (noted, not a violation): a definition with one '<' removed can be accepted because text "
            "after the first complete definition is ignored, e.g. '< L < L SVID > < TRID > > >' reads as {UNKNOWN: [?], TRID}"
        )
    return None


# --------------------------------------------------------------------------------------------
# classes / non-triviality


def classes_of(case, meta):
    mut = case["mut"]
    base = mut["orig"] if mut else case["text"]
    tree = sfdl.parse(base, NAMESET)
    d = sfdl.depth(tree)
    named = sfdl.has_named_list(tree)
    out = [
        f"depth:{d}",
        f"width:{sfdl.width(tree)}",
        f"named-list:{'yes' if named else 'no'}",
        f"layout:{meta['style']}",
        f"comments:{'yes' if meta['comments'] else 'no'}",
        "kind:wellformed" if mut is None else f"kind:mut:{mut['op']}",
        "top:" + ("item" if tree["t"] == "item" else "array" if sfdl.is_open(tree) else "record"),
    ]
    rules = set()
    _rules(tree, rules)
    out.extend(sorted(f"key-rule:{r}" for r in rules))
    out.extend(comment_classes(base))
    nontrivial = d >= 3 or named or meta["irregular"] or mut is not None
    return out, nontrivial


def comment_classes(text):
    """How comments sit in the text: glued to a word, ended by LF / CRLF / CR / end of text."""
    out = set()
    i, n = 0, len(text)
    if "\r" in text.replace("\r\n", ""):
        out.add("linebreak:lone-CR")
    while i < n:
        if text[i] == "#":
            if i > 0 and text[i - 1] not in " \t\r\n<>":
                out.add("comment:glued-to-word")
            if i > 0 and text[i - 1] in "<>":
                out.add("comment:glued-to-bracket")
            while i < n and text[i] not in "\r\n":
                i += 1
            if i >= n:
                out.add("comment-ended-by:EOF")
            elif text[i] == "\n":
                out.add("comment-ended-by:LF")
            elif text[i : i + 2] == "\r\n":
                out.add("comment-ended-by:CRLF")
            else:
                out.add("comment-ended-by:CR")
        i += 1
    return sorted(out)


def _rules(node, acc):
    if node["t"] == "list":
        if sfdl.is_record(node):
            for m in node["m"]:
                acc.add(sfdl.key_of(m)[1])
                if m["t"] == "list" and m["name"] is not None:
                    acc.add("K4:" + ("open" if sfdl.is_open(m) else "record"))
        for m in node["m"]:
            _rules(m, acc)


# --------------------------------------------------------------------------------------------
# tasks


def plan(tier, seed):
    quick = tier == "quick"
    tasks = [("gen", {"shard": i, "n": 250 if quick else 9000}) for i in range(16)]
    tasks += [("rand", {"shard": i, "n": 150 if quick else 11000}) for i in range(16)]
    tasks.append(("catalogue", {}))
    tasks.append(("doc-examples", {}))
    tasks.append(("small-exhaustive", {}))
    tasks.append(("newapi", {"n": 300 if quick else 5000}))
    tasks += [("pair", {"shard": i, "n": 40 if quick else 1500}) for i in range(2 if quick else 8)]
    if not quick:
        for i in range(4):
            tasks.append(("fuzz", {"shard": i, "runs": 150000}))
    return tasks


def run_task(name, kw, ctx):
    sfdl.selftest()
    if name == "gen":
        _gen_task(kw, ctx)
    elif name == "rand":
        _rand_task(kw, ctx)
    elif name == "catalogue":
        _catalogue_task(ctx)
    elif name == "doc-examples":
        _doc_task(ctx)
    elif name == "small-exhaustive":
        _small_task(ctx)
    elif name == "newapi":
        _newapi_task(kw, ctx)
    elif name == "fuzz":
        _fuzz_task(kw, ctx)
    elif name == "pair":
        _pair_task(kw, ctx)


PAIR_HOT = ["functions/sfdl_tokenizer.py", "variables/functions.py"]


def check_pair(case):
    """Two threads read the SAME definition text at the same time (a receive thread decoding a function while the application
    builds one): each must get the documented shape, as a single reader does. Threads switch at generated line-level
    preemptions inside the tokenizer / structure generator."""
    from vf.conc import run_threads

    inner = {"text": case["text"], "mut": None}
    if check_case(inner) is not None:
        return None  # judged by the sequential tasks
    outs, hits = run_threads([lambda: check_case(inner), lambda: check_case(inner)], case["sched"])
    case["_hits"] = hits
    for val, exc in outs:
        if exc is not None:
            return Failure(f"concurrent-readers:raises:{type(exc).__name__}", {k: v for k, v in case.items() if k != "_hits"}, _exc(exc), "the documented shape, as for a single reader")
        if val is not None:
            return Failure("concurrent-readers:" + val.bucket, {k: v for k, v in case.items() if k != "_hits"}, val.observed, val.expected)
    return None


def _pair_task(kw, ctx):
    from hypothesis import strategies as st

    sched = st.builds(lambda sd, pp: {"seed": sd, "switch": 0.5, "pprob": pp, "hot": PAIR_HOT}, st.integers(1, 2**31), st.sampled_from([0.02, 0.1, 0.3]))

    def body(pair):
        gen, sc = pair
        case, meta = build_case(dict(gen, mut=None), {})
        if case is None:
            return None
        pc = {"text": case["text"], "mut": None, "pair": 1, "sched": sc}
        f = check_pair(pc)
        hits = pc.pop("_hits", 0)
        ctx.case(pc, hits > 0, ["pair:two-concurrent-readers"] + (["pair:preempted-inside-the-reader"] if hits else []))
        return f

    ctx.hyp(st.tuples(cases(max_depth=4), sched), body, kw["n"], seed_offset=900 + kw["shard"], shrink=False)


def _gen_task(kw, ctx):
    depth = 6
    minimised = {}

    def body(gen):
        stats = {}
        case, meta = build_case(gen, stats)
        for k, v in stats.items():
            ctx.exclude(k, v)
        if case is None:
            ctx.exclude("mutation-operator-has-no-site", 1)
            return None
        cls, nontrivial = classes_of(case, meta)
        ctx.case(case, nontrivial, cls)
        f = check_case(case, ctx)
        if f is not None and f.bucket not in ctx.known_keys:
            # one minimised witness per bucket (Hypothesis replays the failing example once more: same answer)
            if f.bucket not in minimised:
                minimised[f.bucket] = minimise(gen, f, ctx)
            f = minimised[f.bucket]
        return f

    # shrinking is done by `minimise` (structure-aware, deterministic, bounded) instead of Hypothesis' shrinker
    ctx.hyp(cases(max_depth=depth), body, kw["n"], seed_offset=kw["shard"], shrink=False)


def _rand_task(kw, ctx):
    """The same generator under a plain seeded RNG: uniform choices give larger/deeper trees than Hypothesis' draws."""
    rnd = random.Random(ctx.seed * 7919 + kw["shard"])
    draw = RndDraw(rnd)
    minimised = set()
    for i in range(kw["n"]):
        if (i & 63) == 0 and ctx.out_of_time():
            return
        gen = case_core(draw)
        stats = {}
        case, meta = build_case(gen, stats)
        for k, v in stats.items():
            ctx.exclude(k, v)
        if case is None:
            ctx.exclude("mutation-operator-has-no-site", 1)
            continue
        cls, nontrivial = classes_of(case, meta)
        ctx.case(case, nontrivial, cls + ["generator:uniform"])
        f = check_case(case, ctx)
        if f is not None and f.bucket not in ctx.known_keys and f.bucket not in minimised:
            minimised.add(f.bucket)
            f = minimise(gen, f, ctx)
        ctx.report(f)


def _variants(tree):
    """Smaller trees: hoist a member, drop a member, drop a name, turn a list into an item, simplify item names."""

    def walk(node, rebuild):
        if node["t"] == "item":
            for simple in ("SVID", "TRID", "VID"):
                if node["name"] != simple and node["name"] not in ("SVID", "TRID", "VID"):
                    yield rebuild({"t": "item", "name": simple})
                    break
            return
        yield rebuild({"t": "item", "name": "SVID"})
        for m in node["m"]:
            yield rebuild(m)
        if node["name"] is not None:
            yield rebuild({"t": "list", "name": None, "m": node["m"]})
            if node["name"] != "N":
                yield rebuild({"t": "list", "name": "N", "m": node["m"]})
        if len(node["m"]) > 1:
            for i in range(len(node["m"])):
                yield rebuild({"t": "list", "name": node["name"], "m": node["m"][:i] + node["m"][i + 1 :]})
        for i, m in enumerate(node["m"]):
            yield from walk(m, lambda new, i=i, node=node, rebuild=rebuild: rebuild({"t": "list", "name": node["name"], "m": node["m"][:i] + [new] + node["m"][i + 1 :]}))

    yield from walk(tree, lambda new: new)


def minimise(gen, failure, ctx, max_evals=600):
    """Greedy structure-aware reduction keeping the bucket; returns the Failure of the smallest case found."""
    best_gen, best = gen, failure
    evals = [0]

    def try_gen(g):
        evals[0] += 1
        case, _ = build_case(g, {})
        if case is None:
            return None
        try:
            f = check_case(case, None)
        except AssertionError:
            return None
        if f is not None and f.bucket == failure.bucket:
            return f
        return None

    if best_gen["mut"] is not None and best_gen["mut"]["op"] in ("lower-l", "case-item"):
        f = try_gen(dict(best_gen, mut=None))  # a shape difference usually does not need the case variant
        if f is not None:
            best_gen, best = dict(best_gen, mut=None), f
    for layout in ({"style": "oneline", "seed": 0, "comments": False, "step": 4},):
        if best_gen["layout"]["style"] != "oneline" or best_gen["layout"]["comments"]:
            g = dict(best_gen, layout=layout)
            f = try_gen(g)
            if f is not None:
                best_gen, best = g, f
    improved = True
    while improved and evals[0] < max_evals:
        improved = False
        size = sfdl.count_nodes(best_gen["tree"])
        for t in _variants(best_gen["tree"]):
            if evals[0] >= max_evals:
                break
            if sfdl.count_nodes(t) > size or t == best_gen["tree"]:
                continue
            g = dict(best_gen, tree=t)
            f = try_gen(g)
            if f is not None and len(f.case["text"]) < len(best.case["text"]):
                best_gen, best, improved = g, f, True
                break
    return best


def _structures():
    import yaml

    with open(os.path.join(REPO, "secsgem", "secs", "functions.yaml"), encoding="utf8") as fh:
        data = yaml.safe_load(fh)
    out = []
    for fn, d in data.items():
        s = d.get("structure")
        if s is None:
            out.append((fn, None))
        elif isinstance(s, str):
            out.append((fn, s))
        else:
            for i, x in enumerate(s):
                out.append((f"{fn}#{i}", x))
    return out


def _catalogue_task(ctx):
    for fn, s in _structures():
        if s is None:
            ctx.count("catalogue:function-without-structure")
            continue
        tree = sfdl.parse(s, NAMESET)
        und = sfdl.undefined_keys(tree)
        if sfdl.collisions(tree):
            ctx.exclude("catalogue-structure-with-colliding-documented-keys", 1)
            continue
        if und:
            ctx.count("catalogue:structure-with-undocumented-key(wildcard)")
        case = {"text": s, "mut": None, "wild": True}
        ctx.case(case, sfdl.depth(tree) >= 3 or sfdl.has_named_list(tree) or "#" in s, ["catalogue:structure", f"catalogue-depth:{sfdl.depth(tree)}"])
        ctx.report(check_case(case, ctx, wildcard_ok=True))
        # every catalogue structure also with each single closing bracket removed / each name replaced
        toks = tokens_of(tree)
        gaps = [""] + [" "] * (len(toks) - 1) + [""]
        orig = join(gaps, toks)
        for op in ("drop-close", "unknown-name", "drop-open", "lower-l", "case-item"):
            nsites = len([t for t in toks if t[0] in {"drop-close": ("close", "iclose"), "drop-open": ("open",), "lower-l": ("L",)}.get(op, ("item",))])
            for i in range(nsites):
                mt = mutate(gaps, toks, op, i, UNKNOWN_POOL[(i * 7 + len(fn)) % len(UNKNOWN_POOL)])
                if mt is None:
                    continue
                mcase = {"text": mt, "mut": {"op": op, "orig": orig}, "wild": True}
                ctx.case(mcase, True, [f"catalogue:mut:{op}"])
                ctx.report(check_case(mcase, ctx, wildcard_ok=True))


def _doc_blocks():
    path = os.path.join(REPO, "docs", "firststeps", "sfdl.md")
    if not os.path.exists(path):
        path = "/repo/docs/firststeps/sfdl.md"  # mutant scratch copies hold the package only
    text = open(path, encoding="utf8").read()
    blocks = re.findall(r"```\{code-block\}\n:caption:[^\n]*\n\n(.*?)```", text, re.S)
    return blocks


def _doc_task(ctx):
    blocks = _doc_blocks()
    if len(blocks) != 10:
        raise AssertionError(f"expected 10 code blocks in sfdl.md, found {len(blocks)}")
    for b in blocks:
        tree = sfdl.parse(b, NAMESET)
        case = {"text": b, "mut": None}
        ctx.case(case, sfdl.depth(tree) >= 3 or sfdl.has_named_list(tree) or "#" in b, ["doc-example"])
        ctx.report(check_case(case, ctx))


def _small_task(ctx):
    """Every tree of depth <= 3 / width <= 2 over two items and optional names (document layout): all small shapes."""
    a, b = "SVID", "TRID"

    def gen(d, tag):
        yield {"t": "item", "name": a}
        if d == 0:
            return
        subs = list(gen(d - 1, tag + "x"))
        for nm in (None, "N" + tag):
            for s in subs:
                yield {"t": "list", "name": nm, "m": [s]}
            for s in subs:
                yield {"t": "list", "name": nm, "m": [{"t": "item", "name": b}, s]}
                yield {"t": "list", "name": nm, "m": [s, {"t": "item", "name": b}]}

    n = 0
    for tree in gen(3, ""):
        tree = json.loads(json.dumps(tree))
        if sfdl.undefined_keys(tree):
            ctx.exclude("small-exhaustive:undefined-key-nesting", 1)
            continue
        if sfdl.collisions(tree):
            ctx.exclude("small-exhaustive:sibling-key-collision", 1)
            continue
        toks = tokens_of(tree)
        text = join([""] + [" "] * (len(toks) - 1) + [""], toks)
        case = {"text": text, "mut": None}
        ctx.case(case, sfdl.depth(tree) >= 3 or sfdl.has_named_list(tree), ["small-exhaustive"])
        ctx.report(check_case(case, ctx))
        n += 1
    ctx.count("small-exhaustive:trees", n)


# ---- new API differential (counted, not reported)


def _newapi_shape(struct):
    if isinstance(struct, dict):
        return {"r": [[k, _newapi_shape(v)] for k, v in struct.items()]}
    if isinstance(struct, list):
        return {"a": _newapi_shape(struct[0])} if len(struct) == 1 else f"!list-of-{len(struct)}"
    name = getattr(struct, "name", None)
    return name if isinstance(name, str) else f"!{type(struct).__name__}"


def check_newapi(case):
    import pathlib

    from secsgem.secs import data_item, function

    desc = _NEWAPI.get("d")
    if desc is None:
        desc = _NEWAPI["d"] = data_item.DataItemDescriptors.from_yaml(pathlib.Path(data_item.default_yaml_path))
    tree = sfdl.parse(case["text"], NAMESET)
    try:
        ds = function.DataStructure(case["text"], desc)
    except Exception as exc:
        return Failure(f"newapi:wellformed-rejected:{type(exc).__name__}", case, _exc(exc), json.dumps(sfdl.shape(tree))[:300])
    diffs = []
    compare(tree, _newapi_shape(ds.struct), None, "$", diffs, attrib=False)
    if not diffs:
        return None
    b, path, exp, got = diffs[0]
    return Failure("newapi:" + b, case, f"at {path}: {json.dumps(got)[:300]}", json.dumps(exp)[:300])


_NEWAPI = {}


def _newapi_task(kw, ctx):
    try:
        from secsgem.secs import function  # noqa: F401
    except Exception as exc:
        ctx.note(f"new-API reader secsgem.secs.function not importable ({type(exc).__name__}); differential skipped")
        return
    witnesses = {}

    def body(gen):
        gen = dict(gen, mut=None)
        case, meta = build_case(gen, {})
        f = check_newapi(case)
        ctx.count("newapi:agrees-with-document" if f is None else f.bucket)
        if f is not None and (f.bucket not in witnesses or len(case["text"]) < len(witnesses[f.bucket])):
            witnesses[f.bucket] = case["text"]
        if NEWAPI_AS_FAILURE:
            cls, nontrivial = classes_of(case, meta)
            ctx.case(case, nontrivial, ["newapi-case"])
            return f
        return None

    ctx.hyp(cases(max_depth=4), body, kw["n"], seed_offset=77)
    for fn, s in _structures():
        if s is not None:
            f = check_newapi({"text": s, "mut": None})
            ctx.count("newapi:catalogue:agrees" if f is None else f.bucket.replace("newapi:", "newapi:catalogue:", 1))
    for b in sorted(witnesses):
        ctx.note(f"new-API DataStructure (outside the anchors, counted only) disagrees with the document: {b}, e.g. {' '.join(witnesses[b].split())[:120]!r}")


# ---- atheris


def _fuzz_task(kw, ctx):
    deps = os.path.join(os.path.dirname(os.path.dirname(os.path.dirname(os.path.abspath(__file__)))), ".deps")
    env = dict(os.environ)
    env["PYTHONPATH"] = os.pathsep.join([p for p in [env.get("PYTHONPATH", ""), deps] if p])
    probe = subprocess.run([sys.executable, "-c", "import atheris"], env=env, capture_output=True, text=True)
    if probe.returncode != 0:
        ctx.note("atheris not importable (run `bash /verif/setup.sh`): fuzz task skipped")
        return
    import tempfile

    out = tempfile.mkdtemp(prefix="vf_c19_fz_")
    res = os.path.join(out, "result.json")
    try:
        budget = max(20, int(ctx.time_left() - 60))
        cmd = [
            sys.executable, "-m", "vf.fuzz.fz_sfdl", f"--result={res}", f"--known={json.dumps(sorted(ctx.known_keys))}",
            f"-runs={kw['runs']}", f"-seed={ctx.seed * 131 + kw['shard'] + 1}", f"-max_total_time={budget}", "-max_len=220",
            "-timeout=20", "-verbosity=0", "-print_final_stats=0", "-only_ascii=1",
        ]  # fmt: skip
        r = subprocess.run(cmd, env=env, capture_output=True, text=True, cwd=out, timeout=budget + 120)
        if not os.path.exists(res):
            raise RuntimeError(f"fuzz target produced no result file (exit {r.returncode}): {r.stderr[-1500:]}")
        data = json.load(open(res))
        ctx.evals += data["execs"]
        for k, v in data["classes"].items():
            ctx.count("fuzz:" + k, v)
        for h in data["nontrivial"]:
            ctx.nontrivial.add(bytes.fromhex(h))
        for k, v in data["known_hits"].items():
            ctx.known_hits[k] += v
        for n in data["notes"]:
            ctx.note(n)
        for f in data["failures"]:
            ctx.report(Failure(f["bucket"], f["case"], f["observed"], f["expected"]))
    finally:
        import shutil

        shutil.rmtree(out, ignore_errors=True)


# --------------------------------------------------------------------------------------------


def replay(case, ctx):
    if case.get("pair"):
        return check_pair(dict(case))
    if case.get("newapi"):
        return check_newapi(case)
    return check_case(case, ctx, wildcard_ok=bool(case.get("wild")))
