"""C14 - the Item API (secsgem.secs.items) agrees with SEMI E5 and with the variables API on every value.

Case kinds (all plain JSON data, see `replay`):

  build   {"kind":"build","node":NODE}
          NODE is a typed node  {"f":fmt,"v":[...]|"pat":[...],"n":N,"form":FORM}  -> ItemX(<python value in FORM>)
                 a typed list   {"f":"L","v":[NODE...],"form":"list"|"dict"}         -> ItemL([...]) / ItemL({...})
              or a plain node   {"p":"int"|"bool"|"str"|"bytes"|"float"|"list","x":...}
          Children of a list are handed over as Item objects (typed nodes) or as plain python values (plain
          nodes, type chosen by Item.from_value).  A plain node at the top goes through Item.from_value.
  decode  {"kind":"decode","item":RAW,"via":"Item"|"class"|"packet"}
          RAW is a gen.items tree whose nodes may carry "lb" (extra, non-minimal length bytes) and whose
          BOOLEAN elements are raw bytes 0..255; it is encoded with the reference header/payload functions.
  biglist {"kind":"biglist","n":N,"mode":"plain"|"items"|"decode","lb":k}    lists with N elements (255..65536)
  header  {"kind":"header","f":fmt,"length":n}      Item.encode_item_header / header decoder for one length

Buckets are root-cause keys: a failing list is re-checked member by member and the smallest failing member is
reported; wrong leading header bytes of an encoding are `item-header`; a decode that only fails with extra length bytes is
`decode-nonminimal-length-bytes:<n>`; an ItemL that only fails in dict form is `itemL-dict-form`.
Two buckets describe defects present in the unchanged tree (see the Deliverables / known_findings.json):
  itemb-list-int-zero-fill   ItemB([1,2,3]) stores bytes(1)+bytes(2)+bytes(3) = six zero bytes
  item-float-nan-rejected    ItemF4/ItemF8 reject NaN on construction and on decode (variables.F4 encodes it)

Oracle (independent: vf/ref/e5.py and integer ranges computed here):
  * ItemX(v).encode() is valid E5 (reference decoder), denotes the model tree, and is byte-identical to the
    canonical reference encoding; .value equals v (floats by bit pattern of their format; a one-element numeric /
    boolean item may be reported as the scalar or as the one-element list - docs/secs/items.md shows the scalar);
    Item.decode(own bytes) gives the same type/bytes/value.
  * differential: secsgem.secs.variables object of the same typed tree encodes to the same bytes.
  * Item.from_value: bool->BOOLEAN, int->narrowest U* (n>=0) / I* (n<0), str->A, bytes->B, list->L; value
    unchanged; ints outside [-2^63, 2^64) raise.
  * Item.decode(valid E5 bytes, any length-byte count) -> class of the format code, re-encodes canonically
    (minimal length bytes, booleans 0/1), value equals the reference decode.

Corrections (things the statement does not demand, so the oracle does not either):
  * python floats given to Item.from_value: the statement lists bool/int/str/bytes/list only.  The library picks
    F4 whenever |x| <= FLT_MAX (docs: 2.5 -> F4), which silently rounds e.g. 0.1 to binary32 on the wire.  The
    check accepts F4 or F8 and compares after the chosen format's rounding; lossy picks are only counted
    (class `from_value-float-lossy`).
  * +-inf is rejected by both APIs alike (declared finite limits); non-finite values are generated as NaN only
    (the variables API accepts and encodes NaN, so the two APIs can be compared there).
  * only constructor forms that validate_value accepts are generated: no tuple/bytearray, no int for F4/F8,
    str for B/A/J only with characters of the type's repertoire (B: ASCII, where utf-8 is the identity).
  * consumption of a PacketData tail and ItemX.decode on another type's bytes are not part of the statement.
  * ItemX.from_value / DataItemDescriptor.generate ignore the class they are called on (always python-type driven);
    surprising, but the statement speaks about Item.from_value only.
"""

from __future__ import annotations

import random

from hypothesis import strategies as st

from vf import sgvars as sg
from vf.gen import items as gi
from vf.ref import e5
from vf.run import Failure, HarnessError

PROPERTY = "C14"
LEVEL = "exploration"
TECHNIQUE = (
    "property-based testing (Hypothesis) against an independent E5 reference codec + differential testing "
    "against secsgem.secs.variables + boundary/header enumeration"
)
RULE = (
    "Cases: (a) build - typed nodes for all 15 Item classes in every constructor form validate_value accepts "
    "(scalar, list, bytes, str, int lists / byte chunks / mixed lists for B, bool and 0/1 lists for BOOLEAN, "
    "nested lists and dicts of Items and plain values for L) and plain python values through Item.from_value "
    "(bool, ints at every width boundary of both signs and out of range, floats, str, bytes, nested lists); "
    "(b) decode - reference encodings of generated trees with minimal and non-minimal length bytes, raw "
    "boolean bytes, through Item.decode / ItemX.decode / PacketData; (c) boundary payload lengths 255/256/"
    "65535/65536 (+-1 element) for every type and for list element counts, thorough also 16777215-byte A and B "
    "items; (d) encode_item_header / header decode over sampled (quick) or all 2^24 (thorough) lengths. Trees nest "
    "up to 3 levels wide and up to 10 (quick) / 20 (thorough) levels as chains. Oracle: bytes == ref.e5 canonical "
    "encoding, ref.e5 decodes them to the model, .value equals the input (floats by bit pattern), decode(re-encode) "
    "canonical, same bytes as the secsgem.secs.variables object of the same typed tree, from_value type = "
    "narrowest U/I width computed from the ranges. Non-trivial = list-form constructor input, or an integer at a "
    "width boundary, or a payload at a length-byte boundary / non-minimal length bytes, or nesting >= 2; "
    "distinct by hash of the plain case."
)
ASSUMPTIONS = [
    "reference codec vf/ref/e5.py (format codes, length bytes, big-endian payload) is correct; it has hand-computed vectors",
    "python doubles given to F4 are expected to be rounded to nearest binary32 (struct semantics)",
    "a one-element numeric/boolean item may report .value as scalar or one-element list (documented example shows scalar)",
    "type choice of Item.from_value for python floats is not pinned (statement lists bool/int/str/bytes/list)",
    "NaN is a value of F4/F8 (IEEE 754, accepted by the variables API); +-inf is not generated",
]
BUDGET_S = {"quick": 100, "thorough": 1200}
GRACE_S = 300  # watchdog slack after the budget: a shrink in progress (bounded by the runner) may finish on a loaded machine
EXHAUSTIVE_NOTE = (
    "thorough: Item.encode_item_header and the header decoder over all 16777216 lengths; quick: +-3 around every "
    "threshold plus 60000 sampled. All from_value integers within +-2 of every power-of-two boundary in both tiers."
)

FMT15 = ["L"] + gi.SCALARS
KNOWN_B_LIST = "itemb-list-int-zero-fill"
KNOWN_NAN = "item-float-nan-rejected"


# --------------------------------------------------------------------------------------------
# library access


def item_cls(fmt):
    from secsgem.secs import items

    return getattr(items, "Item" + fmt)


def fmt_of_obj(obj):
    for f in FMT15:
        if type(obj) is item_cls(f):
            return f
    return f"?{type(obj).__name__}"


def narrowest_int(n):
    """E5 integer format that Item.from_value must choose - from the ranges, not from the library."""
    if n >= 0:
        for bits, f in ((8, "U1"), (16, "U2"), (32, "U4"), (64, "U8")):
            if n < (1 << bits):
                return f
        return None
    for bits, f in ((8, "I1"), (16, "I2"), (32, "I4"), (64, "I8")):
        if n >= -(1 << (bits - 1)):
            return f
    return None


# --------------------------------------------------------------------------------------------
# node -> python constructor input + model


def forms_of(f, n, el):
    if f in e5.INTS or f in e5.FLOATS:
        return ["list"] + (["scalar"] if n == 1 else [])
    if f == "BOOLEAN":
        return ["list", "ints"] + (["scalar", "int"] if n == 1 else [])
    if f == "B":
        forms = ["bytes", "list", "chunks", "mixed"]
        if all(x < 128 for x in el):
            forms += ["str", "strs"]
        if n == 1:
            forms.append("int")
        return forms
    return ["str", "bytes"]


LIST_FORMS = ("list", "ints", "chunks", "mixed", "strs", "dict")


def _b_parts(el, form):
    """ItemB list forms: the list of elements handed to the constructor."""
    if form == "list":
        return [int(x) for x in el]
    if form == "chunks":
        return [bytes(el[i : i + 2]) for i in range(0, len(el), 2)]
    if form == "strs":
        return [bytes(el[i : i + 2]).decode("ascii") for i in range(0, len(el), 2)]
    out = []  # mixed
    for i, x in enumerate(el):
        if i % 3 == 0:
            out.append(int(x))
        elif i % 3 == 1 or x >= 128:
            out.append(bytes([x]))
        else:
            out.append(chr(x))
    return out


def leaf_py(node):
    """(python constructor input, model leaf) of a typed leaf node."""
    f, form = node["f"], node["form"]
    if f == "F4" and "d" in node:  # python doubles that are not binary32 values
        xs = [e5.bits_f8(b) for b in node["d"]]
        model = {"f": "F4", "v": [e5.f4_bits(x) for x in xs]}
        return (xs if form == "list" else xs[0]), model
    el = gi.expand(node)
    model = {"f": f, "v": el}  # pattern nodes are expanded once (the model is internal, not part of the case)
    if f in e5.INTS:
        vals = [int(x) for x in el]
    elif f in e5.FLOATS:
        vals = [e5.bits_float(f, b) for b in el]
    elif f == "BOOLEAN":
        if form in ("ints", "int"):
            vals = [int(x) for x in el]
            form = "list" if form == "ints" else "scalar"
        else:
            vals = [bool(x) for x in el]
    elif f == "B":
        raw = bytes(el)
        if form == "bytes":
            return raw, model
        if form == "str":
            return raw.decode("ascii"), model
        if form == "int":
            return raw[0], model
        return _b_parts(list(raw), form), model
    else:
        raw = bytes(el)
        if form == "bytes":
            return raw, model
        return (e5.jis8_to_str(raw) if f == "J" else e5.latin1_to_str(raw)), model
    if form == "list":
        return vals, model
    if form == "scalar":
        return vals[0], model
    raise HarnessError(f"bad form {form} for {f}")


class _Fail(Exception):
    def __init__(self, failure):
        super().__init__(failure.bucket)
        self.failure = failure


def _exc(e):
    return f"{type(e).__name__}: {e}"[:300]


def _nan_in(model):
    for lf in gi.leaves_of(model):
        if lf["f"] in e5.FLOATS:
            for b in lf["v"] if "v" in lf else lf["pat"]:
                if not e5.is_finite_bits(lf["f"], b):
                    return True
    return False


def construct(node, case, top=False):
    """-> (python value or Item object to hand to the parent, model).  Typed nodes are built here."""
    if "p" in node:
        k, x = node["p"], node["x"]
        if k == "int":
            f = narrowest_int(x)
            return int(x), {"f": f, "v": [int(x)], "src": "plain:int"}
        if k == "bool":
            return bool(x), {"f": "BOOLEAN", "v": [1 if x else 0], "src": "plain:bool"}
        if k == "str":
            return "".join(chr(c) for c in x), {"f": "A", "v": list(x), "src": "plain:str"}
        if k == "bytes":
            return bytes(x), {"f": "B", "v": list(x), "src": "plain:bytes"}
        if k == "float":
            return e5.bits_f8(x), {"f": "F?", "x": x, "src": "plain:float"}
        if k == "list":
            pys, models = [], []
            for s in x:
                p, m = construct(s, case)
                pys.append(p)
                models.append(m)
            return pys, {"f": "L", "v": models, "src": "plain:list"}
        raise HarnessError(f"bad plain kind {k}")
    f, form = node["f"], node["form"]
    where = f"{f}/{form}"
    if f == "L":
        pys, models = [], []
        for s in node["v"]:
            p, m = construct(s, case)
            pys.append(p)
            models.append(m)
        model = {"f": "L", "v": models, "src": "typed:" + form}
        arg = {f"k{i}": p for i, p in enumerate(pys)} if form == "dict" else pys
    else:
        arg, model = leaf_py(node)
        model["src"] = "typed:" + form
    try:
        obj = item_cls(f)(arg)
    except Exception as exc:
        if f in e5.FLOATS and _nan_in(model) and isinstance(exc, ValueError) and "nan" in str(exc).lower():
            raise _Fail(Failure(KNOWN_NAN, case, _exc(exc), "NaN accepted (IEEE 754 value; variables API accepts it)"))
        raise _Fail(Failure(f"construct:{type(exc).__name__}:{where}", case, _exc(exc), "value accepted"))
    return obj, model


# --------------------------------------------------------------------------------------------
# model <-> reference tree of the produced bytes


def _b_defect_prediction(model):
    """What ItemB's list form produces if bytes(int) (n zero bytes) is applied to int elements."""
    form = model.get("src", "")[6:]
    if model["f"] != "B" or form not in ("list", "mixed"):
        return None
    parts = _b_parts(list(gi.expand(model)), form)
    return b"".join(bytes(p) if isinstance(p, int) else (p if isinstance(p, bytes) else p.encode()) for p in parts)


def match(model, tree, case, path="$"):
    """Compare the model with the reference decode of secsgem's bytes; resolve from_value float types.

    Returns the resolved model (no "F?"), raises _Fail at the first difference with a root-cause bucket.
    """
    f = model["f"]
    src = model.get("src", "")
    tf, tp = tree
    if f == "F?":
        x = e5.bits_f8(model["x"])
        if tf == "F8" and tp == [model["x"]]:
            return {"f": "F8", "v": [model["x"]], "src": src}
        if tf == "F4":
            try:
                b = e5.f4_bits(x)
            except OverflowError:
                b = None
            if b is not None and tp == [b]:
                return {"f": "F4", "v": [b], "src": src, "lossy": e5.bits_f4(b) != x}
        raise _Fail(Failure("from-value-type:float", case, f"{tf} {tp!r:.80} at {path}", f"F4 or F8 holding {x!r}"))
    if tf != f:
        if src.startswith("plain:"):
            raise _Fail(Failure(f"from-value-type:{src[6:]}", case, f"{tf} at {path}", f"{f} for {_short_model(model)}"))
        raise _Fail(Failure(f"encode-format-code:{f}", case, f"{tf} at {path}", f))
    if f == "L":
        if len(tp) != len(model["v"]):
            raise _Fail(Failure(f"encode-list-length:{src}", case, f"{len(tp)} elements at {path}", len(model["v"])))
        out = [match(m, t, case, f"{path}[{i}]") for i, (m, t) in enumerate(zip(model["v"], tp))]
        return {"f": "L", "v": out, "src": src}
    exp = gi.to_ref(model)[1]
    if tp != exp:
        pred = _b_defect_prediction(model)
        if pred is not None and bytes(tp) == pred:
            raise _Fail(
                Failure(KNOWN_B_LIST, case, f"B payload {bytes(tp)[:24].hex()} ({len(tp)} bytes) at {path}", f"{bytes(exp)[:24].hex()} ({len(exp)} bytes)")
            )
        raise _Fail(Failure(f"encode-payload:{f}/{src[6:]}", case, f"{_short_payload(tp)} at {path}", _short_payload(exp)))
    return model


def _short_payload(p):
    if isinstance(p, (bytes, bytearray)):
        return f"{bytes(p[:24]).hex()}{'..' if len(p) > 24 else ''} ({len(p)} bytes)"
    return repr(p[:6]) + (f".. ({len(p)} elements)" if len(p) > 6 else "")


def _short_model(m):
    return f"{m['f']}:{m.get('v', m.get('x'))!r:.60}"


def value_ok(got, model):
    """`.value` of an item holding `model` (C01's value relation; one-element unwrapping allowed either way)."""
    f = model["f"]
    if f == "L":
        return isinstance(got, list) and len(got) == len(model["v"]) and all(value_ok(g, m) for g, m in zip(got, model["v"]))
    el = gi.expand(model)
    if f == "B":
        return sg.same_value(got, bytes(el))
    if f == "A":
        return sg.same_value(got, e5.latin1_to_str(bytes(el)))
    if f == "J":
        return sg.same_value(got, e5.jis8_to_str(bytes(el)))
    if f in e5.INTS:
        exp = [int(x) for x in el]
    elif f in e5.FLOATS:
        exp = [("bits", f, b) for b in el]
    else:
        exp = [bool(x) for x in el]
    if len(exp) == 1 and not isinstance(got, list):
        return sg.same_value(got, exp[0])
    return sg.same_value(got, exp)


def _value_repr(model):
    f = model["f"]
    if f == "L":
        return [_value_repr(m) for m in model["v"]]
    el = gi.expand(model)
    if len(el) > 8:
        return f"{f} x{len(el)}: {list(el[:8])}.."
    return f"{f}: {list(el)}"


def strip_src(model):
    if model["f"] == "L":
        return {"f": "L", "v": [strip_src(m) for m in model["v"]]}
    return {k: model[k] for k in ("f", "v", "pat", "n") if k in model}


# --------------------------------------------------------------------------------------------
# the oracle for a built item


def _where(node):
    if "p" in node:
        return f"from_value/{node['p']}"
    return f"{node['f']}/{node['form']}"


def _expected_header(model):
    """Canonical header of the top node (None while a from_value float type is unresolved)."""
    f = model["f"]
    if f == "F?":
        return None
    if f == "L":
        return e5.header("L", len(model["v"]))
    n = len(model["v"]) if "v" in model else model["n"]
    return e5.header(f, n * e5.WIDTH.get(f, 1))


def check_item(obj, model, case, where, differential=True):
    """All demands on an item object that is supposed to hold `model`."""
    try:
        got = obj.encode()
    except Exception as exc:
        return Failure(f"encode-raises:{type(exc).__name__}:{where}", case, _exc(exc), "bytes")
    if not isinstance(got, bytes):
        return Failure(f"encode-not-bytes:{where}", case, type(got).__name__, "bytes")
    try:
        tree = e5.decode_all(got)
    except e5.E5Error as exc:
        hdr = _expected_header(model)
        if hdr is not None and not got.startswith(hdr):
            return Failure("item-header", case, got[: len(hdr)].hex(), hdr.hex())
        return Failure(f"encode-invalid-e5:{where}", case, f"{_exc(exc)}; bytes {got[:32].hex()}", "valid E5 item")
    try:
        model = match(model, tree, case)
    except _Fail as f:
        return f.failure
    clean = strip_src(model)
    expect = e5.encode(gi.to_ref(clean))
    if got != expect:  # same tree, so only the headers can differ
        hdr = _expected_header(clean)
        if not got.startswith(hdr):
            return Failure("item-header", case, got[: len(hdr)].hex(), hdr.hex())
        return Failure(f"encode-noncanonical:{where}", case, got[:48].hex(), expect[:48].hex())
    if fmt_of_obj(obj) != model["f"]:
        return Failure(f"object-type:{where}", case, type(obj).__name__, "Item" + model["f"])
    try:
        val = obj.value
    except Exception as exc:
        return Failure(f"value-raises:{where}", case, _exc(exc), "value")
    if not value_ok(val, model):
        return Failure(f"value-mismatch:{where}", case, repr(val)[:300], repr(_value_repr(model))[:300])
    # own encoding is a valid encoding: decode gives the same thing back
    f = check_decoded(got, clean, case, "Item", f"own:{where}")
    if f is not None:
        return f
    if differential:
        try:
            other = var_encode(clean)
        except Exception as exc:
            return Failure(f"differential-variables-raises:{model['f']}", case, _exc(exc), "variables API encodes the same typed value")
        if other != got:
            return Failure(f"differential:{model['f']}", case, f"items {got[:40].hex()}", f"variables {other[:40].hex()}")
    return model


def var_encode(clean):
    """Bytes of the secsgem.secs.variables object for the same typed tree.

    Lists are Array(ANYVALUE, [typed members]).  ANYVALUE deliberately has no JIS-8 member, so a list with a J
    leaf somewhere below is composed from the variables API's own list header and its members' encodings.
    """
    if clean["f"] != "L" or not any(lf["f"] == "J" for lf in gi.leaves_of(clean)):
        return sg.typed_obj(clean).encode()
    from secsgem.secs import variables
    from secsgem.secs.variables.dynamic import ANYVALUE

    return variables.Array(ANYVALUE).encode_item_header(len(clean["v"])) + b"".join(var_encode(m) for m in clean["v"])


def check_decoded(data, clean, case, via, where):
    """Item.decode(data) must be an item of the right class holding `clean`, re-encoding canonically."""
    from secsgem.secs import items
    from secsgem.secs.packet_data import PacketData

    f = clean["f"]
    try:
        if via == "class":
            obj = item_cls(f).decode(data)
        elif via == "packet":
            obj = items.Item.decode(PacketData(data + b"\x00\xff"))
        else:
            obj = items.Item.decode(data)
    except Exception as exc:
        if _nan_in(clean) and isinstance(exc, ValueError) and "nan" in str(exc).lower():
            return Failure(KNOWN_NAN, case, _exc(exc), "decodes a valid F4/F8 item holding NaN")
        return Failure(f"decode-raises:{type(exc).__name__}:{where}", case, _exc(exc), "decodes valid E5")
    if fmt_of_obj(obj) != f:
        return Failure(f"decode-type:{where}", case, type(obj).__name__, "Item" + f)
    expect = e5.encode(gi.to_ref(clean))
    try:
        re = obj.encode()
    except Exception as exc:
        return Failure(f"decode-reencode-raises:{where}", case, _exc(exc), expect[:48].hex())
    if re != expect:
        hdr = _expected_header(clean)
        if not re.startswith(hdr):
            return Failure("item-header", case, f"decoded item re-encodes with header {re[: len(hdr)].hex()}", hdr.hex())
        return Failure(f"decode-reencode:{where}", case, re[:48].hex(), expect[:48].hex())
    try:
        val = obj.value
    except Exception as exc:
        return Failure(f"decode-value-raises:{where}", case, _exc(exc), "value")
    if not value_ok(val, clean):
        return Failure(f"decode-value:{where}", case, repr(val)[:300], repr(_value_repr(clean))[:300])
    return None


def check_build(case, info=None):
    """-> Failure | None.  `info` (dict) receives coverage facts of a passing case."""
    f = _check_build(case, info)
    if f is None:
        return None
    # root-cause localisation: if a member of a list fails on its own, report that (smaller, self-contained) case
    node = case["node"]
    kids = node["x"] if node.get("p") == "list" else node["v"] if node.get("f") == "L" else []
    for s in kids:
        sub = check_build({"kind": "build", "node": s})
        if sub is not None:
            return sub
    if node.get("f") == "L" and node.get("form") == "dict":
        if _check_build({"kind": "build", "node": dict(node, form="list")}, None) is None:
            return Failure("itemL-dict-form", case, f.observed, f.expected)
    return f


def _check_build(case, info):
    from secsgem.secs import items

    node = case["node"]
    where = _where(node)
    if node.get("p") == "int" and narrowest_int(node["x"]) is None:
        # outside [-2^63, 2^64): no E5 integer type holds it
        try:
            obj = items.Item.from_value(int(node["x"]))
        except Exception:
            return None
        return Failure("from-value-out-of-range-accepted", case, repr(obj)[:100], "raises")
    try:
        arg, model = construct(node, case, top=True)
    except _Fail as f:
        return f.failure
    if "p" in node:
        try:
            obj = items.Item.from_value(arg)
        except Exception as exc:
            return Failure(f"from-value-raises:{type(exc).__name__}:{node['p']}", case, _exc(exc), "item")
    else:
        obj = arg
    res = check_item(obj, model, case, where, differential=case.get("diff", True))
    if isinstance(res, Failure):
        return res
    if info is not None:
        for m in _walk_model(res):
            if m.get("src") == "plain:float":
                info.setdefault("classes", []).append("from_value-float:" + m["f"])
                if m.get("lossy"):
                    info["classes"].append("from_value-float-lossy")
    return None


def _walk_model(m):
    yield m
    if m["f"] == "L":
        for s in m["v"]:
            yield from _walk_model(s)


# --------------------------------------------------------------------------------------------
# decode cases


def raw_encode(node):
    """Reference encoding of a raw tree: per-node extra length bytes, raw boolean bytes."""
    f = node["f"]
    if f == "L":
        body = b"".join(raw_encode(s) for s in node["v"])
        n = len(node["v"])
    else:
        el = gi.expand(node)
        body = bytes(el) if f in ("BOOLEAN", "A", "J", "B") else e5.payload_bytes(f, el)
        n = len(body)
    nlb = min(3, e5.min_nlb(n) + node.get("lb", 0))
    return e5.header(f, n, nlb) + body


def canon(node):
    """The item a raw tree denotes: no length-byte wishes, booleans normalised, patterns expanded once."""
    f = node["f"]
    if f == "L":
        return {"f": "L", "v": [canon(s) for s in node["v"]]}
    el = gi.expand(node)
    if f == "BOOLEAN":
        el = [1 if b else 0 for b in el]
    return {"f": f, "v": el}


def check_decode(case):
    raw = case["item"]
    data = raw_encode(raw)
    clean = canon(raw)
    if e5.decode_all(data) != gi.to_ref(clean):
        raise HarnessError("decode case: reference decoder disagrees with the generated tree")
    via = case.get("via", "Item")
    if case.get("poison"):
        # the decoder has just refused a series of damaged encodings (truncated copies of this one): what it does with the
        # next VALID encoding must not depend on that history
        from secsgem.secs.item import Item

        for i in range(case["poison"]):
            cut = 1 + (i * 7) % max(1, len(data) - 1)
            try:
                Item.decode(data[:cut])
            except Exception:  # noqa: BLE001 - damaged input: any outcome but a hang is fine
                pass
    f = check_decoded(data, clean, case, via, raw["f"])
    if f is None or f.bucket == KNOWN_NAN:
        return f
    if case.get("poison"):
        fresh = check_decode({k: v for k, v in case.items() if k != "poison"})
        if fresh is None or fresh.bucket != f.bucket:
            return Failure("decode-depends-on-earlier-refused-input:" + f.bucket.split(":")[0], case, f.observed, f.expected)
    # root-cause localisation: a member that fails on its own; else the number of length bytes of this node
    if raw["f"] == "L":
        for s in raw["v"]:
            sub = check_decode({"kind": "decode", "item": s, "via": via})
            if sub is not None:
                return sub
    if raw.get("lb"):
        plain = {k: v for k, v in raw.items() if k != "lb"}
        if check_decode({"kind": "decode", "item": plain, "via": via}) is None:
            n = len(raw["v"]) if "v" in raw else raw["n"]
            nlb = min(3, e5.min_nlb(n * e5.WIDTH.get(raw["f"], 1)) + raw["lb"])
            return Failure(f"decode-nonminimal-length-bytes:{nlb}", case, f.observed, f.expected)
    return f


# --------------------------------------------------------------------------------------------
# big lists (element count at a length-byte boundary)


def check_biglist(case):
    from secsgem.secs import items

    n, mode, lb = case["n"], case["mode"], case.get("lb", 0)
    clean = {"f": "L", "v": [{"f": "U1", "v": [i % 251]} for i in range(n)]}
    if mode == "decode":
        raw = dict(clean, lb=lb)
        data = raw_encode(raw)
        return check_decoded(data, clean, case, "Item", "L")
    try:
        if mode == "plain":
            obj = items.ItemL([i % 251 for i in range(n)])
        else:
            obj = items.ItemL([items.ItemU1(i % 251) for i in range(n)])
    except Exception as exc:
        return Failure(f"construct:{type(exc).__name__}:L/big", case, _exc(exc), "accepted")
    model = {"f": "L", "v": [dict(m, src="plain:int" if mode == "plain" else "typed:scalar") for m in clean["v"]], "src": "typed:list"}
    res = check_item(obj, model, case, "L/big", differential=n <= 300)
    return res if isinstance(res, Failure) else None


# --------------------------------------------------------------------------------------------
# header enumeration


def _hdr_objs():
    objs = {}
    for f in FMT15:
        if f == "L":
            objs[f] = item_cls(f)([])
        elif f in ("A", "J"):
            objs[f] = item_cls(f)("")
        elif f == "B":
            objs[f] = item_cls(f)(b"")
        else:
            objs[f] = item_cls(f)([])
    return objs


def _hdr_one(o, f, length, dec):
    from secsgem.secs.packet_data import PacketData

    exp = e5.header(f, length)
    got = o.encode_item_header(length)
    if got != exp:
        return got.hex(), exp.hex()
    if dec is not None:
        for nlb in range(e5.min_nlb(length), 4):
            h = e5.header(f, length, nlb)
            pd = PacketData(h + b"\x5a")
            r = tuple(dec(pd))
            if r != (e5.CODES[f], length) or pd.get(2) != b"\x5a":
                return f"decode of {h.hex()} -> {r}", (e5.CODES[f], length)
    return None


def check_header(case):
    from secsgem.secs import items

    f, length = case["f"], case["length"]
    o = _hdr_objs()[f]
    dec = getattr(items.Item, "_decode_item_header", None)
    try:
        bad = _hdr_one(o, f, length, dec)
    except Exception as exc:
        bad = (_exc(exc), e5.header(f, length).hex())
    if bad:
        return Failure("item-header", case, bad[0], bad[1])
    return None


def _header_task(kw, ctx):
    from secsgem.secs import items

    objs = _hdr_objs()
    dec = getattr(items.Item, "_decode_item_header", None)
    if dec is None:
        ctx.note("Item._decode_item_header not present: header decode only covered through Item.decode cases")
    rnd = random.Random(ctx.seed + 13)
    fmts = list(objs)
    nf = len(fmts)
    if kw["mode"] == "sampled":
        lengths = set()
        for thr in (0, 255, 256, 65535, 65536, 16777215):
            for d in range(-3, 4):
                if 0 <= thr + d <= 0xFFFFFF:
                    lengths.add(thr + d)
        lengths |= {rnd.randrange(0, 1 << 24) for _ in range(kw.get("n", 60000))}
        lengths = sorted(lengths)
    else:
        lo = (1 << 24) * kw["shard"] // kw["of"]
        hi = (1 << 24) * (kw["shard"] + 1) // kw["of"]
        lengths = range(lo, hi)
    bad = None
    n = 0
    for i, length in enumerate(lengths):
        f = fmts[(i + (length >> 8)) % nf] if kw["mode"] == "all" else fmts[rnd.randrange(nf)]
        try:
            r = _hdr_one(objs[f], f, length, dec)
        except Exception as exc:
            r = (_exc(exc), e5.header(f, length).hex())
        n += 1
        if r and bad is None:
            bad = Failure("item-header", {"kind": "header", "f": f, "length": length}, r[0], r[1])
        if (i & 0xFFFF) == 0 and ctx.out_of_time():
            break
    ctx.evals += n
    ctx.classes["header_lengths_checked"] += n
    if kw["mode"] == "all":
        ctx.classes["header_exhaustive_shards_done"] += 1
    for thr in (255, 256, 65535, 65536, 16777215):
        if thr in lengths:
            ctx.nontrivial.add(f"hdr{thr}".encode())
    # lengths outside 0..2^24-1 cannot be written in three length bytes: must not produce a header
    for length in (-1, 1 << 24, (1 << 24) + 5):
        try:
            h = objs["B"].encode_item_header(length)
        except Exception:
            continue
        if bad is None:
            bad = Failure("item-header-accepts-impossible-length", {"kind": "header-bad", "length": length}, h.hex(), "raises")
    ctx.report(bad)


def check_header_bad(case):
    try:
        h = _hdr_objs()["B"].encode_item_header(case["length"])
    except Exception:
        return None
    return Failure("item-header-accepts-impossible-length", case, h.hex(), "raises")


# --------------------------------------------------------------------------------------------
# strategies (plain data)

INT_EDGES = sorted(
    {0, 1, -1}
    | {(1 << k) + d for k in (7, 8, 15, 16, 31, 32, 63, 64) for d in (-2, -1, 0, 1) if (1 << k) + d < (1 << 64)}
    | {-(1 << k) + d for k in (7, 15, 31, 63) for d in (-1, 0, 1, 2) if -(1 << k) + d >= -(1 << 63)}
)
INT_OUT = [1 << 64, (1 << 64) + 1, -(1 << 63) - 1, -(1 << 63) - 2, 1 << 70, -(1 << 70), 1 << 128]


def _weighted(*pairs):
    """Pick a branch with explicit weights (one_of flattens and de-duplicates nested branches, which skews them)."""
    idx = [i for i, (w, _) in enumerate(pairs) for _ in range(w)]
    strats = [s for _, s in pairs]

    @st.composite
    def _w(draw):
        return draw(strats[draw(st.sampled_from(idx))])

    return _w()


def is_int_edge(n):
    for k in (8, 16, 32, 64):
        if abs(n - (1 << k)) <= 2 or abs(n + (1 << (k - 1))) <= 2 or abs(n - (1 << (k - 1))) <= 2:
            return True
    return False


def plain_int():
    return _weighted(
        (2, st.sampled_from(INT_EDGES)),
        (1, st.integers(-(1 << 63), (1 << 64) - 1)),
        (1, st.integers(-70000, 70000)),
        (1, st.builds(lambda k, d, s: max(-(1 << 63), min((1 << 64) - 1, s * (1 << k) + d)), st.integers(0, 64), st.integers(-3, 3), st.sampled_from([1, -1]))),
    ).map(lambda n: {"p": "int", "x": n})


def plain_float():
    f8 = gi.float_bits_elems("F8")
    via4 = gi.float_bits_elems("F4").map(lambda b: e5.f8_bits(e5.bits_f4(b)))  # binary32-representable doubles
    return st.one_of(f8, via4, st.sampled_from([e5.f8_bits(x) for x in (0.0, 2.5, 0.1, -0.1, 3.4028234663852886e38, 3.5e38, 1e-46, 1.7976931348623157e308)])).map(
        lambda b: {"p": "float", "x": b}
    )


def plain_scalar():
    return _weighted(
        (4, plain_int()),
        (1, st.booleans().map(lambda b: {"p": "bool", "x": 1 if b else 0})),
        (1, st.lists(gi.byte_elems("A"), max_size=6).map(lambda v: {"p": "str", "x": v})),
        (1, st.lists(gi.byte_elems("B"), max_size=6).map(lambda v: {"p": "bytes", "x": v})),
        (1, plain_float()),
    )


GENERATE_NAN = True  # NaN elements in F4/F8 leaves (about 1 float leaf in 8 may hold one)

_STRATS = {}  # strategies are built once per process (building composites per draw dominates the run time otherwise)

ALL_FORMS = {f: forms_of(f, 1, [0]) for f in gi.SCALARS}


def _elems(f, nan=False, ascii_only=False):
    key = ("el", f, nan, ascii_only)
    if key not in _STRATS:
        _STRATS[key] = st.one_of(st.sampled_from([0, 9, 32, 34, 65, 92, 126, 127]), st.integers(0, 127)) if ascii_only else gi.elems(f, nan)
    return _STRATS[key]


def _counts(max_n):
    return st.one_of(st.sampled_from([0, 1, 1, 2, 3]), st.integers(0, max_n))


def _leaf_any(max_n=8):
    """Same population as gi.leaf (uniform type, gi.elems element pools), NaN only in about 1 float leaf of 8."""
    key = ("leaf", max_n)
    if key not in _STRATS:
        counts = _counts(max_n)

        @st.composite
        def _leaf(draw):
            f = draw(st.sampled_from(gi.SCALARS))
            n = draw(counts)
            nan = GENERATE_NAN and f in e5.FLOATS and draw(st.integers(0, 7)) == 0
            return {"f": f, "v": draw(st.lists(_elems(f, nan), min_size=n, max_size=n))}

        _STRATS[key] = _leaf()
    return _STRATS[key]


def typed_leaf(max_n=8):
    """Typed leaf node: type uniform, then constructor form uniform among the type's forms, then a fitting value."""
    key = ("typed", max_n)
    if key not in _STRATS:
        counts = _counts(max_n)

        @st.composite
        def _s(draw):
            f = draw(st.sampled_from(gi.SCALARS))
            form = draw(st.sampled_from(ALL_FORMS[f]))
            n = 1 if form in ("scalar", "int") else draw(counts)
            nan = GENERATE_NAN and f in e5.FLOATS and draw(st.integers(0, 7)) == 0
            el = _elems(f, nan, ascii_only=(f == "B" and form in ("str", "strs")))
            return {"f": f, "v": draw(st.lists(el, min_size=n, max_size=n)), "form": form}

        _STRATS[key] = _s()
    return _STRATS[key]


def f4_doubles():
    lim = 3.4028234663852886e38
    return st.builds(
        lambda xs, form: {"f": "F4", "d": [e5.f8_bits(x) for x in xs], "form": form if len(xs) == 1 else "list"},
        st.lists(st.floats(min_value=-lim, max_value=lim, allow_nan=False, allow_infinity=False, width=64), min_size=1, max_size=3),
        st.sampled_from(["list", "scalar"]),
    )


def node(depth, width=4):
    """Build-case nodes nesting at most `depth` lists."""
    key = ("node", depth, width)
    if key not in _STRATS:
        if depth <= 0:
            _STRATS[key] = _weighted((5, typed_leaf()), (3, plain_scalar()), (1, f4_doubles()))
        else:
            kids = st.lists(node(depth - 1, width), max_size=width)
            typed_l = st.builds(lambda v, form: {"f": "L", "v": v, "form": form}, kids, st.sampled_from(["list", "list", "dict"]))
            plain_l = kids.map(lambda v: {"p": "list", "x": v})
            _STRATS[key] = _weighted((3, typed_leaf()), (2, plain_scalar()), (3, typed_l), (2, plain_l))
    return _STRATS[key]


def node_chain(max_depth):
    """A chain of nested lists (typed list / dict / plain python list) with a few members along the way."""
    key = ("nchain", max_depth)
    if key not in _STRATS:
        leaf = node(0)
        sibs = st.lists(leaf, max_size=1)

        @st.composite
        def _c(draw):
            nd = draw(leaf)
            for _ in range(draw(st.integers(4, max_depth))):
                kids = draw(sibs) + [nd] + draw(sibs)
                kind = draw(st.sampled_from(["list", "list", "dict", "plain"]))
                nd = {"p": "list", "x": kids} if kind == "plain" else {"f": "L", "v": kids, "form": kind}
            return nd

        _STRATS[key] = _c()
    return _STRATS[key]


def raw_chain(max_depth):
    key = ("rchain", max_depth)
    if key not in _STRATS:
        leaf = raw_tree(0)
        sibs = st.lists(leaf, max_size=1)

        @st.composite
        def _c(draw):
            nd = draw(leaf)
            for _ in range(draw(st.integers(4, max_depth))):
                nd = _with_lb(draw(sibs) + [nd] + draw(sibs), draw(st.sampled_from([0, 0, 0, 1, 2])))
            return nd

        _STRATS[key] = _c()
    return _STRATS[key]


def _raw_leaf():
    leaves = _leaf_any(8)

    @st.composite
    def _leaf(draw):
        item = draw(leaves)
        out = {"f": item["f"], "v": item["v"]}
        if item["f"] == "BOOLEAN" and draw(st.booleans()):
            out["v"] = [draw(st.sampled_from([0, 1, 1, 2, 127, 128, 255])) for _ in item["v"]]
        lb = draw(st.sampled_from([0, 0, 0, 1, 2]))
        if lb:
            out["lb"] = lb
        return out

    return _leaf()


def _with_lb(v, lb):
    out = {"f": "L", "v": v}
    if lb:
        out["lb"] = lb
    return out


def raw_tree(depth, width=4):
    """Decode-case trees nesting at most `depth` lists; nodes may ask for extra length bytes."""
    key = ("raw", depth, width)
    if key not in _STRATS:
        if depth <= 0:
            _STRATS[key] = _raw_leaf()
        else:
            lst = st.builds(_with_lb, st.lists(raw_tree(depth - 1, width), max_size=width), st.sampled_from([0, 0, 0, 1, 2]))
            _STRATS[key] = _weighted((1, raw_tree(0, width)), (2, lst))
    return _STRATS[key]


# --------------------------------------------------------------------------------------------
# coverage classes / non-triviality


def _walk_nodes(node_):
    yield node_
    kids = node_["x"] if node_.get("p") == "list" else node_["v"] if node_.get("f") == "L" else []
    for s in kids:
        yield from _walk_nodes(s)


def _depth(node_):
    if node_.get("p") == "list":
        return 1 + max((_depth(s) for s in node_["x"]), default=0)
    if node_.get("f") == "L":
        return 1 + max((_depth(s) for s in node_["v"]), default=0)
    return 0


def build_classes(node_):
    out, nt = ["kind:build", "top:" + ("from_value" if "p" in node_ else "ctor")], False
    d = _depth(node_)
    out.append(f"depth:{min(d, 5)}")
    nt = d >= 2
    for s in _walk_nodes(node_):
        if "p" in s:
            out.append("plain:" + s["p"])
            if s["p"] == "int":
                f = narrowest_int(s["x"])
                out.append("from_value-int:" + (f or "out-of-range"))
                if is_int_edge(s["x"]):
                    out.append("from_value-int:edge")
                    nt = True
            continue
        f = s["f"]
        out.append(f"form:{f}/{s['form']}")
        if s["form"] in LIST_FORMS:
            nt = True
        if f != "L":
            if "d" in s:
                out.append("f4-from-double")
                continue
            n = len(s["v"]) if "v" in s else s["n"]
            out.append("n=0" if n == 0 else "n=1" if n == 1 else "n>1")
            if gi.has_numeric_boundary(s) or gi.crosses_length_boundary(s):
                nt = True
    return out, nt


def decode_classes(raw, via):
    out, nt = ["kind:decode", "via:" + via], False
    d = gi.depth(raw)
    out.append(f"depth:{min(d, 5)}")
    nt = d >= 2

    def rec(nd):
        nonlocal nt
        n = len(nd["v"]) if "v" in nd else nd["n"]
        nbytes = n * e5.WIDTH.get(nd["f"], 1)
        nlb = min(3, e5.min_nlb(nbytes) + nd.get("lb", 0))
        out.append(f"dec:{nd['f']}")
        out.append(f"nlb:{nlb}" + ("" if nlb == e5.min_nlb(nbytes) else "-nonminimal"))
        if nd.get("lb"):
            nt = True
        if nd["f"] == "L":
            for s in nd["v"]:
                rec(s)
        else:
            if nd["f"] == "BOOLEAN" and any(b > 1 for b in (nd["v"] if "v" in nd else nd["pat"])):
                out.append("bool-raw>1")
            if gi.has_numeric_boundary(nd) or gi.crosses_length_boundary(nd):
                nt = True

    rec(raw)
    return out, nt


# --------------------------------------------------------------------------------------------
# tasks


def plan(tier, seed):
    quick = tier == "quick"
    tasks = []
    # slow single cases first so that they overlap with the generated search
    if not quick:
        tasks.append(("huge", {"f": "A"}))
        tasks.append(("huge", {"f": "B"}))
    if quick:
        # one 65536-element list costs seconds in PacketData (it re-slices the rest of the packet per byte)
        tasks.append(("biglist", {"ns": [65535], "modes": ["plain"], "lbs": [0]}))
        tasks.append(("biglist", {"ns": [65536], "modes": ["items"], "lbs": [0]}))
        tasks.append(("biglist", {"ns": [65535], "modes": ["decode"], "lbs": [1]}))
        tasks.append(("biglist", {"ns": [65536], "modes": ["decode"], "lbs": [0]}))
    else:
        for n in (65535, 65536):
            for mode in ("plain", "items"):
                tasks.append(("biglist", {"ns": [n], "modes": [mode], "lbs": [0]}))
            for lb in (0, 1):
                tasks.append(("biglist", {"ns": [n], "modes": ["decode"], "lbs": [lb]}))
    for i in range(4):
        tasks.append(("boundary", {"shard": i, "of": 4}))
    tasks.append(("ints", {}))
    tasks.append(("biglist", {"ns": [0, 1, 254, 255, 256, 257], "modes": ["plain", "items", "decode"], "lbs": [0, 1, 2]}))
    if quick:
        tasks.append(("header", {"mode": "sampled", "n": 60000}))
    else:
        for i in range(16):
            tasks.append(("header", {"mode": "all", "shard": i, "of": 16}))
    per_b = 700 if quick else 12000
    per_d = 450 if quick else 12000
    for i in range(16):
        tasks.append(("build", {"shard": i, "n": per_b}))
        tasks.append(("decode", {"shard": i, "n": per_d}))
    return tasks


def _pattern(f, rnd):
    if f in e5.INTS:
        lo, hi = e5.int_range(f)
        return [lo, hi, 0, rnd.randint(lo, hi), 1]
    if f == "F4":
        return [0x7F7FFFFF, 0x00000001, 0x80000000, rnd.getrandbits(31) & 0x7F0FFFFF, 0xFF7FFFFF]
    if f == "F8":
        return [0x7FEFFFFFFFFFFFFF, 0x0000000000000001, 0x8000000000000000, rnd.getrandbits(62) & 0x7FDFFFFFFFFFFFFF]
    if f == "BOOLEAN":
        return [1, 0, 0, 1, 1]
    return [0, 255, 65, rnd.randrange(256), 0x5C, 0xB1, 0x7E]


CHUNK = 2000


def _hyp_chunks(ctx, strat, body, n, offset):
    """ctx.hyp in chunks: once the budget is used up Hypothesis still draws every remaining example of a run
    (the body just returns), so a run is kept short; each chunk has its own seed offset (deterministic)."""
    k = 0
    while n > 0 and not ctx.out_of_time():
        ctx.hyp(strat, body, min(n, CHUNK), seed_offset=offset + 1000 * k, max_buckets=2)
        n -= CHUNK
        k += 1


def run_task(name, kw, ctx):
    if name == "build":
        max_chain = 10 if ctx.tier == "quick" else 20
        out_of_range = st.one_of(st.sampled_from(INT_OUT), st.integers(1 << 64, 1 << 80), st.integers(-(1 << 80), -(1 << 63) - 1)).map(lambda n: {"p": "int", "x": n})
        strat = _weighted((8, node(0)), (4, node(1)), (4, node(2)), (4, node(3)), (1, node_chain(max_chain)), (1, out_of_range)).map(
            lambda n: {"kind": "build", "node": n}
        )

        ctx.note("+-inf is never generated (both APIs reject it alike); NaN is generated in about 1 float leaf of 8")
        ctx.note("Item.from_value(float): type not pinned by the statement; F4 or F8 accepted, lossy F4 picks counted in class from_value-float-lossy")
        ctx.note("str input for B/A/J only with characters of the type's repertoire (B: ASCII); tuple/bytearray/int-for-float inputs are not accepted forms and not generated")

        def body(case):
            classes, nt = build_classes(case["node"])
            info = {}
            f = check_build(case, info)
            ctx.case(case, nt, classes + info.get("classes", []))
            return f

        _hyp_chunks(ctx, strat, body, kw["n"], kw["shard"])
    elif name == "decode":
        max_chain = 10 if ctx.tier == "quick" else 20
        strat = st.builds(
            lambda t, via, poison: dict({"kind": "decode", "item": t, "via": via}, **({"poison": poison} if poison and t["f"] == "L" else {})),
            _weighted((4, raw_tree(0)), (2, raw_tree(1)), (2, raw_tree(2)), (2, raw_tree(3)), (1, raw_chain(max_chain))),
            st.sampled_from(["Item", "Item", "class", "packet"]),
            st.sampled_from([0] * 12 + [5, 40, 400]),
        )

        def body(case):
            classes, nt = decode_classes(case["item"], case["via"])
            if case.get("poison"):
                classes = classes + ["decode-after-refused-damaged-inputs"]
            ctx.case(case, nt, classes)
            return check_decode(case)

        _hyp_chunks(ctx, strat, body, kw["n"], 100 + kw["shard"])
    elif name == "ints":
        rnd = random.Random(ctx.seed + 3)
        xs = list(INT_EDGES) + list(INT_OUT)
        xs += [rnd.randint(-(1 << 63), (1 << 64) - 1) for _ in range(200)]
        xs += [rnd.choice([1, -1]) * rnd.getrandbits(rnd.randint(1, 63)) for _ in range(600)]
        for x in xs:
            for wrap in (False, True):
                nd = {"p": "int", "x": x}
                if wrap:
                    if narrowest_int(x) is None:
                        continue
                    nd = {"p": "list", "x": [{"p": "bool", "x": 1}, nd, {"p": "list", "x": [nd]}]}
                case = {"kind": "build", "node": nd}
                classes, nt = build_classes(nd)
                ctx.case(case, nt or narrowest_int(x) is None, classes + ["task:ints"])
                ctx.report(check_build(case))
    elif name == "boundary":
        rnd = random.Random(ctx.seed + 5)
        jobs = []
        for f in gi.SCALARS:
            for n in gi.boundary_counts(f):
                jobs.append((f, n, _pattern(f, rnd), rnd.random()))
        for idx, (f, n, pat, r) in enumerate(jobs):
            if idx % kw["of"] != kw["shard"]:
                continue
            if ctx.out_of_time():
                return
            forms = forms_of(f, n, pat)
            # mixed/strs forms of B build python lists element by element - keep them for the small sizes
            if n > 70000:
                forms = [x for x in forms if x in ("bytes", "str", "list")]
            form = forms[int(r * len(forms))]
            nbytes = n * e5.WIDTH.get(f, 1)
            case = {"kind": "build", "node": {"f": f, "pat": pat, "n": n, "form": form}, "diff": True}
            ctx.case(case, True, [f"boundary-build:{f}", f"nbytes:{nbytes}", f"form:{f}/{form}"])
            ctx.report(check_build(case))
            for lb in range(0, 4 - e5.min_nlb(nbytes)):
                via = ("Item", "class", "packet")[(idx + lb) % 3]
                raw = {"f": f, "pat": pat, "n": n}
                if lb:
                    raw["lb"] = lb
                case = {"kind": "decode", "item": raw, "via": via}
                ctx.case(case, True, [f"boundary-decode:{f}", f"nbytes:{nbytes}", f"nlb:{e5.min_nlb(nbytes) + lb}"])
                ctx.report(check_decode(case))
    elif name == "biglist":
        for n in kw["ns"]:
            for mode in kw["modes"]:
                for lb in kw["lbs"] if mode == "decode" else (0,):
                    if e5.min_nlb(n) + lb > 3:
                        continue
                    if ctx.out_of_time():
                        return
                    case = {"kind": "biglist", "n": n, "mode": mode, "lb": lb}
                    ctx.case(case, n >= 255, [f"biglist:{n}:{mode}"])
                    ctx.report(check_biglist(case))
    elif name == "header":
        _header_task(kw, ctx)
    elif name == "huge":
        rnd = random.Random(ctx.seed + 7)
        f, n = kw["f"], 16777215  # the largest payload three length bytes can announce
        case = {"kind": "build", "node": {"f": f, "pat": _pattern(f, rnd), "n": n, "form": "bytes"}, "diff": True}
        ctx.case(case, True, [f"huge:{f}:{n}"])
        ctx.report(check_build(case))
    else:
        raise HarnessError(f"unknown task {name}")


def replay(case, ctx):
    k = case.get("kind")
    if k == "build":
        return check_build(case)
    if k == "decode":
        return check_decode(case)
    if k == "biglist":
        return check_biglist(case)
    if k == "header":
        return check_header(case)
    if k == "header-bad":
        return check_header_bad(case)
    raise HarnessError(f"unknown case kind {k!r}")
