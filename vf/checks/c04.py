"""C04 - HSMS frames are bit-exact and reassembled independently of TCP segmentation.

(a) codec: HsmsMessage/HsmsBlock encode == ref.e37 frame and decode back to identical fields, over the header space.
(b) reassembly: the real HsmsProtocol + real TcpServerConnection on simulated sockets under detsim, SELECTED; a
    generated frame sequence is cut into generated segments; every message must be delivered once, in order.
Data frames use catalogued S/F with well-formed bodies so that C08's decode-before-dispatch behaviour cannot
interfere; Linktest.req frames give a second observation channel (their responses).
"""

from __future__ import annotations

import random

from hypothesis import strategies as st

from vf import hsmsrig
from vf.ref import e5, e37
from vf.run import Failure

PROPERTY = "C04"
LEVEL = "exploration"
TECHNIQUE = "property-based testing with generated stream partitions and schedules under a deterministic scheduler; header-space enumeration against an independent E37 codec"
RULE = (
    "codec: header fields over their E37 ranges (W x stream x function x SType enumerated, session/PType/system/body "
    "sampled) compared with ref.e37 in both directions. reassembly: 1..12 frames (catalogued data messages with valid "
    "bodies of 0..70000 bytes, Linktest.req) concatenated and cut by a generated partition (classes: single bytes, cuts "
    "inside length field / header / body, several frames per segment, frame-aligned, whole), segments sent with "
    "generated bursts and a generated thread schedule; oracle: message_received sequence == sent data frames and "
    "Linktest.rsp sequence == sent Linktest.req, same order, none lost/duplicated/merged, no deadlock. Non-trivial = "
    "partition cutting inside a length field or header, or >= 2 frames in one segment, or >= 8 single-byte segments; "
    "distinct by (frames, cuts, bursts, schedule) hash."
)
ASSUMPTIONS = [
    "vf/ref/e37.py frame layout typed in from SEMI E37 (4-byte length, session, W|stream, function, PType, SType, system)",
    "simulated sockets deliver bytes in order; recv(1024) chunking is the real TcpConnection code",
    "thread interleavings are sampled at shim operations (lock/event/queue/socket calls), not below",
]
BUDGET_S = {"quick": 100, "thorough": 900}
EXHAUSTIVE_NOTE = "thorough: all 589824 combinations of W x stream x function x SType; quick: a 1/16 stride of them"

SESSION = 0


def _body(kind, n, fill):
    if kind == "S7F3":
        return e5.encode(("L", [("A", b"pp"), ("B", bytes((fill + i) & 0xFF for i in range(n)))]))
    if kind == "S10F3":
        return e5.encode(("L", [("B", bytes([fill & 0xFF])), ("A", bytes(32 + ((fill + i) % 90) for i in range(n)))]))
    if kind == "S6F12":
        return e5.encode(("B", bytes([fill & 0x3F])))
    if kind == "S1F13":
        return e5.encode(("L", []))
    return b""


KINDS = {
    "S1F1": (1, 1, 1),
    "S1F13": (1, 13, 1),
    "S2F17": (2, 17, 1),
    "S6F12": (6, 12, 0),
    "S10F3": (10, 3, 1),
    "S7F3": (7, 3, 1),
}


def frame_bytes(fr):
    if fr["k"] == "LT":
        return e37.control_frame(e37.LINKTEST_REQ, fr["sys"])
    s, f, w = KINDS[fr["k"]]
    return e37.data_frame(SESSION, s, f, w, fr["sys"], _body(fr["k"], fr.get("n", 0), fr.get("fill", 0)))


def _n_for_frame_len(kind, target):
    """Payload size n such that the whole frame of `kind` is exactly `target` bytes long (None if impossible)."""
    for n in range(max(0, target - 40), target):
        if len(frame_bytes({"k": kind, "sys": 1, "n": n, "fill": 0})) == target:
            return n
    return None


_EXACT = [n for n in (_n_for_frame_len("S7F3", t) for t in (1024, 2048, 3072, 1023, 1025)) if n is not None]


def frames_strategy(max_frames=12, big=False):
    # recv() reads 1024 bytes at a time: frames whose total length is exactly a multiple of that are a boundary class
    sizes = st.one_of(st.sampled_from([0, 1, 2, 200, 255, 256, 1000, 1023, 1024, 1025] + _EXACT + _EXACT), st.integers(0, 3000))
    if big:
        sizes = st.one_of(sizes, st.sampled_from([65535, 65536, 70000]))

    def mk(i, k, n, fill):
        d = {"k": k, "sys": 0x20000 + i}
        if k in ("S7F3", "S10F3"):
            d["n"] = n
        if k in ("S7F3", "S10F3", "S6F12"):
            d["fill"] = fill
        return d

    one = st.tuples(st.sampled_from(["LT", "S1F1", "S1F13", "S2F17", "S6F12", "S10F3", "S7F3", "S7F3"]), sizes, st.integers(0, 255))
    return st.lists(one, min_size=1, max_size=max_frames).map(lambda l: [mk(i, k, n, f) for i, (k, n, f) in enumerate(l)])


@st.composite
def case_strategy(draw, big=False):
    if draw(st.integers(0, 5)) == 0:
        # focused family: one segment whose frame boundaries coincide with the 1024-byte recv() chunks - the TCP receiver
        # thread appends the next chunk while the protocol thread, preempted inside the buffer / framing code, is taking
        # out a frame that is at that moment exactly the whole buffer
        exact = [n for n in (_n_for_frame_len("S7F3", t) for t in (1024, 2048)) if n is not None]
        frames = []
        for i in range(draw(st.integers(1, 3))):
            frames.append({"k": "S7F3", "sys": 0x20000 + i, "n": draw(st.sampled_from(exact)), "fill": draw(st.integers(0, 255))})
        for k in draw(st.lists(st.sampled_from(["LT", "S1F1", "S6F12", "S10F3"]), min_size=1, max_size=4)):
            d = {"k": k, "sys": 0x20000 + len(frames)}
            if k == "S10F3":
                d["n"] = draw(st.integers(0, 40))
            if k in ("S10F3", "S6F12"):
                d["fill"] = draw(st.integers(0, 255))
            frames.append(d)
        sched = {"seed": draw(st.integers(1, 2**31)), "switch": draw(st.sampled_from([0.3, 0.7])), "pprob": draw(st.sampled_from([0.1, 0.3, 0.5])),
                 "hot": ["pop", "peek", "__len__", "_process_received_data"]}
        return {"frames": frames, "cuts": [], "bursts": [0], "sched": sched, "mode": "chunk-race"}
    if draw(st.integers(0, 7)) == 0:
        # focused family: small frames, cuts only ON frame boundaries (some segments carry several frames, some exactly one),
        # every following segment arrives a few scheduling steps later - while the protocol thread, preempted inside the
        # framing loop, may hold a frame it has taken out of the buffer but not yet handed on
        frames = []
        for i, k in enumerate(draw(st.lists(st.sampled_from(["LT", "S1F1", "S6F12", "S10F3", "S2F17"]), min_size=3, max_size=7))):
            d = {"k": k, "sys": 0x20000 + i}
            if k == "S10F3":
                d["n"] = draw(st.integers(0, 30))
            if k in ("S10F3", "S6F12"):
                d["fill"] = draw(st.integers(0, 255))
            frames.append(d)
        lens = [len(frame_bytes(f)) for f in frames]
        starts = [sum(lens[:i]) for i in range(1, len(lens))]
        cuts = sorted(s for s in starts if draw(st.sampled_from([True, True, False])))
        bursts = [draw(st.sampled_from([2, 3, 4, 6, 9, 13, 20, 30, 45])) for _ in range(len(cuts) + 1)]
        sched = {"seed": draw(st.integers(1, 2**31)), "switch": draw(st.sampled_from([0.3, 0.7])), "pprob": draw(st.sampled_from([0.1, 0.3, 0.5])),
                 "hot": ["_process_received_data", "pop", "queue_block", "_on_connection_data_received"]}
        return {"frames": frames, "cuts": cuts, "bursts": bursts, "sched": sched, "mode": "whole-frame-race"}
    frames = draw(frames_strategy(big=big))
    lens = [len(frame_bytes(f)) for f in frames]
    total = sum(lens)
    starts = [sum(lens[:i]) for i in range(len(lens))]
    mode = draw(st.sampled_from(["random", "bytes", "lenfield", "header", "body", "aligned", "whole", "mixed", "k1024"]))
    cuts = set()
    if mode in ("random", "mixed"):
        cuts |= set(draw(st.lists(st.integers(1, max(1, total - 1)), max_size=12)))
    if mode in ("bytes", "mixed"):
        a = draw(st.integers(0, max(0, total - 2)))
        ln = draw(st.integers(8, 40))
        cuts |= set(range(a + 1, min(total, a + ln)))
    if mode in ("lenfield", "mixed"):
        for s in starts:
            if draw(st.booleans()):
                cuts.add(s + draw(st.integers(1, 3)))
    if mode in ("header", "mixed"):
        for s in starts:
            if draw(st.booleans()):
                cuts.add(s + draw(st.integers(4, 13)))
    if mode == "body":
        for s, l in zip(starts, lens):
            if l > 15 and draw(st.booleans()):
                cuts.add(s + draw(st.integers(14, l - 1)))
    if mode == "k1024":
        # segments of exactly 1024*k bytes (what one or several full recv(1024) calls return)
        pos = draw(st.integers(0, 1023))
        while pos < total:
            cuts.add(pos)
            pos += 1024 * draw(st.integers(1, 3))
    if mode == "aligned":
        cuts |= {s for s in starts if s > 0 and draw(st.booleans())}
    cuts = sorted(c for c in cuts if 0 < c < total)
    nseg = len(cuts) + 1
    bmode = draw(st.sampled_from(["bool", "bool", "steps"]))
    if nseg > 64:
        bursts = [False] * nseg
    elif bmode == "bool":
        bursts = draw(st.lists(st.booleans(), min_size=nseg, max_size=nseg))
    else:
        bursts = draw(st.lists(st.sampled_from([0, 1, 2, 3, 4, 6, 9, 13, 20, 30, 45, 70]), min_size=nseg, max_size=nseg))
    sched = draw(
        st.one_of(
            st.just({"seed": 0}),
            st.builds(lambda s, p: {"seed": s, "switch": p}, st.integers(1, 2**31), st.sampled_from([0.05, 0.3, 0.7])),
            # line-level (parked) preemptions inside the receive buffer and the framing loop: the TCP receiver thread appends
            # the next segment while the protocol thread is in the middle of looking at / taking bytes out of the buffer
            st.builds(lambda s, p, pp: {"seed": s, "switch": p, "pprob": pp, "hot": list(HOT)}, st.integers(1, 2**31), st.sampled_from([0.3, 0.7]), st.sampled_from([0.02, 0.1, 0.3])),
        )
    )
    return {"frames": frames, "cuts": cuts, "bursts": [int(b) for b in bursts], "sched": sched, "mode": mode}


HOT = ("pop", "peek", "append", "wait_for", "pop_byte", "wait_for_byte", "__len__", "clear", "_process_received_data", "_on_connection_data_received", "queue_block")


def classify(case):
    frames = case["frames"]
    lens = [len(frame_bytes(f)) for f in frames]
    starts = [sum(lens[:i]) for i in range(len(lens))]
    total = sum(lens)
    cuts = case["cuts"]
    cls = [f"mode:{case['mode']}"]
    in_len = in_hdr = in_body = 0
    for c in cuts:
        for s, l in zip(starts, lens):
            if s < c < s + l:
                off = c - s
                if off < 4:
                    in_len += 1
                elif off < 14:
                    in_hdr += 1
                else:
                    in_body += 1
    bounds = [0] + cuts + [total]
    multi = 0
    singles = 0
    for a, b in zip(bounds, bounds[1:]):
        if b - a == 1:
            singles += 1
        if sum(1 for s in starts if a <= s < b) >= 2:
            multi += 1
    if in_len:
        cls.append("cut-in-length")
    if in_hdr:
        cls.append("cut-in-header")
    if in_body:
        cls.append("cut-in-body")
    if multi:
        cls.append("multi-frame-segment")
    if singles >= 8:
        cls.append("single-bytes>=8")
    if case["sched"].get("seed"):
        cls.append("random-schedule")
    if case["sched"].get("pprob"):
        cls.append("line-preemptions-in-receive-buffer")
    if any(b > 1 for b in case.get("bursts") or []):
        cls.append("segment-arrives-mid-processing")
    if any(f.get("n", 0) > 1024 for f in frames):
        cls.append("body>1024")
    if any(l % 1024 == 0 for l in lens):
        cls.append("frame-length-multiple-of-1024")
    if any((b - a) % 1024 == 0 for a, b in zip(bounds, bounds[1:])):
        cls.append("segment-length-multiple-of-1024")
    nontrivial = bool(in_len or in_hdr or multi or singles >= 8)
    return nontrivial, cls


def run_case(case):
    frames = case["frames"]
    stream = b"".join(frame_bytes(f) for f in frames)
    cuts = case["cuts"]
    bounds = [0] + list(cuts) + [len(stream)]
    segs = [stream[a:b] for a, b in zip(bounds, bounds[1:])]
    bursts = case.get("bursts") or [0] * len(segs)
    with hsmsrig.make_world(case.get("sched", {})) as w:
        rig = hsmsrig.Rig(w, active=False)
        st_, _ = rig.enable()
        if st_ != "done" or not rig.connect_peer() or not rig.select_from_peer():
            return Failure("setup-failed", case, f"enable={st_} state={rig.state()}", "SELECTED")
        rig.frames_out.clear()
        for i, seg in enumerate(segs):
            rig.peer.send(seg)
            b = bursts[i] if i < len(bursts) else 0
            if not b:
                r = w.sim.settle()
            elif b > 1:
                # the next segment arrives after b-1 scheduling steps: in the middle of whatever the endpoint's threads are
                # doing with the previous one
                left = [b - 1]

                def stop(left=left):
                    left[0] -= 1
                    return left[0] < 0

                w.sim.pump(stop=stop)
        r = w.sim.settle()
        rig.drain()
        # let select()-timeouts elapse (0.5 s) without reaching the 30 s linktest timer
        w.sim.advance(2.0)
        rig.drain()
        exp_msgs = []
        exp_lt = []
        for f in frames:
            if f["k"] == "LT":
                exp_lt.append(f["sys"])
            else:
                s, fn, wb = KINDS[f["k"]]
                exp_msgs.append((f["sys"], s, fn, wb, _body(f["k"], f.get("n", 0), f.get("fill", 0)).hex()))
        got_msgs = [(m["system"], m["stream"], m["function"], m["w"], m["body"]) for m in rig.received]
        got_lt = [f["system"] for f in rig.frames_out if f["stype"] == e37.LINKTEST_RSP]
        other = [f for f in rig.frames_out if f["stype"] != e37.LINKTEST_RSP]
        if got_msgs != exp_msgs:
            return Failure(_diff_bucket(got_msgs, exp_msgs), case, _brief(got_msgs), _brief(exp_msgs))
        if got_lt != exp_lt:
            return Failure("linktest-" + _diff_kind(got_lt, exp_lt), case, got_lt, exp_lt)
        if other:
            return Failure("unexpected-outbound-frame", case, [(e37.NAMES.get(f["stype"]), f["system"]) for f in other], "only Linktest.rsp")
        if w.sim.thread_errors:
            return Failure("thread-exception", case, w.sim.thread_errors[:2], "no uncaught exception")
    return None


def _brief(msgs):
    return [(hex(m[0]), f"S{m[1]}F{m[2]}", m[3], len(m[4]) // 2) for m in msgs]


def _diff_kind(got, exp):
    if len(got) < len(exp) and all(g in exp for g in got):
        return "lost"
    if len(got) > len(exp):
        return "duplicated-or-extra"
    if sorted(map(str, got)) == sorted(map(str, exp)):
        return "reordered"
    return "altered"


def _diff_bucket(got, exp):
    return "messages-" + _diff_kind(got, exp)


# ---- codec part


def check_header_case(hc):
    """hc = {session, w, stream, function, ptype, stype, system, n, fill}."""
    import secsgem.hsms

    body = bytes((hc["fill"] + i) & 0xFF for i in range(hc["n"]))
    exp = e37.frame(hc["session"], (hc["w"] << 7) | hc["stream"], hc["function"], hc["ptype"], hc["stype"], hc["system"], body)
    try:
        hdr = secsgem.hsms.HsmsHeader(
            hc["system"], hc["session"], hc["stream"], hc["function"], bool(hc["w"]), hc["ptype"], secsgem.hsms.HsmsSType(hc["stype"])
        )
        msg = secsgem.hsms.HsmsMessage(hdr, body)
        blocks = msg.blocks
        if len(blocks) != 1:
            return Failure("codec-block-count", {"header": hc}, len(blocks), 1)
        got = blocks[0].encode()
    except Exception as exc:
        return Failure("codec-encode-raises", {"header": hc}, repr(exc), exp[:32].hex())
    if got != exp:
        return Failure("codec-encode-mismatch", {"header": hc}, got[:32].hex(), exp[:32].hex())
    try:
        blk = secsgem.hsms.HsmsBlock.decode(exp)
        h = blk.header
        fields = (h.device_id, 1 if h.require_response else 0, h.stream, h.function, h.p_type, h.s_type.value, h.system, bytes(blk.data))
    except Exception as exc:
        return Failure("codec-decode-raises", {"header": hc}, repr(exc), "decodes")
    want = (hc["session"], hc["w"], hc["stream"], hc["function"], hc["ptype"], hc["stype"], hc["system"], body)
    if fields != want:
        return Failure("codec-decode-mismatch", {"header": hc}, fields[:7], want[:7])
    return None


def plan(tier, seed):
    quick = tier == "quick"
    tasks = []
    per = 110 if quick else 4000
    for i in range(16):
        tasks.append(("reasm", {"shard": i, "n": per, "big": (not quick) and i % 4 == 0}))
    for i in range(16):
        tasks.append(("codec", {"shard": i, "of": 16, "stride": 16 if quick else 1}))
    tasks.append(("codec_sampled", {"n": 3000 if quick else 60000}))
    return tasks


def run_task(name, kw, ctx):
    if name == "reasm":

        def body(case):
            nt, cls = classify(case)
            ctx.case(case, nt, cls)
            return run_case(case)

        ctx.hyp(case_strategy(big=kw["big"]), body, kw["n"], seed_offset=kw["shard"])
    elif name == "codec":
        rnd = random.Random(ctx.seed * 7919 + kw["shard"])
        idx = 0
        n = 0
        bad = None
        for stype in e37.STYPES:
            for w in (0, 1):
                for stream in range(128):
                    for function in range(256):
                        idx += 1
                        if idx % kw["of"] != kw["shard"]:
                            continue
                        if kw["stride"] > 1 and (idx // kw["of"]) % kw["stride"] != (ctx.seed % kw["stride"]):
                            continue
                        hc = {
                            "session": rnd.choice([0, 1, 0x7FFF, 0x8000, 0xFFFF, rnd.randrange(65536)]),
                            "w": w,
                            "stream": stream,
                            "function": function,
                            "ptype": rnd.choice([0, 0, 1, 255, rnd.randrange(256)]),
                            "stype": stype,
                            "system": rnd.choice([0, 1, 0x7FFFFFFF, 0x80000000, 0xFFFFFFFF, rnd.getrandbits(32)]),
                            "n": rnd.choice([0, 0, 1, 2, 10]),
                            "fill": rnd.randrange(256),
                        }
                        n += 1
                        f = check_header_case(hc)
                        if f is not None and bad is None:
                            bad = f
                if ctx.out_of_time():
                    break
        ctx.evals += n
        ctx.classes["codec_headers_enumerated"] += n
        ctx.nontrivial.add(f"codec-shard-{kw['shard']}".encode())
        ctx.report(bad)
    elif name == "codec_sampled":
        strat = st.fixed_dictionaries(
            {
                "session": st.one_of(st.sampled_from([0, 0xFFFF, 0x8000]), st.integers(0, 0xFFFF)),
                "w": st.integers(0, 1),
                "stream": st.integers(0, 127),
                "function": st.integers(0, 255),
                "ptype": st.integers(0, 255),
                "stype": st.sampled_from(list(e37.STYPES)),
                "system": st.one_of(st.sampled_from([0, 0xFFFFFFFF, 0x80000000]), st.integers(0, 0xFFFFFFFF)),
                "n": st.one_of(st.sampled_from([0, 1, 255, 256, 65535, 65536, 70000]), st.integers(0, 5000)),
                "fill": st.integers(0, 255),
            }
        )

        def body(hc):
            ctx.case({"header": hc}, hc["n"] >= 255 or hc["session"] >= 0x8000 or hc["system"] >= 0x80000000, ["codec-sampled"])
            return check_header_case(hc)

        ctx.hyp(strat, body, kw["n"], seed_offset=77)


def replay(case, ctx):
    if "header" in case:
        return check_header_case(case["header"])
    return run_case(case)
