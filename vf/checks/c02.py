"""C02 - every valid SEMI E5 item encoding is decoded to the value it denotes.

Reference-first: byte strings come from the independent codec vf/ref/e5.py (never from secsgem's encoder) or are
arbitrary/mutated bytes whose validity is decided ONLY by vf.ref.e5.decode.  Every reference-accepted item whose
format codes the receiving definition allows must be decoded by a FRESH secsgem receiver without exception, consume
exactly the item (also behind a non-zero start offset and in front of a non-empty tail), give get() == the value the
standard assigns, and re-encode to the canonical (minimal length bytes) encoding of that value.

Scope decisions ("Corrections": what the statement does and does not demand)
 * Canonical re-encoding is the canonical encoding of the VALUE.  A BOOLEAN payload byte other than 0 denotes "true"
   (E5: non-zero = true), the canonical encoding of true is 0x01; so 25 01 07 must decode to True and re-encode as
   25 01 01.  The reference decoder already returns bools, so this is simply encode(ref value).
 * "Every finite IEEE-754 float": only finite bit patterns are generated; reference-accepted mutated/fuzzed items
   that contain an infinity or NaN are counted as excluded (out-of-scope:nonfinite-float), not judged.
 * "Every format code the receiving item definition allows": a receiver model `allows(recv, item)` written from the
   definitions decides scope.  ANYVALUE's type list originally omitted JIS8 while Dynamic.decode hands every nested
   list to Array(ANYVALUE), so a J item inside a list received through an unrestricted Dynamic was rejected; that was
   repaired (fix 7df7543: ANYVALUE allows JIS8) and J items are now in scope everywhere the definition allows them.
 * count limits: leaf receivers are used with count -1 or a count >= the number of elements (count 0 is avoided: the
   text/binary classes read it as "unlimited", the numeric ones as "empty only").  Records need exactly as many
   elements as fields.  Arrays are used without count (Array.decode never looks at it).
 * Only fresh receiver objects (Binary.decode of a zero-length item keeps a previous value: not in the statement).
 * Byte strings the reference rejects (length not a multiple of the element width, truncated payloads that the
   text/binary classes silently accept, zero length bytes, unknown format codes ...) are only required to raise or
   return: any exception or any result is fine; hangs are bounded by small inputs (and by libFuzzer -timeout in the
   fuzz shards).
 * Nesting is exercised up to depth 40 (Python recursion is the library's practical limit, far above that).
 * "Never hang" is decided without a clock: Base.decode_item_header is counted (wrapped from outside at run time);
   one decode() of n bytes may read at most 4n+64 item headers (a terminating decoder needs < n+2), more is reported
   as decode-step-bound-exceeded - for reference-rejected bytes as well.

Tasks: gen (Hypothesis, reference-first trees; every drawn tree is checked with its drawn receiver and once more with
another receiver that allows it and the complementary length-byte assignment), mut (mutated/arbitrary bytes), and
deterministic enumerations: matrix (format x count 0/1/many x 1/2/3 length bytes x receiver kind), floats (named
boundary values and every exponent), boolbytes (all 256 payload bytes), boundary (payload lengths around 255/256 and
65535/65536 for every format, each admissible number of length bytes), biglist (element counts 255/256, thorough:
65535/65536), deep (every depth 1..40), fuzz (thorough: 16 atheris shards, vf/fuzz/fz_e5.py; skipped with a note
if atheris cannot be imported).
Buckets are root-cause keys (symptom + raising function or top-level format), never the receiver or the input;
the two repaired defects keep the keys C01 uses (float-above-declared-limit, dynamic-decode-jis8).
"""

from __future__ import annotations

import functools
import json
import os
import random
import shutil
import subprocess
import sys
import tempfile

from hypothesis import strategies as st

from vf.gen import items as gi
from vf.ref import e5
from vf.run import Failure, HarnessError
from vf import sgvars as sg

PROPERTY = "C02"
LEVEL = "exploration"
TECHNIQUE = (
    "reference-first property-based testing (Hypothesis): item trees encoded by an independent E5 codec with 1/2/3 "
    "length bytes per item, decoded by secsgem receivers; mutated/arbitrary bytes judged by the reference decoder; "
    "deterministic boundary enumerations; coverage-guided fuzzing (atheris) with the same oracle in the thorough tier"
)
RULE = (
    "Cases are (receiver definition, byte string) pairs: the byte string is ref.e5.encode(tree) with an independent "
    "choice of 1/2/3 length bytes per item (or mutated/arbitrary bytes, kept only if ref.e5.decode accepts a leading "
    "item), the receiver is Dynamic([]), ANYVALUE, Array(ANYVALUE), a concrete class, Array(cls), a record of data "
    "items, or a Dynamic data item with a restricted type list that allows the item. Oracle: fresh receiver decodes "
    "without exception, consumed == len(item) (with random start offset and tail), get() equals the reference value "
    "(floats by bit pattern), encode() == ref.e5.encode(value) with minimal length bytes. Non-trivial = some header "
    "uses more length bytes than needed, or a float has an extreme exponent (0, 1, max), or depth >= 3, or a Dynamic "
    "position holds a format other than its first (default) type; distinct by hash of the plain case."
)
ASSUMPTIONS = [
    "reference codec vf/ref/e5.py written from SEMI E5 (format codes, length bytes, big-endian payload) is correct; it has hand-computed vectors",
    "BOOLEAN: any non-zero payload byte denotes true and the canonical encoding of true is 0x01",
    "a list nested inside a Dynamic/ANYVALUE receiver is received by ANYVALUE, whose definition does not allow JIS8",
    "non-finite float patterns are outside the statement ('every finite IEEE-754 float')",
]
BUDGET_S = {"quick": 110, "thorough": 1200}
GRACE_S = 180

NOJ = list(gi.SCALARS)  # historical name: J is allowed under ANYVALUE since fix 7df7543
FORMAT_BYTES = [(c << 2) | n for c in sorted(e5.NAMES) for n in (1, 1, 2, 3, 0)]

DYN_ALL = {"k": "dyn", "types": [], "direct": True}
DYN_ALL_ITEM = {"k": "dyn", "types": []}
ANY = {"k": "any"}
ARRAY_ANY = {"k": "array", "of": {"k": "any"}}


# --------------------------------------------------------------------------------------------
# receiver model (written from the definitions, does not call secsgem)


def _any_ok(it):
    f, p = it
    return f != "L" or all(_any_ok(s) for s in p)  # ANYVALUE lists every type incl. JIS8 (since fix 7df7543)


def allows(recv, it):
    """Does the receiving definition allow the reference item `it` = (fmt, payload)?"""
    f, p = it
    k = recv["k"]
    if k == "any":
        return _any_ok(it)
    if k == "dyn":
        if recv["types"] and f not in recv["types"]:
            return False
        c = recv.get("count", -1)
        if f != "L" and c > 0 and len(p) > c:  # Dynamic's count = max number of ELEMENTS of the typed value
            return False
        return f != "L" or all(_any_ok(s) for s in p)
    if k == "leaf":
        if f != recv["f"]:
            return False
        c = recv.get("count", -1)
        return c < 0 or (c > 0 and len(p) <= c)
    if k == "array":
        return f == "L" and all(allows(recv["of"], s) for s in p)
    if k == "list":
        return f == "L" and len(p) == len(recv["fields"]) and all(allows(d, s) for d, s in zip(recv["fields"], p))
    raise ValueError(k)


def has_nonfinite(it):
    f, p = it
    if f == "L":
        return any(has_nonfinite(s) for s in p)
    return f in e5.FLOATS and any(not e5.is_finite_bits(f, b) for b in p)


def _key(recv, name):
    return name + "E" if recv["k"] == "array" else name


def exp_get(recv, item, name="D0"):
    """Value get() must return for plain item `item` received by `recv`."""
    k = recv["k"]
    if k == "array":
        return [exp_get(recv["of"], s, name + "E") for s in item["v"]]
    if k == "list":
        return {
            _key(d, f"{name}F{i}"): exp_get(d, s, f"{name}F{i}")
            for i, (d, s) in enumerate(zip(recv["fields"], item["v"]))
        }
    return sg.expected_get(item)


def _format(recv, name, top):
    """secsgem data_format for a receiver descriptor."""
    from secsgem.secs.variables.dynamic import ANYVALUE

    k = recv["k"]
    if k == "any":
        return ANYVALUE
    if k == "leaf":
        if recv.get("raw") and recv.get("count", -1) == -1:
            return sg.cls_of(recv["f"])
        return sg.data_item_class(name, fmt=recv["f"], count=recv.get("count", -1))
    if k == "dyn":
        return sg.data_item_class(name, types=recv["types"], count=recv.get("count", -1))
    if k == "array":
        return [_format(recv["of"], name + "E", False)]
    return [name] + [_format(d, f"{name}F{i}", False) for i, d in enumerate(recv["fields"])]


def build(recv):
    """A fresh secsgem receiver object."""
    from secsgem.secs import variables
    from secsgem.secs.variables import functions

    if recv["k"] == "dyn" and recv.get("direct"):
        return variables.Dynamic([sg.cls_of(t) for t in recv["types"]], count=recv.get("count", -1))
    if recv["k"] == "leaf" and recv.get("raw"):
        return sg.cls_of(recv["f"])(count=recv.get("count", -1))
    return functions.generate(_format(recv, "D0", True))


# --------------------------------------------------------------------------------------------
# encoding helpers


def make_nlb(nl):
    """nlb_of callback: choices consumed cyclically in (post-order) traversal order; max(minimal, choice)."""
    st_ = [0]

    def nlb_of(_item, minimal):
        c = nl[st_[0] % len(nl)]
        st_[0] += 1
        return max(minimal, c)

    return nlb_of


def encode_case(item, nl):
    return e5.encode(gi.to_ref(item), make_nlb(nl) if nl else None)


def header_stats(data, pos=0, out=None):
    """Walk the headers of a reference-accepted item; counts of minimal / non-minimal length fields."""
    if out is None:
        out = {"min": 0, "nlb2<256": 0, "nlb3<256": 0, "nlb3<65536": 0}
    fb = data[pos]
    code, nlb = fb >> 2, fb & 3
    length = int.from_bytes(data[pos + 1 : pos + 1 + nlb], "big")
    pos += 1 + nlb
    m = e5.min_nlb(length)
    if nlb == m:
        out["min"] += 1
    elif nlb == 2:
        out["nlb2<256"] += 1
    elif m == 1:
        out["nlb3<256"] += 1
    else:
        out["nlb3<65536"] += 1
    if code == 0:
        for _ in range(length):
            pos, _o = header_stats(data, pos, out)
    else:
        pos += length
    return pos, out


def float_classes(item):
    out = set()
    for lf in gi.leaves_of(item):
        f = lf["f"]
        if f not in e5.FLOATS:
            continue
        eb, mb = (8, 23) if f == "F4" else (11, 52)
        emax, mmax = (1 << eb) - 1, (1 << mb) - 1
        for b in lf["v"] if "v" in lf else lf["pat"]:
            ex, mant = (b >> mb) & emax, b & mmax
            if ex == emax - 1 and mant == mmax:
                out.add(f"float:{f}:MAX")
            if ex == emax - 1:
                out.add("float:exp-max")
            elif ex == 0 and mant:
                out.add("float:subnormal")
            elif ex == 0:
                out.add("float:zero")
            elif ex == 1:
                out.add("float:exp-min-normal")
                if mant == 0:
                    out.add(f"float:{f}:MIN-NORMAL")
    return out


def nondefault(recv, item):
    """Some Dynamic position holds a format other than the receiver's first (default) type."""
    k = recv["k"]
    f = item["f"]
    if k == "any":
        return f != "L" or any(nondefault(ANY, s) for s in item["v"])
    if k == "dyn":
        first = recv["types"][0] if recv["types"] else "A"
        return f != first or (f == "L" and any(nondefault(ANY, s) for s in item["v"]))
    if k == "array":
        return any(nondefault(recv["of"], s) for s in item["v"])
    if k == "list":
        return any(nondefault(d, s) for d, s in zip(recv["fields"], item["v"]))
    return False


def recv_kind(recv):
    k = recv["k"]
    if k == "dyn":
        return ("dyn-all" if not recv["types"] else "dyn-restricted") + ("-direct" if recv.get("direct") else "-item")
    if k == "leaf":
        return "leaf-class" if recv.get("raw") else ("leaf-item" if recv.get("count", -1) < 0 else "leaf-item-count")
    if k == "array":
        return "array-of-" + recv["of"]["k"]
    return k


def describe(recv, item, enc):
    """(nontrivial, classes) of an in-scope case."""
    _, hs = header_stats(enc)
    fc = float_classes(item)
    d = gi.depth(item)
    nonmin = hs["nlb2<256"] + hs["nlb3<256"] + hs["nlb3<65536"]
    nd = nondefault(recv, item)
    classes = ["recv:" + recv_kind(recv), "top:" + item["f"], f"depth:{d if d < 5 else '5-9' if d < 10 else '10-19' if d < 20 else '20-40'}"]
    for k_, v in hs.items():
        if v and k_ != "min":
            classes.append("len:" + k_)
    if not nonmin:
        classes.append("len:all-minimal")
    classes.extend(sorted(fc))
    if nd:
        classes.append("dyn:non-default-type")
    for lf in gi.leaves_of(item):
        classes.append("fmt:" + lf["f"])
        n = len(lf["v"]) if "v" in lf else lf["n"]
        classes.append("n=0" if n == 0 else "n=1" if n == 1 else "n>1")
    if item["f"] == "L":
        n = len(item["v"])
        classes.append("L:n=0" if n == 0 else "L:n=1" if n == 1 else "L:n>1")
    extreme = bool(fc & {"float:exp-max", "float:subnormal", "float:zero", "float:exp-min-normal"})
    return bool(nonmin or extreme or d >= 3 or nd), classes


# --------------------------------------------------------------------------------------------
# oracle


def _exc(e):
    return f"{type(e).__name__}: {e}"[:300]


def _raised_in(exc):
    """module.function of the innermost frame: a stable root-cause key for unexpected exceptions."""
    tb = exc.__traceback__
    while tb is not None and tb.tb_next is not None:
        tb = tb.tb_next
    if tb is None:
        return "?"
    code = tb.tb_frame.f_code
    return f"{os.path.splitext(os.path.basename(code.co_filename))[0]}.{code.co_name}"


def _above_old_limit(it):
    f, p = it
    if f == "L":
        return any(_above_old_limit(s) for s in p)
    if f in e5.FLOATS:
        lim = 3.40282e38 if f == "F4" else 1.79769e308
        return any(e5.is_finite_bits(f, b) and abs(e5.bits_float(f, b)) > lim for b in p)
    return False


class _StepLimit(BaseException):
    """Raised by the header counter; BaseException so that no `except Exception` can swallow it."""


_STEPS = [0]


def _install_step_counter():
    """Bound the work of one decode() deterministically (no wall clock): every item costs the library at most two
    header decodes (Dynamic peeks, then the concrete class reads) and every item is at least two bytes long, so a
    terminating decoder needs fewer than len(data) + 2 header decodes. The counter is attached from outside, at run
    time, to Base.decode_item_header (no subclass overrides it); 4 * len + 64 calls is the bound."""
    from secsgem.secs.variables.base import Base

    if getattr(Base.decode_item_header, "_vf_counted", False):
        return
    orig = Base.decode_item_header

    def counted(self, data, text_pos=0):
        _STEPS[0] -= 1
        if _STEPS[0] < 0:
            raise _StepLimit()
        return orig(self, data, text_pos)

    counted._vf_counted = True
    Base.decode_item_header = counted


def judge(recv, data, pre=b"", tail=b"", case=None):
    """Decide one (receiver, bytes) pair. Returns (verdict, Failure|None, ref_item|None, item_len).

    verdict: "rejected" (reference rejects; secsgem only has to terminate), "nonfinite" / "not-allowed" (valid E5 but
    outside the statement's scope for this receiver), "checked" (oracle applied).
    """
    try:
        ref_item, n = e5.decode(data, 0, 0, 200)
    except e5.E5Error:
        ref_item, n = None, 0
    in_scope = ref_item is not None
    verdict = "checked"
    if not in_scope:
        verdict = "rejected"
    elif has_nonfinite(ref_item):
        verdict = "nonfinite"
    elif not allows(recv, ref_item):
        verdict = "not-allowed"
    full = pre + data + tail
    obj = build(recv)
    if case is not None and case.get("prior_hex"):
        # the receiver object has already decoded another valid item (a second message into the same object): what it
        # reports afterwards is a function of the bytes decoded last, not of its history
        try:
            obj.decode(bytes.fromhex(case["prior_hex"]))
        except Exception:  # noqa: BLE001 - the prior item is judged by its own case
            pass
    _install_step_counter()
    _STEPS[0] = 4 * len(full) + 64
    hang = Failure("decode-step-bound-exceeded", case, f"more than {4 * len(full) + 64} item headers read for {len(full)} bytes", "raises or returns")
    if verdict != "checked":
        # any exception or any result is acceptable here; the call only has to come back
        try:
            obj.decode(full, len(pre))
        except _StepLimit:
            return verdict, hang, ref_item, n
        except Exception:  # noqa: BLE001 - by the statement every outcome but a hang is fine for these inputs
            pass
        return verdict, None, ref_item, n
    enc = data[:n]
    item = gi.from_ref(ref_item)
    where = ref_item[0]  # buckets are root-cause keys: symptom + top format / raising function, never the receiver
    try:
        pos = obj.decode(full, len(pre))
    except _StepLimit:
        return verdict, hang, ref_item, n
    except Exception as exc:  # noqa: BLE001 - a valid, allowed item must decode: every exception is the finding
        msg = str(exc)
        if _above_old_limit(ref_item) and isinstance(exc, ValueError) and "Invalid value" in msg:
            bucket = "float-above-declared-limit"
        elif "Unsupported format 17" in msg:
            bucket = "dynamic-decode-jis8"
        else:
            bucket = f"decode-raises:{type(exc).__name__}@{_raised_in(exc)}"
        return verdict, Failure(bucket, case, _exc(exc), "valid E5 item allowed by the receiver decodes"), ref_item, n
    if pos != len(pre) + n:
        how = "short" if isinstance(pos, int) and pos < len(pre) + n else "long"
        return verdict, Failure(f"decode-consumed-{how}", case, pos, len(pre) + n), ref_item, n
    try:
        got = obj.get()
    except Exception as exc:  # noqa: BLE001
        return verdict, Failure(f"get-raises:{where}", case, _exc(exc), "value"), ref_item, n
    want = exp_get(recv, item)
    if not sg.same_value(got, want):
        return verdict, Failure(f"value-mismatch:{where}", case, repr(got)[:300], repr(want)[:300]), ref_item, n
    canon = e5.encode(ref_item)
    try:
        re = obj.encode()
    except Exception as exc:  # noqa: BLE001
        return verdict, Failure(f"reencode-raises:{where}", case, _exc(exc), canon[:64].hex()), ref_item, n
    if re != canon:
        return verdict, Failure(f"reencode-not-canonical:{where}", case, re[:64].hex(), canon[:64].hex()), ref_item, n
    return verdict, None, ref_item, n


def case_bytes(case):
    if "hex" in case:
        return bytes.fromhex(case["hex"])
    if "biglist" in case:
        n = case["biglist"]
        item = {"f": "L", "v": [{"f": "U1", "v": [i % 251]} for i in range(n)]}
        return encode_case(item, case.get("nl"))
    return encode_case(case["item"], case.get("nl"))


def check_case(case, ctx=None, record=True):
    """Run one plain case; records it into ctx (if given). Returns Failure|None."""
    recv = case["recv"]
    data = case_bytes(case)
    pre = bytes.fromhex(case.get("pre", ""))
    tail = bytes.fromhex(case.get("tail", ""))
    generated = "hex" not in case
    if generated:
        ref_item = gi.to_ref(case["item"]) if "item" in case else None
        if ref_item is not None:
            # soundness of the oracle itself: the reference decoder must read back what the reference encoder wrote
            if e5.decode_all(data) != ref_item:
                raise HarnessError(f"reference codec does not round-trip its own encoding: {case}")
            if not allows(recv, ref_item) or has_nonfinite(ref_item):
                raise HarnessError(f"generator produced a case outside the receiver's definition: {case}")
    verdict, f, ref_item, n = judge(recv, data, pre, tail, case)
    if ctx is not None and record:
        if verdict == "checked":
            key = None
            if "biglist" in case:
                nt, classes = True, [f"boundary:L:{case['biglist']}", "recv:" + recv_kind(recv)]
            else:
                nt, classes = describe(recv, gi.from_ref(ref_item), data[:n])
            if pre:
                classes.append("offset>0")
            if case.get("prior_hex"):
                classes.append("second-decode-into-the-same-object")
            classes.append("tail" if (tail or n < len(data)) else "no-tail")
            if not generated:
                classes.append("bytes:ref-accepts-in-scope")
            ctx.case(case, nt, classes, key=key)
        else:
            ctx.case(case, False, ["bytes:" + verdict] if not generated else ["gen:" + verdict])
            if verdict != "rejected":
                ctx.exclude("out-of-scope:" + verdict)
    return f


# --------------------------------------------------------------------------------------------
# strategies (plain data).  Strategies are built ONCE (cached): creating @st.composite objects inside draws is slow.


@functools.lru_cache(maxsize=None)
def _elems(f):
    return gi.elems(f, False)


@functools.lru_cache(maxsize=None)
def _leaf_of(f, max_n=6):
    counts = st.one_of(st.sampled_from([0, 1, 1, 2, 3]), st.integers(0, max_n))

    @st.composite
    def _s(draw):
        n = min(draw(counts), max_n)
        return {"f": f, "v": draw(st.lists(_elems(f), min_size=n, max_size=n))}

    return _s()


@functools.lru_cache(maxsize=None)
def leaf_s(fmts, max_n=6):
    return st.sampled_from(list(fmts)).flatmap(lambda f: _leaf_of(f, max_n))


ALLF = tuple(gi.SCALARS)
NOJF = tuple(NOJ)


@functools.lru_cache(maxsize=None)
def tree_noj(max_depth, max_width=3):
    return gi.tree(max_depth=max_depth, max_width=max_width, leaves=leaf_s(NOJF))


@functools.lru_cache(maxsize=None)
def any_item(deep_max):
    """Item trees ANYVALUE allows: mixed shallow trees, deep chains, plain leaves."""
    return st.one_of(
        leaf_s(NOJF),
        tree_noj(2),
        tree_noj(4),
        gi.deep_tree(st.integers(3, deep_max), leaves=leaf_s(NOJF, 3)),
    )


def _as_list(item):
    return item if item["f"] == "L" else {"f": "L", "v": [item]}


@functools.lru_cache(maxsize=None)
def dynamic_case(deep_max):
    """(recv, item) with unrestricted receivers."""
    kinds = st.sampled_from(["dyn", "dyn", "dyn-item", "any", "array-any", "array-dyn"])
    top_item = st.one_of(leaf_s(ALLF), any_item(deep_max))
    els_s = st.lists(st.one_of(leaf_s(ALLF), tree_noj(2)), max_size=4)

    @st.composite
    def _s(draw):
        kind = draw(kinds)
        if kind in ("dyn", "dyn-item"):
            return (DYN_ALL if kind == "dyn" else DYN_ALL_ITEM), draw(top_item)
        if kind == "any":
            return ANY, draw(any_item(deep_max))
        if kind == "array-any":
            return ARRAY_ANY, _as_list(draw(any_item(deep_max)))
        # Array of an unrestricted Dynamic data item: each ELEMENT is a top-level Dynamic([]) -> J leaves allowed
        return {"k": "array", "of": DYN_ALL_ITEM}, {"f": "L", "v": draw(els_s)}

    return _s()


_COUNT_KIND = st.sampled_from(["none", "none", "none", "exact", "more"])
_BOOL = st.booleans()
_TYPES = st.lists(st.sampled_from(gi.SCALARS + ["L"]), min_size=1, max_size=5, unique=True)
_N03 = st.sampled_from([0, 1, 2, 3])
_NFIELDS = st.sampled_from([1, 2, 2, 3, 4])


def _draw_leaf_rv(draw, in_list):
    item = draw(leaf_s(ALLF))
    n = len(item["v"])
    ck = draw(_COUNT_KIND)
    count = -1 if ck == "none" else max(n, 1) if ck == "exact" else n + 2
    recv = {"k": "leaf", "f": item["f"], "count": count}
    if count == -1 and not in_list and draw(_BOOL):
        recv["raw"] = True
    return recv, item


def _draw_dynr_rv(draw, in_list):
    recv = {"k": "dyn", "types": draw(_TYPES)}
    if not in_list and draw(_BOOL):
        recv["direct"] = True
    value = draw_value(draw, recv)
    # count-limited Dynamic items (XYPOS[2], LIMITMAX[1] ...): the limit counts elements, not bytes
    if value["f"] != "L" and draw(_BOOL):
        n = len(value["v"]) if "v" in value else value["n"]
        recv["count"] = max(n, 1) if draw(_BOOL) else n + 2
    return recv, value


def draw_value(draw, recv):
    """A fresh item allowed by an existing receiver descriptor."""
    k = recv["k"]
    if k == "any":
        return draw(tree_noj(2))
    if k == "leaf":
        it = draw(_leaf_of(recv["f"]))
        c = recv.get("count", -1)
        return it if c < 0 else {"f": it["f"], "v": it["v"][:c]}
    if k == "dyn":
        f = draw(st.sampled_from(recv["types"] or gi.SCALARS + ["L"]))
        if f == "L":
            return _as_list(draw(tree_noj(2)))
        it = draw(_leaf_of(f))
        c = recv.get("count", -1)
        return it if c <= 0 else {"f": it["f"], "v": it["v"][:c]}
    if k == "array":
        return {"f": "L", "v": [draw_value(draw, recv["of"]) for _ in range(draw(_N03))]}
    return {"f": "L", "v": [draw_value(draw, d) for d in recv["fields"]]}


def _draw_typed(draw, depth, in_list):
    """(recv, item) for typed receivers of nesting depth <= depth; descriptor first, then values for it."""
    kind = draw(st.sampled_from(["leaf", "leaf", "dynr"] + (["array", "list"] if depth > 0 else [])))
    if kind == "leaf":
        return _draw_leaf_rv(draw, in_list)
    if kind == "dynr":
        return _draw_dynr_rv(draw, in_list)
    if kind == "array":
        r0, v0 = _draw_typed(draw, depth - 1, in_list)
        n = draw(_N03)
        vals = ([v0] if n else []) + [draw_value(draw, r0) for _ in range(max(0, n - 1))]
        return {"k": "array", "of": r0}, {"f": "L", "v": vals}
    fields, vals = [], []
    for _ in range(draw(_NFIELDS)):
        r, v = _draw_typed(draw, depth - 1, True)
        if r["k"] == "array" and r["of"]["k"] == "array":
            # nested unnamed arrays inside a record all get the key "DATA" (naming, not decoding): not used
            r, v = _draw_leaf_rv(draw, True)
        fields.append(r)
        vals.append(v)
    return {"k": "list", "fields": fields}, {"f": "L", "v": vals}


@functools.lru_cache(maxsize=None)
def typed_case(depth):
    @st.composite
    def _s(draw):
        return _draw_typed(draw, depth, False)

    return _s()


@functools.lru_cache(maxsize=None)
def chain_case(deep_max):
    """Typed arrays nested k deep: Array(Array(...Array(cls)))."""
    depths = st.integers(1, deep_max)

    @st.composite
    def _s(draw):
        k = draw(depths)
        recv, item = _draw_leaf_rv(draw, False)
        for i in range(k):
            # siblings must stay cheap: a fresh value for a k-deep array receiver would branch exponentially
            sibs = []
            if i % 4 == 0 and draw(_BOOL):
                sibs = [draw_value(draw, recv) if i == 0 else {"f": "L", "v": []}]
            recv, item = {"k": "array", "of": recv}, {"f": "L", "v": [item] + sibs}
        return recv, item

    return _s()


def recv_item(tier):
    deep = 40
    return st.one_of(
        dynamic_case(deep),
        dynamic_case(deep),
        typed_case(0),
        typed_case(1),
        typed_case(2),
        typed_case(3 if tier == "quick" else 4),
        chain_case(deep),
    )


def gen_case(tier):
    return st.builds(
        lambda ri, nl, pre, tail: {"recv": ri[0], "item": ri[1], "nl": nl, "pre": pre.hex(), "tail": tail.hex()},
        recv_item(tier),
        st.lists(st.sampled_from([1, 2, 3]), min_size=1, max_size=6),
        st.one_of(st.just(b""), st.binary(min_size=1, max_size=3)),
        st.one_of(st.just(b""), st.binary(min_size=1, max_size=4)),
    )


def _apply(data, ops):
    b = bytearray(data)
    for op in ops:
        kind = op[0]
        if kind == "trunc":
            del b[max(0, len(b) - op[1]) :]
        elif not b and kind != "ins":
            continue
        elif kind == "flip":
            b[op[1] % len(b)] ^= 1 << op[2]
        elif kind == "set":
            b[op[1] % len(b)] = op[2]
        elif kind == "del":
            del b[op[1] % len(b)]
        elif kind == "ins":
            b.insert(op[1] % (len(b) + 1), op[2])
        elif kind == "fmt":  # replace a byte by a format byte (header-looking)
            b[op[1] % len(b)] = FORMAT_BYTES[op[2] % len(FORMAT_BYTES)]
    return bytes(b)


def mut_case():
    """Mutated / arbitrary bytes; validity is decided later by the reference decoder only."""
    idx = st.integers(0, 63)
    op = st.one_of(
        st.tuples(st.just("flip"), idx, st.integers(0, 7)),
        st.tuples(st.just("flip"), st.integers(0, 3), st.integers(0, 7)),
        st.tuples(st.just("set"), idx, st.integers(0, 255)),
        st.tuples(st.just("trunc"), st.integers(1, 6)),
        st.tuples(st.just("del"), idx),
        st.tuples(st.just("ins"), idx, st.integers(0, 255)),
        st.tuples(st.just("fmt"), idx, st.integers(0, len(FORMAT_BYTES) - 1)),
    )
    small = st.one_of(dynamic_case(6), typed_case(1), typed_case(2))
    ops_s = st.lists(op, min_size=1, max_size=3)
    nl_s = st.lists(st.sampled_from([1, 2, 3]), min_size=1, max_size=4)
    modes = st.sampled_from(["mut", "mut", "mut", "raw"])
    raw_recv = st.sampled_from([DYN_ALL, DYN_ALL, ANY, ARRAY_ANY])
    pre_s = st.one_of(st.just(b""), st.binary(min_size=1, max_size=2))
    tail_s = st.one_of(st.just(b""), st.binary(min_size=1, max_size=3))
    raw = st.lists(
        st.one_of(st.sampled_from(FORMAT_BYTES), st.sampled_from([0, 1, 2, 3, 4, 8]), st.integers(0, 255)), max_size=24
    )

    @st.composite
    def _s(draw):
        if draw(modes) == "raw":
            data = bytes(draw(raw))
            recv = draw(raw_recv)
        else:
            r0, item = draw(small)
            data = _apply(encode_case(item, draw(nl_s)), draw(ops_s))
            recv = draw(st.sampled_from([r0, r0, DYN_ALL, ANY, ARRAY_ANY]))
        pre = draw(pre_s)
        tail = draw(tail_s)
        return {"recv": recv, "hex": data.hex(), "pre": pre.hex(), "tail": tail.hex()}

    return _s()


# --------------------------------------------------------------------------------------------
# tasks


def plan(tier, seed):
    quick = tier == "quick"
    tasks = [("matrix", {}), ("floats", {"f": "F4"}), ("floats", {"f": "F8"}), ("boolbytes", {}), ("deep", {})]
    tasks.append(("biglist", {"ns": [255, 256] if quick else [255, 256, 65535, 65536]}))
    for f in gi.SCALARS:
        tasks.append(("boundary", {"fmts": [f]}))
    n_gen, per = (16, 700) if quick else (16, 31250)  # examples; each gives 2 cases (see variants)
    for i in range(n_gen):
        tasks.append(("gen", {"shard": i, "n": per}))
    n_mut, per_m = (8, 1500) if quick else (16, 25000)
    for i in range(n_mut):
        tasks.append(("mut", {"shard": i, "n": per_m}))
    if not quick:  # optional coverage-guided shards last: they are the part that may be cut by the budget
        for i in range(16):
            tasks.append(("fuzz", {"shard": i, "runs": 400000}))
    return tasks


def _chunked(ctx, strat, body, n, offset):
    chunk = 250 if ctx.tier == "quick" else 2500
    done = 0
    k = 0
    while done < n and not ctx.out_of_time():
        m = min(chunk, n - done)
        ctx.hyp(strat, body, m, seed_offset=offset + k)
        done += m
        k += 1


def variants(case):
    """The drawn case plus one derived case: same item tree, another receiver that allows it (if any) and a
    different assignment of length bytes - a different (receiver, byte string) pair of the same domain."""
    yield case
    ref = gi.to_ref(case["item"])
    alts = [r for r in (DYN_ALL, ANY, ARRAY_ANY, DYN_ALL_ITEM) if r != case["recv"] and allows(r, ref)]
    nl = case["nl"]
    recv2 = alts[(sum(nl) + len(case["pre"])) % len(alts)] if alts else case["recv"]
    yield {"recv": recv2, "item": case["item"], "nl": [4 - x for x in nl] + [2], "pre": case["tail"][:2], "tail": case["pre"]}
    # the same receiver OBJECT decodes two items one after the other: the item and its emptied twin (every leaf zero-length), in
    # both orders
    empt = _emptied(case["item"])
    if empt != case["item"] and allows(case["recv"], gi.to_ref(empt)):
        yield {"recv": case["recv"], "item": empt, "nl": nl, "pre": "", "tail": case["tail"], "prior_hex": encode_case(case["item"], None).hex()}
        yield {"recv": case["recv"], "item": case["item"], "nl": nl, "pre": "", "tail": case["tail"], "prior_hex": encode_case(empt, None).hex()}


def _emptied(item):
    if item["f"] == "L":
        return {"f": "L", "v": [_emptied(x) for x in item["v"]]}
    return {"f": item["f"], "v": []}


def _typed_receivers(f):
    """Receivers that allow a single leaf of format f (count -1), wrapped receivers take it as only element."""
    other = "U1" if f != "U1" else "A"
    return [
        ({"k": "leaf", "f": f, "count": -1, "raw": True}, 0),
        ({"k": "leaf", "f": f, "count": -1}, 0),
        (DYN_ALL, 0),
        (DYN_ALL_ITEM, 0),
        ({"k": "dyn", "types": [other, f]}, 0),
        ({"k": "dyn", "types": [f, "L"]}, 0),
        ({"k": "dyn", "types": [other, f], "count": 5}, 0),
        ({"k": "array", "of": {"k": "leaf", "f": f, "count": -1, "raw": True}}, 1),
        ({"k": "array", "of": {"k": "dyn", "types": [other, f]}}, 1),
        ({"k": "list", "fields": [{"k": "leaf", "f": other, "count": -1}, {"k": "leaf", "f": f, "count": -1}]}, 2),
    ] + [(ANY, 0), (ARRAY_ANY, 1), ({"k": "dyn", "types": ["L", f]}, 1)]


def _wrap(item, how):
    if how == 0:
        return item
    if how == 1:
        return {"f": "L", "v": [item]}
    other = "U1" if item["f"] != "U1" else "A"
    return {"f": "L", "v": [{"f": other, "v": [65]}, item]}


def _sample_elems(f, n, rnd):
    if f in e5.INTS:
        lo, hi = e5.int_range(f)
        pool = [lo, hi, 0, rnd.randint(lo, hi), 1]
    elif f == "F4":
        pool = [gi.FLT_MAX_BITS, 0x00000001, 0x80800000, rnd.getrandbits(31) % 0x7F800000, 0x3F800000]
    elif f == "F8":
        pool = [gi.DBL_MAX_BITS, 0x0000000000000001, 0x8010000000000000, rnd.getrandbits(63) % 0x7FF0000000000000, 0x3FF0000000000000]
    elif f == "BOOLEAN":
        pool = [1, 0, 1, 1, 0]
    else:
        pool = [0xB1, 0x5C, 65, rnd.randrange(256), 0x7E]
    return [pool[i % len(pool)] for i in range(n)]


def run_task(name, kw, ctx):
    if ctx.out_of_time():
        return
    if name == "gen":
        # chunked: after the deadline Hypothesis would still GENERATE every remaining example of a run
        strat = gen_case(ctx.tier)

        def body(case):
            for c in variants(case):
                f = check_case(c, ctx)
                if f is not None:
                    return f
            return None

        _chunked(ctx, strat, body, kw["n"], kw["shard"] * 1000)
    elif name == "mut":

        def body(case):
            return check_case(case, ctx)

        _chunked(ctx, mut_case(), body, kw["n"], 500000 + kw["shard"] * 1000)
    elif name == "matrix":
        # every format code x element counts 0/1/many x 1/2/3 length bytes x every kind of receiver
        rnd = random.Random(ctx.seed + 2)
        for f in gi.SCALARS:
            for n in (0, 1, 2, 5):
                for nlb in (1, 2, 3):
                    for recv, how in _typed_receivers(f):
                        item = _wrap({"f": f, "v": _sample_elems(f, n, rnd)}, how)
                        case = {"recv": recv, "item": item, "nl": [nlb], "pre": "7f" if nlb == 2 else "", "tail": "" if nlb == 3 else "a5"}
                        ctx.report(check_case(case, ctx))
        for n in (0, 1, 2, 3):  # lists: counts 0/1/many, each length-byte choice
            for nlb in (1, 2, 3):
                for recv in (DYN_ALL, DYN_ALL_ITEM, ANY, ARRAY_ANY, {"k": "dyn", "types": ["A", "L"]}, {"k": "array", "of": {"k": "array", "of": ANY}}):
                    inner = [{"f": "L", "v": [{"f": "I2", "v": [-2, i]}]} for i in range(n)]
                    case = {"recv": recv, "item": {"f": "L", "v": inner}, "nl": [nlb, 1, nlb], "pre": "", "tail": "00"}
                    ctx.report(check_case(case, ctx))
    elif name == "floats":
        _floats_task(kw["f"], ctx)
    elif name == "boolbytes":
        for b in range(256):
            for body_hex in (f"2501{b:02x}", f"2503{b:02x}00{b:02x}", f"260001{b:02x}", f"0101250201{b:02x}"):
                for recv in ({"k": "leaf", "f": "BOOLEAN", "count": -1, "raw": True}, DYN_ALL, ANY, {"k": "dyn", "types": ["U1", "BOOLEAN", "L"]}, {"k": "array", "of": {"k": "leaf", "f": "BOOLEAN", "count": -1}}):
                    case = {"recv": recv, "hex": body_hex, "pre": "", "tail": "01"}
                    ctx.report(check_case(case, ctx))
    elif name == "boundary":
        rnd = random.Random(ctx.seed + 5)
        for f in kw["fmts"]:
            w = e5.WIDTH.get(f, 1)
            for n in gi.boundary_counts(f):
                for nlb in range(e5.min_nlb(n * w), 4):
                    recvs = [{"k": "leaf", "f": f, "count": -1, "raw": True}, DYN_ALL]
                    if n * w < 1000 or ctx.tier != "quick":
                        recvs += [{"k": "leaf", "f": f, "count": max(n, 1)}] + [ANY]
                    for recv in recvs:
                        if ctx.out_of_time():
                            return
                        item = {"f": f, "pat": _sample_elems(f, 5, rnd), "n": n}
                        case = {"recv": recv, "item": item, "nl": [nlb], "pre": "01", "tail": "ff"}
                        for c_ in (f"boundary:{f}", f"boundary-bytes:{n * w}", f"boundary-nlb:{nlb}"):
                            ctx.count(c_)
                        ctx.report(check_case(case, ctx))
    elif name == "biglist":
        for n in kw["ns"]:
            for nlb in range(e5.min_nlb(n), 4):
                for recv in ({"k": "array", "of": {"k": "leaf", "f": "U1", "count": -1, "raw": True}}, ARRAY_ANY, DYN_ALL):
                    if ctx.out_of_time():
                        return
                    if n > 60000 and recv is not ARRAY_ANY and nlb != 3:
                        continue
                    case = {"recv": recv, "biglist": n, "nl": [1] * n + [nlb], "pre": "", "tail": "00"}
                    small = {"recv": recv, "biglist": n, "top_nlb": nlb, "pre": "", "tail": "00"}
                    f_ = check_case(case, None)
                    if f_ is not None:
                        f_.case = small
                    ctx.case(small, True, [f"boundary:L:{n}", f"boundary-nlb:{nlb}", "recv:" + recv_kind(recv)])
                    ctx.report(f_)
    elif name == "deep":
        # every depth 1..40, chains of single-element lists with a different leaf format at the bottom
        for d in range(1, 41):
            for j, f in enumerate(NOJ):
                if ctx.tier == "quick" and (d + j) % 3:
                    continue
                item = {"f": f, "v": _sample_elems(f, 1 + (d + j) % 3, random.Random(ctx.seed + d))}
                typed = {"k": "leaf", "f": f, "count": -1, "raw": True}
                for _ in range(d):
                    item = {"f": "L", "v": [item]}
                    typed = {"k": "array", "of": typed}
                for recv in (DYN_ALL, ANY, ARRAY_ANY, typed):
                    case = {"recv": recv, "item": item, "nl": [1 + (d + j) % 3, 1, 2], "pre": "00" * (d % 3), "tail": "ff" * (j % 2)}
                    ctx.report(check_case(case, ctx))
    elif name == "fuzz":
        _fuzz_task(kw, ctx)
    else:
        raise HarnessError(f"unknown task {name}")


def _floats_task(f, ctx):
    eb, mb = (8, 23) if f == "F4" else (11, 52)
    emax, mmax = (1 << eb) - 1, (1 << mb) - 1
    sign = 1 << (eb + mb)
    typed = {"k": "leaf", "f": f, "count": -1, "raw": True}
    recvs = [typed, DYN_ALL, ANY, {"k": "leaf", "f": f, "count": 8}, {"k": "dyn", "types": ["U1", f]}]
    named = {
        "MAX": ((emax - 1) << mb) | mmax,
        "MAX-1ulp": ((emax - 1) << mb) | (mmax - 1),
        "MIN-NORMAL": 1 << mb,
        "MAX-SUBNORMAL": mmax,
        "MIN-SUBNORMAL": 1,
        "ZERO": 0,
        "ONE": ((emax // 2) << mb),
    }
    for nm, bits in named.items():
        for s in (0, sign):
            for nlb in (1, 2, 3):
                for recv in recvs + [{"k": "array", "of": typed}]:
                    item = {"f": f, "v": [bits | s]}
                    if recv["k"] == "array":
                        item = {"f": "L", "v": [item, {"f": f, "v": [bits | s, bits]}]}
                    case = {"recv": recv, "item": item, "nl": [nlb], "pre": "", "tail": "7f"}
                    ctx.count(f"float-named:{f}:{'-' if s else '+'}{nm}")
                    ctx.report(check_case(case, ctx))
    # exponent sweep: every exponent x {0, 1, mid, max} mantissa x sign
    k = 0
    for ex in range(0, emax):
        for s in (0, sign):
            if ctx.out_of_time():
                return
            v = [s | (ex << mb) | m for m in (0, 1, mmax // 2 + 1, mmax)]
            recv = recvs[k % len(recvs)]
            case = {"recv": recv, "item": {"f": f, "v": v}, "nl": [1 + k % 3], "pre": "", "tail": "00"}
            k += 1
            ctx.count(f"float-sweep:{f}")
            ctx.report(check_case(case, ctx))


# --------------------------------------------------------------------------------------------
# coverage-guided fuzzing (thorough tier only)

FUZZ_RECVS = [
    DYN_ALL,
    ANY,
    ARRAY_ANY,
    DYN_ALL_ITEM,
    {"k": "dyn", "types": ["U1", "A", "L", "F4"]},
    {"k": "array", "of": {"k": "leaf", "f": "U2", "count": -1, "raw": True}},
    {"k": "list", "fields": [{"k": "leaf", "f": "A", "count": -1}, {"k": "dyn", "types": ["F8", "BOOLEAN", "J"]}]},
    {"k": "leaf", "f": "F4", "count": -1, "raw": True},
]


def fuzz_available():
    """Directory to put on PYTHONPATH for atheris, or None if it cannot be imported (then the shards are skipped)."""
    import importlib.util

    try:
        spec = importlib.util.find_spec("atheris")
    except (ImportError, ValueError):
        spec = None
    if spec is None or not spec.origin:
        return None
    return os.path.dirname(os.path.dirname(spec.origin))


def _fuzz_task(kw, ctx):
    deps = fuzz_available()
    if deps is None:
        ctx.note("atheris is not importable (run `bash /verif/setup.sh`): coverage-guided fuzz shards skipped")
        ctx.count("fuzz:skipped-no-atheris")
        return
    tmp = tempfile.mkdtemp(prefix="vf_c02_fuzz_")
    try:
        corpus = os.path.join(tmp, "corpus")
        os.makedirs(corpus)
        seeds = [bytes([i % len(FUZZ_RECVS)]) + bytes.fromhex(h) for i, (_, h) in enumerate(e5.VECTORS)]
        seeds.append(b"\x00" + b"\x02\x00\x01" * 5 + b"\x93\x00\x00\x04\x7f\x7f\xff\xff")
        seeds.append(b"\x06" + bytes.fromhex("0102" + "41024142" + "81087fefffffffffffff"))
        for i, s in enumerate(seeds):
            with open(os.path.join(corpus, f"seed{i:02d}"), "wb") as fh:
                fh.write(s)
        out = os.path.join(tmp, "out.json")
        root = os.path.dirname(os.path.dirname(os.path.dirname(os.path.abspath(__file__))))
        env = dict(os.environ, VF_FUZZ_OUT=out, VF_FUZZ_KNOWN=json.dumps(sorted(ctx.known_keys)))
        env["PYTHONPATH"] = os.pathsep.join([root, deps, env.get("PYTHONPATH", "")]).rstrip(os.pathsep)
        left = max(10, int(ctx.time_left()) - 5)
        cmd = [
            sys.executable, "-m", "vf.fuzz.fz_e5", f"-runs={kw['runs']}", f"-seed={ctx.seed * 1009 + kw['shard'] + 1}",
            "-max_len=96", "-timeout=25", f"-max_total_time={left}", f"-artifact_prefix={tmp}/", "-print_final_stats=1", corpus,
        ]  # fmt: skip
        r = subprocess.run(cmd, env=env, capture_output=True, text=True, cwd=root)
        if not os.path.exists(out) and "No module named 'atheris'" in r.stderr:
            ctx.note("atheris could not be imported by the fuzz subprocess: coverage-guided fuzz shards skipped")
            ctx.count("fuzz:skipped-no-atheris")
            return
        if not os.path.exists(out):
            raise HarnessError(f"fuzz target produced no stats: rc={r.returncode} {r.stderr[-1500:]}")
        stats = json.load(open(out))
        ctx.evals += stats["execs"]
        for k_, v in stats["classes"].items():
            ctx.count(k_, v)
        ctx.count("fuzz:shards-run")
        for k_, v in stats.get("excluded", {}).items():
            ctx.exclude(k_, v)
        for k_, v in stats.get("known_hits", {}).items():
            ctx.known_hits[k_] += v
        hp = out + ".hashes"
        if os.path.exists(hp):
            raw = open(hp, "rb").read()
            for i in range(0, len(raw) - 7, 8):
                if len(ctx.nontrivial) < ctx.MAX_HASHES:
                    ctx.nontrivial.add(raw[i : i + 8])
        if stats.get("failure"):
            fj = stats["failure"]
            ctx.report(Failure(fj["bucket"], fj["case"], fj["observed"], fj["expected"]))
        else:
            arts = sorted(fn for fn in os.listdir(tmp) if fn.startswith(("timeout-", "crash-", "oom-")))
            for fn in arts:
                data = open(os.path.join(tmp, fn), "rb").read()
                case = _fuzz_case(data)
                if fn.startswith("timeout-"):
                    ctx.report(Failure("decode-hangs", case, "no result within 25 s", "raises or returns"))
                else:
                    raise HarnessError(f"fuzz target crashed without an oracle failure on {data.hex()}: {r.stderr[-1500:]}")
        if stats["execs"] < kw["runs"] * 0.9 and not stats.get("failure"):
            ctx.budget_hit = True
    finally:
        shutil.rmtree(tmp, ignore_errors=True)


def _fuzz_case(data):
    if len(data) < 1:
        return None
    return {"recv": FUZZ_RECVS[data[0] % len(FUZZ_RECVS)], "hex": data[1:].hex(), "pre": "", "tail": ""}


# --------------------------------------------------------------------------------------------


def replay(case, ctx):
    if "biglist" in case and "nl" not in case:
        full = dict(case, nl=[1] * case["biglist"] + [case.get("top_nlb", 1)])
        f = check_case(full, None)
        if f is not None:
            f.case = case
        return f
    return check_case(case, None)
