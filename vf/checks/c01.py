"""C01 - SECS-II values round-trip and are encoded exactly as SEMI E5 prescribes."""

from __future__ import annotations

import random

from hypothesis import strategies as st

from vf.gen import items as gi
from vf.ref import e5
from vf.run import Failure
from vf import sgvars as sg

PROPERTY = "C01"
LEVEL = "exploration"
TECHNIQUE = "property-based testing (Hypothesis) against an independent E5 reference codec + exhaustive header enumeration"
RULE = (
    "Cases are (descriptor, value) pairs built into secsgem.secs.variables objects (every scalar type, String/JIS8/"
    "Binary/Boolean, Array, List, Dynamic incl. ANYVALUE nesting, with/without count, every documented constructor "
    "form) plus boundary-length items (255/256, 65535/65536, 16777215 bytes) and the item-header space. Oracle: "
    "encode()==ref.e5.encode(model) bit-exact; fresh object decode(bytes+tail) consumes exactly len(bytes), get() "
    "equals the model value (floats by binary32/64 bit pattern), re-encode is identical; ref.e5.decode(bytes)==model. "
    "Non-trivial = payload crosses a length-byte boundary, or holds a numeric boundary value, or nests >= 2 deep, or "
    "has a non-ASCII/control/quote character; distinct by hash of the plain case."
)
ASSUMPTIONS = [
    "reference codec vf/ref/e5.py written from SEMI E5 (format codes, length bytes, big-endian payload) is correct; it has hand-computed vectors",
    "float values given as python doubles to F4 are expected to be rounded to nearest binary32 (struct semantics)",
    "plain python values given to Dynamic items may be stored in any allowed type that holds them (type choice not pinned)",
]
BUDGET_S = {"quick": 110, "thorough": 1200}
EXHAUSTIVE_NOTE = "thorough: encode_item_header/decode_item_header over all 16777216 lengths; quick: +-3 around every threshold plus 100000 sampled"


# --------------------------------------------------------------------------------------------
# strategies (plain data)


def leaf_desc_value(fmt=None, allow_nan=True):
    @st.composite
    def _s(draw):
        item = draw(gi.leaf(fmt, allow_nan=allow_nan))
        n = len(item["v"])
        count = draw(st.sampled_from([-1, -1, n, n + 1, n + 5])) if n > 0 else draw(st.sampled_from([-1, -1, 3]))
        form = draw(st.sampled_from(sg.leaf_forms(item)))
        return {"k": "leaf", "f": item["f"], "count": count}, {"item": item, "form": form}

    return _s()


ALL_TYPES = ["BOOLEAN", "U1", "U2", "U4", "U8", "I1", "I2", "I4", "I8", "F4", "F8", "A", "B"]


def _leaf_no_j(max_n=4):
    @st.composite
    def _s(draw):
        f = draw(st.sampled_from(ALL_TYPES))
        return draw(gi.leaf(f, allow_nan=True, max_n=max_n))

    return _s()


def dyn_desc_value():
    @st.composite
    def _s(draw):
        mode = draw(st.sampled_from(["subset", "subset", "all", "any"]))
        if mode == "all":
            types = []
            f = draw(st.sampled_from(ALL_TYPES))
        elif mode == "any":
            types = ["L"] + ALL_TYPES
            f = draw(st.sampled_from(ALL_TYPES + ["L", "L"]))
        else:
            types = draw(st.lists(st.sampled_from(ALL_TYPES + ["J"]), min_size=1, max_size=5, unique=True))
            f = draw(st.sampled_from(types))
        if f == "L":
            item = draw(gi.tree(max_depth=2, max_width=3, leaves=_leaf_no_j()))
            if item["f"] != "L":
                item = {"f": "L", "v": [item]}
        else:
            item = draw(gi.leaf(f, allow_nan=True))
        form = draw(st.sampled_from(["typed", "typed", "plain"])) if f != "L" else "typed"
        val = {"item": item, "form": form}
        if form == "plain":
            # Only unambiguous plain values: the library documents that plain values are matched to the first
            # fitting allowed type ("in doubt provide the variable wrapped"); sequences and floats are ambiguous
            # (C03 looks at plain values against the catalogue). Everything else is passed typed.
            eff = types or ALL_TYPES
            forms = []
            n = len(item["v"])
            if f in e5.INTS and n == 1 and any(t in e5.INTS and e5.int_range(t)[0] <= item["v"][0] <= e5.int_range(t)[1] for t in eff):
                forms = ["scalar"]
            elif f == "BOOLEAN" and n == 1 and "BOOLEAN" in eff:
                forms = ["scalar"]
            elif f in ("A", "J") and n > 0:
                forms = ["str", "bytes"]
            elif f == "B" and n > 1:
                forms = ["bytes"]
            if forms:
                val["pform"] = draw(st.sampled_from(forms))
            else:
                val["form"] = "typed"
        count = -1
        if f != "L" and "L" not in types:
            # a count limit on a Dynamic item counts ELEMENTS of the held value (data items XYPOS [2], RSINF [3], LIMITMAX [1] ...),
            # whatever their byte width: exactly at the limit, with room to spare, or unlimited
            n = len(gi.expand(item))
            count = draw(st.sampled_from([-1, -1, n, n, n + 1, n + 5])) if n > 0 else draw(st.sampled_from([-1, -1, 3]))
        return {"k": "dyn", "types": types, "count": count}, val

    return _s()


def desc_value(depth):
    """(desc, value) pairs of nesting depth <= depth."""
    base = st.one_of(leaf_desc_value(), leaf_desc_value(), dyn_desc_value())
    if depth <= 0:
        return base

    @st.composite
    def _array(draw):
        # element descriptor drawn once, then n values for it
        d0, v0 = draw(desc_value(depth - 1))
        n = draw(st.sampled_from([0, 1, 2, 3]))
        vals = [v0] if n >= 1 else []
        for _ in range(max(0, n - 1)):
            vals.append(draw(value_for(d0)))
        exact = draw(st.booleans())
        return {"k": "array", "of": d0, "count": len(vals) if exact else -1}, {"v": vals}

    @st.composite
    def _list(draw):
        n = draw(st.sampled_from([2, 2, 3, 4]))  # a one-member list is an array; a no-member list cannot be written
        pairs = []
        data_keys = 0
        for _ in range(n):
            d, v = draw(desc_value(depth - 1))
            if d["k"] == "array" and d["of"]["k"] == "array":
                data_keys += 1
                if data_keys > 1:  # two unnamed nested arrays would share the key "DATA"
                    d, v = draw(leaf_desc_value())
            pairs.append((d, v))
        form = draw(st.sampled_from(["list", "dict"]))
        return {"k": "list", "fields": [p[0] for p in pairs]}, {"v": [p[1] for p in pairs], "form": form}

    return st.one_of(base, _array(), _list())


def value_for(desc):
    """A fresh value for an existing descriptor."""
    k = desc["k"]
    if k == "leaf":

        @st.composite
        def _s(draw):
            item = draw(gi.leaf(desc["f"], allow_nan=True))
            c = desc.get("count", -1)
            if c >= 0 and len(item["v"]) > c:
                item = {"f": item["f"], "v": item["v"][:c]}
            return {"item": item, "form": draw(st.sampled_from(sg.leaf_forms(item)))}

        return _s()
    if k == "dyn":

        @st.composite
        def _d(draw):
            types = desc["types"] or ALL_TYPES
            f = draw(st.sampled_from(types))
            if f == "L":
                item = {"f": "L", "v": draw(st.lists(_leaf_no_j(), max_size=3))}
            else:
                item = draw(gi.leaf(f, allow_nan=True))
                c = desc.get("count", -1)
                if c >= 0 and len(gi.expand(item)) > c:  # the limit counts elements
                    item = {"f": item["f"], "v": list(gi.expand(item))[:c]}
            return {"item": item, "form": "typed"}

        return _d()
    if k == "array":

        @st.composite
        def _a(draw):
            c = desc.get("count", -1)
            n = c if c >= 0 else draw(st.integers(0, 3))
            return {"v": [draw(value_for(desc["of"])) for _ in range(n)]}

        return _a()

    @st.composite
    def _l(draw):
        return {"v": [draw(value_for(d)) for d in desc["fields"]], "form": draw(st.sampled_from(["list", "dict"]))}

    return _l()


def _over_count(desc, value):
    """True if some leaf / Dynamic value holds more elements than the count limit of its descriptor. Generated cases never
    do (by construction); the witness of the repaired 'count limit bypassed by a wrapped value' defect does: if such a value
    is ACCEPTED it must still round-trip, if it is refused that is correct."""
    k = desc["k"]
    if k in ("leaf", "dyn"):
        c = desc.get("count", -1)
        it = value["item"]
        return c >= 0 and it["f"] != "L" and len(gi.expand(it)) > c
    if k == "array":
        return any(_over_count(desc["of"], v) for v in value["v"])
    return any(_over_count(d, v) for d, v in zip(desc["fields"], value["v"]))


# --------------------------------------------------------------------------------------------
# oracle


def _exc(e):
    return f"{type(e).__name__}: {e}"


def _flt_bucket(item):
    """Root-cause classification helpers for float leaves."""
    for lf in gi.leaves_of(item):
        if lf["f"] in e5.FLOATS:
            el = lf["v"] if "v" in lf else lf["pat"]
            for b in el:
                if e5.is_finite_bits(lf["f"], b):
                    x = abs(e5.bits_float(lf["f"], b))
                    lim = 3.40282e38 if lf["f"] == "F4" else 1.79769e308
                    if x > lim:
                        return "float-above-declared-limit"
    return None


def check_case(case):
    """case = {"desc":..., "value":..., "tail": hex, "top": "generate"|"direct"}. Returns Failure|None."""
    from secsgem.secs import variables
    from secsgem.secs.variables import functions

    desc, value = case["desc"], case["value"]
    model = sg.model_item(desc, value)
    ref_item = gi.to_ref(model)
    expect = e5.encode(ref_item)
    top_direct = case.get("top") == "direct" and desc["k"] == "leaf"

    def make():
        if top_direct:
            return sg.cls_of(desc["f"])(count=desc.get("count", -1))
        return functions.generate(sg.build_format(desc))

    fb = _flt_bucket(model)
    # construct
    try:
        if top_direct:
            obj = sg.cls_of(desc["f"])(sg.pyvalue(desc, value), count=desc.get("count", -1))
        else:
            obj = make()
            obj.set(sg.pyvalue(desc, value))
    except Exception as exc:  # the value is in the type's E5 range: constructor must accept it
        if _over_count(desc, value) and isinstance(exc, ValueError):
            return None  # more elements than the item's count limit: refusing is the documented behaviour (regression witnesses only)
        return Failure(fb or f"construct:{type(exc).__name__}:{_where(desc, value)}", case, _exc(exc), "value accepted")
    # encode
    try:
        got = obj.encode()
    except Exception as exc:
        return Failure(f"encode-raises:{type(exc).__name__}:{_where(desc, value)}", case, _exc(exc), expect.hex()[:80])
    # type choice for plain values in Dynamic items is implementation-defined: re-target the model to the chosen type
    try:
        model, exp_get = _resolve(desc, value, obj, "D0")
    except _Changed as exc:
        return Failure(f"dyn-plain:{exc.args[0]}", case, exc.args[1], exc.args[2])
    ref_item = gi.to_ref(model)
    expect = e5.encode(ref_item)
    if got != expect:
        return Failure(f"encode-mismatch:{_where(desc, value)}", case, got[:64].hex(), expect[:64].hex())
    # independent decoder reads secsgem's bytes
    try:
        if e5.decode_all(got) != ref_item:
            return Failure("ref-decode-differs", case, "ref.decode(encode()) != model", "equal")
    except e5.E5Error as exc:
        return Failure("ref-decode-rejects", case, _exc(exc), "valid E5")
    # get() of the constructed object
    try:
        g = obj.get()
    except Exception as exc:
        return Failure(f"get-raises:{_where(desc, value)}", case, _exc(exc), "value")
    if not sg.same_value(g, exp_get):
        return Failure(f"get-mismatch:{_where(desc, value)}", case, repr(g)[:300], repr(exp_get)[:300])
    # decode into a fresh object
    tail = bytes.fromhex(case.get("tail", ""))
    try:
        fresh = make()
        pos = fresh.decode(got + tail)
    except Exception as exc:
        b = fb or ("dynamic-decode-jis8" if "Unsupported format 17" in str(exc) else f"decode-raises:{type(exc).__name__}:{_where(desc, value)}")
        return Failure(b, case, _exc(exc), "decodes own encoding")
    if pos != len(got):
        return Failure(f"decode-consumed:{_where(desc, value)}", case, pos, len(got))
    try:
        g2 = fresh.get()
        re = fresh.encode()
    except Exception as exc:
        return Failure(f"decoded-get-raises:{_where(desc, value)}", case, _exc(exc), "value")
    if not sg.same_value(g2, exp_get):
        return Failure(f"roundtrip-value:{_where(desc, value)}", case, repr(g2)[:300], repr(exp_get)[:300])
    if re != got:
        return Failure(f"roundtrip-reencode:{_where(desc, value)}", case, re[:64].hex(), got[:64].hex())
    if desc["k"] in ("leaf", "dyn"):
        try:
            eq = fresh == obj
        except Exception as exc:
            return Failure("eq-raises", case, _exc(exc), "==")
        if not eq and not _has_nan(model):
            return Failure(f"roundtrip-eq:{_where(desc, value)}", case, "decoded != original", "==")
    return None


class _Changed(Exception):
    pass


def _resolve(desc, value, obj, name):
    """Walk descriptor, value and the constructed object together -> (model item, expected get())."""
    k = desc["k"]
    if k == "leaf":
        return value["item"], sg.expected_get(value["item"])
    if k == "dyn":
        item = value["item"]
        if value["form"] == "plain":
            chosen = sg.fmt_of_obj(obj)
            allowed = desc["types"] or (ALL_TYPES + ["J"])
            if chosen not in allowed:
                raise _Changed("type-not-allowed", chosen, f"one of {allowed}")
            item2 = _retarget(item, chosen, value.get("pform"))
            if item2 is None:
                raise _Changed("value-changed", f"stored as {chosen}: {obj.get()!r}", f"value of {item}")
            item = item2
        return item, sg.expected_get(item)
    if k == "array":
        ms, gs = [], []
        for i, x in enumerate(value["v"]):
            m, g = _resolve(desc["of"], x, obj.data[i], name + "E")
            ms.append(m)
            gs.append(g)
        return {"f": "L", "v": ms}, gs
    ms, gs = [], {}
    children = list(obj.data.values())
    for i, (d, x) in enumerate(zip(desc["fields"], value["v"])):
        m, g = _resolve(d, x, children[i], f"{name}F{i}")
        ms.append(m)
        gs[sg.key_of(d, f"{name}F{i}")] = g
    return {"f": "L", "v": ms}, gs


def _has_nan(item):
    for lf in gi.leaves_of(item):
        if lf["f"] in e5.FLOATS:
            for b in lf["v"] if "v" in lf else lf["pat"]:
                if not e5.is_finite_bits(lf["f"], b):
                    return True
    return False


def _retarget(item, chosen, pform=None):
    """Re-express a plain leaf value in the type secsgem chose for it; None if the value would change."""
    f = item["f"]
    if f == chosen:
        return item
    el = gi.expand(item)
    if len(el) == 0:  # an empty sequence carries no type information
        return {"f": chosen, "v": []}
    if f in e5.INTS or f == "BOOLEAN":
        vals = [int(x) for x in el]
        if chosen in e5.INTS:
            lo, hi = e5.int_range(chosen)
            if all(lo <= x <= hi for x in vals):
                return {"f": chosen, "v": vals}
            return None
        if chosen == "BOOLEAN" and all(x in (0, 1) for x in vals):
            return {"f": chosen, "v": vals}
        if chosen in e5.FLOATS:
            try:
                bits = [e5.float_bits(chosen, float(x)) for x in vals]
            except OverflowError:
                return None
            return {"f": chosen, "v": bits}  # numbers stored in a float type are rounded to nearest (assumption)
        if chosen == "B" and all(0 <= x <= 255 for x in vals) and f != "BOOLEAN":
            return {"f": "B", "v": vals}
        return None
    if f in e5.FLOATS:
        xs = [e5.bits_float(f, b) for b in el]
        if chosen in e5.FLOATS:
            try:
                bits = [e5.float_bits(chosen, x) for x in xs]
            except OverflowError:
                return None
            return {"f": chosen, "v": bits}  # rounded to nearest in the chosen width (assumption)
        return None
    if f in ("A", "J", "B") and chosen in ("A", "J", "B"):
        if f == "B" or chosen == "B":
            return {"f": chosen, "v": list(el)}  # same payload bytes, text type merely names them as characters
        if pform == "bytes":
            return {"f": chosen, "v": list(el)}
        # A <-> J: same str must encode to the same characters
        s = e5.jis8_to_str(bytes(el)) if f == "J" else e5.latin1_to_str(bytes(el))
        try:
            raw = bytes(e5.JIS8_REV[ord(c)] for c in s) if chosen == "J" else s.encode("latin-1")
        except (KeyError, UnicodeEncodeError):
            return None
        return {"f": chosen, "v": list(raw)}
    return None


def _where(desc, value):
    k = desc["k"]
    if k == "leaf":
        return f"{desc['f']}/{value['form']}"
    if k == "dyn":
        return f"dyn/{value['item']['f']}/{value['form']}"
    return k


def nontrivial(model):
    return (
        gi.crosses_length_boundary(model)
        or gi.has_numeric_boundary(model)
        or gi.depth(model) >= 2
        or gi.has_special_text(model)
    )


def classes_of(desc, value, model):
    out = [f"kind:{desc['k']}"]
    for lf in gi.leaves_of(model):
        out.append(f"fmt:{lf['f']}")
        n = len(lf["v"]) if "v" in lf else lf["n"]
        out.append("n=0" if n == 0 else "n=1" if n == 1 else "n>1")
    out.append(f"depth:{min(gi.depth(model), 5)}")
    if desc["k"] == "leaf":
        out.append(f"form:{value['form']}")
    if desc["k"] == "dyn":
        out.append(f"dynform:{value['form']}")
    return out


# --------------------------------------------------------------------------------------------
# tasks


def plan(tier, seed):
    quick = tier == "quick"
    tasks = []
    # the deterministic enumerations come first: they are cheap and must not fall victim to the budget on a loaded machine
    tasks.append(("boundary", {"big": False, "shard": 0, "of": 1}))
    tasks.append(("bytes256", {}))
    tasks.append(("text_accept", {"full": not quick}))
    tasks.append(("doubles", {"n": 3000 if quick else 100000}))
    for i in range(2 if quick else 8):
        tasks.append(("reuse", {"shard": i, "n": 400 if quick else 10000}))
    if quick:
        tasks.append(("header", {"mode": "sampled"}))
    else:
        for i in range(16):
            tasks.append(("header", {"mode": "all", "shard": i, "of": 16}))
        for f in ("A", "B", "J"):
            tasks.append(("huge", {"f": f}))
    per = 1200 if quick else 40000
    for i in range(16):
        tasks.append(("gen", {"shard": i, "n": per}))
    return tasks


@st.composite
def reuse_strategy(draw):
    f = draw(st.sampled_from(gi.SCALARS))
    a = draw(gi.leaf(f, allow_nan=False, max_n=6))
    b = draw(gi.leaf(f, allow_nan=False, max_n=6))
    na = len(gi.expand(a))
    ops = ["set", "decode"] + (["setitem", "setitem"] if na >= 1 and f not in ("A", "J") else [])
    op = draw(st.sampled_from(ops))
    case = {"reuse": {"f": f, "first": a, "second": b, "op": op}}
    if op == "setitem":
        case["reuse"]["index"] = draw(st.integers(0, na - 1))
        case["reuse"]["elem"] = draw(gi.leaf(f, allow_nan=False, max_n=1).filter(lambda it: len(gi.expand(it)) == 1))
    return case


def check_reuse(case):
    """An object that was already encoded once must encode (and report) its CURRENT value after it was changed through set(),
    the indexer or decode(): the bytes are a function of the value, not of the object's history."""
    r = case["reuse"]
    f = r["f"]
    cls = sg.cls_of(f)
    first, second = r["first"], r["second"]
    try:
        obj = cls(sg.leaf_pyvalue(first, "list" if f not in ("A", "J", "B") else "bytes"))
        b1 = obj.encode()
    except Exception as exc:
        return Failure(f"reuse:construct-raises:{f}", case, _exc(exc), "value accepted")
    if b1 != e5.encode(gi.to_ref(first)):
        return None  # the plain encode/round-trip tasks report this
    cur = list(gi.expand(first))
    try:
        if r["op"] == "set":
            obj.set(sg.leaf_pyvalue(second, "list" if f not in ("A", "J", "B") else "bytes"))
            cur = list(gi.expand(second))
        elif r["op"] == "decode":
            obj.decode(e5.encode(gi.to_ref(second)))
            cur = list(gi.expand(second))
        else:
            el = gi.expand(r["elem"])[0]
            pv = sg.leaf_pyvalue(r["elem"], "list")[0] if f not in ("A", "J", "B") else el
            obj[r["index"]] = pv
            cur[r["index"]] = el
    except Exception:
        # whether the indexer / set() accepts the update is not C01's subject (observation: Binary's indexer raises for
        # every index when the item has no count limit); only an update that was ACCEPTED must show up in the encoding
        return None
    want_item = {"f": f, "v": cur}
    want = e5.encode(gi.to_ref(want_item))
    try:
        got = obj.encode()
        g = obj.get()
    except Exception as exc:
        return Failure(f"reuse:encode-raises:{f}", case, _exc(exc), want.hex()[:80])
    if got != want:
        return Failure(f"reuse:stale-encoding-after-{r['op']}:{'num' if f in gi.NUMS else f}", case, got.hex()[:80], want.hex()[:80])
    if not sg.same_value(g, sg.expected_get(want_item)):
        return Failure(f"reuse:stale-value-after-{r['op']}:{'num' if f in gi.NUMS else f}", case, repr(g)[:200], repr(sg.expected_get(want_item))[:200])
    return None


def run_task(name, kw, ctx):
    if name == "reuse":

        def body_reuse(case):
            r = case["reuse"]
            ctx.case(case, True, ["reuse", f"reuse:{r['op']}", f"reuse-fmt:{r['f']}"])
            return check_reuse(case)

        ctx.hyp(reuse_strategy(), body_reuse, kw["n"], seed_offset=700 + kw["shard"])
        return
    if name == "gen":
        strat = st.builds(
            lambda dv, tail, top: {"desc": dv[0], "value": dv[1], "tail": tail.hex(), "top": top},
            st.one_of(desc_value(0), desc_value(1), desc_value(2), desc_value(3 if ctx.tier == "quick" else 5)),
            st.binary(min_size=1, max_size=4),
            st.sampled_from(["generate", "direct"]),
        )

        def body(case):
            model = sg.model_item(case["desc"], case["value"])
            ctx.case(case, nontrivial(model), classes_of(case["desc"], case["value"], model))
            return check_case(case)

        ctx.hyp(strat, body, kw["n"], seed_offset=kw["shard"])
    elif name == "boundary":
        rnd = random.Random(ctx.seed)
        for f in gi.SCALARS:
            for n in gi.boundary_counts(f):
                if ctx.out_of_time():
                    return
                pat = _pattern(f, rnd)
                item = {"f": f, "pat": pat, "n": n}
                forms = sg.leaf_forms({"f": f, "v": pat * 2})
                form = forms[rnd.randrange(len(forms))] if n < 70000 else forms[0]
                case = {
                    "desc": {"k": "leaf", "f": f, "count": -1},
                    "value": {"item": item, "form": form},
                    "tail": "ff",
                    "top": "direct",
                }
                ctx.case(case, True, [f"boundary:{f}", f"nbytes:{n * e5.WIDTH.get(f, 1)}"])
                ctx.report(check_case(case))
        # boundary element counts of lists/arrays (L length = element count)
        for n in (255, 256, 65535, 65536):
            if ctx.out_of_time():
                return
            case = {
                "desc": {"k": "array", "of": {"k": "leaf", "f": "U1", "count": -1}, "count": -1},
                "value": {"v": [{"item": {"f": "U1", "v": [i % 256]}, "form": "scalar"} for i in range(n)]},
                "tail": "00",
            }
            ctx.case({"array_of_U1": n}, True, [f"boundary:L:{n}"], key=f"arr{n}".encode())
            ctx.report(_strip(check_case(case), {"array_of_U1": n}))
    elif name == "huge":
        f = kw["f"]
        rnd = random.Random(ctx.seed + 7)
        for n in (16777214, 16777215):
            pat = _pattern(f, rnd)
            case = {
                "desc": {"k": "leaf", "f": f, "count": -1},
                "value": {"item": {"f": f, "pat": pat, "n": n}, "form": "bytes"},
                "tail": "aa",
                "top": "direct",
            }
            ctx.case(case, True, [f"huge:{f}:{n}"])
            ctx.report(check_case(case))
    elif name == "header":
        _header_task(kw, ctx)
    elif name == "bytes256":
        # every byte value in A / J / B / BOOLEAN payloads, every constructor form
        for f in ("A", "J", "B"):
            for b in range(256):
                for form in sg.leaf_forms({"f": f, "v": [b, b]}):
                    for n in (1, 2):
                        item = {"f": f, "v": [b] * n}
                        if form not in sg.leaf_forms(item):
                            continue
                        case = {"desc": {"k": "leaf", "f": f, "count": -1}, "value": {"item": item, "form": form}, "tail": "00", "top": "direct"}
                        ctx.case(case, b < 32 or b >= 127 or b in (34, 39, 60, 62), [f"allbytes:{f}"])
                        ctx.report(check_case(case))
    elif name == "doubles":
        _doubles_task(kw, ctx)
    elif name == "text_accept":
        # which CHARACTERS do the text types accept as str, and does every accepted one round-trip?
        cps = set(range(0, 0x300)) | {0x00A5, 0x203E} | set(range(0xFF00, 0x10000)) | {0x2000 + i * 37 for i in range(200)}
        if kw["full"]:
            cps = set(range(0, 0x10000)) - set(range(0xD800, 0xE000))
        for f in ("A", "J"):
            for cp in sorted(cps):
                for ctx_form in ("single", "embedded"):
                    case = {"text_accept": {"f": f, "cp": cp, "form": ctx_form}}
                    ctx.case(case, cp >= 0x80 or cp in (0x5C, 0x7E, 0x22), [f"text-accept:{f}"])
                    ctx.report(check_text_accept(case["text_accept"]))
            if ctx.out_of_time():
                return


def _strip(f, small_case):
    if f is not None:
        f.case = small_case
    return f


def _pattern(f, rnd):
    if f in e5.INTS:
        lo, hi = e5.int_range(f)
        return [lo, hi, 0, rnd.randint(lo, hi)]
    if f == "F4":
        return [0x7F7FFFFF & 0x7F7FFFEE, 0x00000001, 0x80000000, rnd.getrandbits(31) & 0x7F0FFFFF]
    if f == "F8":
        return [0x0000000000000001, 0x8000000000000000, 0x3FF0000000000000, rnd.getrandbits(62) & 0x7FDFFFFFFFFFFFFF]
    if f == "BOOLEAN":
        return [1, 0, 0, 1, 1]
    return [0, 255, 65, rnd.randrange(256), 0x5C, 0xB1]


def _header_task(kw, ctx):
    from secsgem.secs import variables

    objs = {f: sg.cls_of(f)() for f in gi.SCALARS}
    objs["L"] = variables.Array(variables.U1)
    rnd = random.Random(ctx.seed + 13)
    if kw["mode"] == "sampled":
        lengths = set()
        for thr in (0, 255, 256, 65535, 65536, 16777215):
            for d in range(-3, 4):
                if 0 <= thr + d <= 0xFFFFFF:
                    lengths.add(thr + d)
        lengths |= {rnd.randrange(0, 1 << 24) for _ in range(100000)}
        lengths = sorted(lengths)
        fmts = list(objs)
    else:
        lo = (1 << 24) * kw["shard"] // kw["of"]
        hi = (1 << 24) * (kw["shard"] + 1) // kw["of"]
        lengths = range(lo, hi)
        fmts = list(objs)
    nf = len(fmts)
    bad = None
    n = 0
    for i, length in enumerate(lengths):
        f = fmts[i % nf] if kw["mode"] == "all" else fmts[rnd.randrange(nf)]
        o = objs[f]
        exp = e5.header(f, length)
        try:
            got = o.encode_item_header(length)
            ok = got == exp
            if ok:
                pos, code, ln = o.decode_item_header(got + b"\x00", 0)
                ok = (pos, code, ln) == (len(exp), e5.CODES[f], length)
                if ok:
                    # non-minimal forms decode to the same length
                    for nlb in (2, 3):
                        if length < (1 << (8 * nlb)) and nlb > e5.min_nlb(length):
                            h = e5.header(f, length, nlb)
                            p2, c2, l2 = o.decode_item_header(b"\xaa" + h, 1)
                            ok = ok and (p2, c2, l2) == (1 + len(h), e5.CODES[f], length)
        except Exception as exc:
            ok = False
            got = repr(exc).encode()
        n += 1
        if not ok and bad is None:
            bad = Failure("item-header", {"header": {"f": f, "length": length}}, got.hex() if isinstance(got, bytes) else got, exp.hex())
        if (i & 0xFFFF) == 0 and ctx.out_of_time():
            break
    ctx.evals += n
    ctx.classes["header_lengths_checked"] += n
    if kw["mode"] == "all":
        ctx.classes["header_exhaustive_shards_done"] += 1
    for thr in (255, 256, 65535, 65536, 16777215):
        if thr in lengths:
            ctx.nontrivial.add(f"hdr{thr}".encode())
    ctx.report(bad)


def check_header(case):
    from secsgem.secs import variables

    f, length = case["f"], case["length"]
    o = variables.Array(variables.U1) if f == "L" else sg.cls_of(f)()
    exp = e5.header(f, length)
    try:
        got = o.encode_item_header(length)
        if got != exp:
            return Failure("item-header", {"header": case}, got.hex(), exp.hex())
        pos, code, ln = o.decode_item_header(got + b"\x00", 0)
        if (pos, code, ln) != (len(exp), e5.CODES[f], length):
            return Failure("item-header", {"header": case}, (pos, code, ln), (len(exp), e5.CODES[f], length))
    except Exception as exc:
        return Failure("item-header", {"header": case}, _exc(exc), exp.hex())
    return None


def _doubles_task(kw, ctx):
    """F4 given python doubles that are not binary32-representable: expected = round-to-nearest binary32."""
    import struct

    strat = st.lists(
        st.floats(min_value=-3.40282e38, max_value=3.40282e38, allow_nan=False, allow_infinity=False, width=64),
        min_size=1,
        max_size=4,
    )

    def body(xs):
        from secsgem.secs import variables

        case = {"doubles": [x.hex() for x in xs]}
        bits = [struct.unpack(">I", struct.pack(">f", x))[0] for x in xs]
        ctx.case(case, any(struct.unpack(">f", struct.pack(">f", x))[0] != x for x in xs), ["f4-from-double"])
        return check_doubles(case)

    ctx.hyp(strat, body, kw["n"], seed_offset=99)


def check_doubles(case):
    import struct

    from secsgem.secs import variables

    xs = [float.fromhex(h) for h in case["doubles"]]
    bits = [struct.unpack(">I", struct.pack(">f", x))[0] for x in xs]
    exp = e5.encode(("F4", bits))
    big = any(abs(e5.bits_f4(b)) > 3.40282e38 for b in bits)
    try:
        obj = variables.F4(xs)
        got = obj.encode()
    except Exception as exc:
        return Failure("f4-double-construct", case, _exc(exc), "accepted")
    if got != exp:
        return Failure("f4-double-encode", case, got.hex(), exp.hex())
    try:
        fresh = variables.F4()
        pos = fresh.decode(got)
        if pos != len(got) or fresh.encode() != got:
            return Failure("f4-double-roundtrip", case, (pos, fresh.encode().hex()), (len(got), got.hex()))
    except Exception as exc:
        return Failure("float-above-declared-limit" if big else "f4-double-decode", case, _exc(exc), "decodes own encoding")
    return None


def check_text_accept(tc):
    """A str the text type accepts must encode per the reference character table and decode back to the same str."""
    f, cp = tc["f"], tc["cp"]
    text = chr(cp) if tc["form"] == "single" else "a" + chr(cp) + "b"
    cls = sg.cls_of(f)
    case = {"text_accept": tc}
    try:
        obj = cls(text)
    except Exception:
        return None  # not an accepted value
    table = e5.JIS8_REV if f == "J" else {i: i for i in range(256)}
    try:
        got = obj.encode()
    except Exception as exc:
        return Failure(f"text-accepted-but-encode-raises:{f}", case, _exc(exc), "bytes")
    if any(ord(c) not in table for c in text):
        return Failure(f"text-accepted-outside-repertoire:{f}", case, got.hex(), f"U+{cp:04X} has no {f} byte: reject it")
    exp = e5.encode((f, bytes(table[ord(c)] for c in text)))
    if got != exp:
        return Failure(f"text-accepted-encode-mismatch:{f}", case, got.hex(), exp.hex())
    try:
        fresh = cls()
        pos = fresh.decode(got)
        back = fresh.get()
    except Exception as exc:
        return Failure(f"text-accepted-decode-raises:{f}", case, _exc(exc), "decodes")
    if pos != len(got) or back != text:
        return Failure(f"text-accepted-but-not-roundtrip:{f}", case, repr(back), repr(text))
    return None


def replay(case, ctx):
    if "reuse" in case:
        return check_reuse(case)
    if "text_accept" in case:
        return check_text_accept(case["text_accept"])
    if "header" in case:
        return check_header(case["header"])
    if "doubles" in case:
        return check_doubles(case)
    if "array_of_U1" in case:
        n = case["array_of_U1"]
        full = {
            "desc": {"k": "array", "of": {"k": "leaf", "f": "U1", "count": -1}, "count": -1},
            "value": {"v": [{"item": {"f": "U1", "v": [i % 256]}, "form": "scalar"} for i in range(n)]},
            "tail": "00",
        }
        return _strip(check_case(full), case)
    return check_case(case)
