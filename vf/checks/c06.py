"""C06 - replies reach exactly their requester; messages delivered once, in order.

Several application threads call send_and_waitfor_response concurrently on the real HsmsProtocol (real TCP classes on
simulated sockets, deterministic scheduler with PRNG schedules and parked line-level preemptions in the request path).
Each request's body names its caller, so the wire shows which system bytes the library gave to which call. The scripted
peer answers in a generated order with generated delays (before / after T3) or not at all, interleaves unsolicited
primaries and optionally drops and re-establishes the link.

Invariants over the recorded history:
 (i)   system bytes of requests outstanding at the same time are pairwise distinct on the wire
 (ii)  every call returns: the message whose system bytes equal those of ITS request if the peer sent one in time,
       otherwise None; never another caller's reply; a reply sent well before T3 must not be lost
 (iii) every other inbound data message reaches message_received exactly once
 (iv)  handler invocations never overlap and follow arrival order - also after a reconnect
"""

from __future__ import annotations

import os

from hypothesis import strategies as st

from vf import hsmsrig
from vf.ref import e5, e37
from vf.run import Failure

PROPERTY = "C06"
LEVEL = "exploration"
TECHNIQUE = "property-based testing of concurrent requesters under a deterministic scheduler (PRNG schedules + parked line-level preemptions), history invariants checked on the wire"
RULE = (
    "Case = 1..5 requester threads x 1..3 calls with start offsets, per-request peer action (reply after d < T3 | reply "
    "after T3 | never | drop the link on reading the request), unsolicited primaries at generated times (optionally carrying the system bytes of a request that is outstanding at that moment), 0..2 link drops with reconnect, initial system counter "
    "(incl. 2^32-3..2^32-1 wrap), schedule seed, switch probability and preemption probability in {get_next_system_counter, "
    "_get_queue_for_system, _remove_queue, send_and_waitfor_response, _dispatcher_thread_function}; frames due at the same instant "
    "arrive one by one, back-to-back or in one segment; a quarter of the cases is a focused burst family (immediate replies and "
    "unsolicited primaries at the same instants, nothing afterwards, preemptions in the dispatcher and the receive hand-over). "
    "Further focused families: a reply that leaves the peer at the very instant the caller's T3 expires followed by further requests (t3-edge), "
    "the peer's first primaries travelling directly behind its Select.req at a reconnect (eager-reconnect), a handler busy across a reconnect. "
    "SECS-I variant (task secsi): 1..4 application threads of one SecsIProtocol endpoint request concurrently over the simulated line (multi-block "
    "requests interleave in the send queue), the other endpoint's application answers in a generated order / in concurrent groups / late / never and "
    "sends primaries of its own, also with the system bytes of an open request; same routing invariants. "
    "Non-trivial = >=2 requests outstanding simultaneously with replies in a different order, or a late/missing reply, or a "
    "reconnect with traffic on both sides, or a burst of >=2 inbound messages at one instant; distinct by case hash."
)
ASSUMPTIONS = [
    "schedules are sampled; preemption is at source-line granularity inside the hot functions (finer than CPython's GIL switching, coarser than bytecode)",
    "a reply that the peer sends within 0.5 s of the T3 expiry may legitimately be reported as timeout (boundary not pinned)",
    "requests in flight at the moment the link is lost must return None within T3 + 5 s (timeout), not hang",
]
BUDGET_S = {"quick": 110, "thorough": 1200}

T3 = 5.0
HOT = ("get_next_system_counter", "_get_queue_for_system", "_remove_queue", "send_and_waitfor_response", "_dispatcher_thread_function", "send_message", "_receiver_thread_function")


@st.composite
def case_strategy(draw):
    nreq = draw(st.integers(1, 5))
    reqs = []
    for j in range(nreq):
        calls = []
        for k in range(draw(st.integers(1, 3))):
            act = draw(st.sampled_from(["reply", "reply", "reply", "reply", "reply", "reply", "late", "late", "never", "never", "drop", "edge", "edge"]))
            calls.append({"act": act, "delay": draw(st.sampled_from([0.0, 0.05, 0.2, 0.5, 1.0, 3.0]))})
        reqs.append({"start": draw(st.sampled_from([0.0, 0.0, 0.01, 0.1, 0.3])), "calls": calls})
    unsol = draw(st.lists(st.sampled_from([0.0, 0.05, 0.15, 0.3, 0.6, 1.0, 2.0, 6.0]), max_size=5))
    drops = draw(st.lists(st.sampled_from([0.05, 0.2, 0.4, 1.0, 2.5]), max_size=2, unique=True))
    stay_down = draw(st.sampled_from([False, False, False, True])) if drops else False
    syscnt = draw(st.sampled_from([1000, 1000, 2**32 - 1, 2**32 - 2, 2**32 - 3, 0, 7]))
    sched = draw(
        st.one_of(
            st.just({"seed": 0}),
            st.builds(
                lambda s, p, pp: {"seed": s, "switch": p, "pprob": pp, "hot": list(HOT)},
                st.integers(1, 2**31),
                st.sampled_from([0.1, 0.5, 0.9]),
                st.sampled_from([0.0, 0.05, 0.2]),
            ),
        )
    )
    sched["syscnt"] = syscnt
    burst = draw(st.sampled_from(["settled", "separate", "joined"]))
    family = draw(st.sampled_from(["main"] * 10 + ["slow-handler", "slow-handler", "eager-reconnect", "eager-reconnect", "burst", "burst", "burst", "burst", "t3-edge", "t3-edge"]))
    if family == "t3-edge":
        # focused family: replies that leave the peer at the very instant the caller's T3 expires, each followed by further
        # requests of the same or another caller; preemptions between the expired wait and the release of the reply queue
        reqs = []
        for _ in range(draw(st.integers(1, 3))):
            calls = [{"act": draw(st.sampled_from(["edge", "edge", "reply", "never"])), "delay": draw(st.sampled_from([0.0, 0.05, 0.5]))} for _ in range(draw(st.integers(2, 3)))]
            reqs.append({"start": draw(st.sampled_from([0.0, 0.0, 0.01, 0.3])), "calls": calls})
        if not any(c["act"] == "edge" for r in reqs for c in r["calls"][:-1]):
            reqs[0]["calls"][0]["act"] = "edge"
        return {
            "reqs": reqs, "unsol": [], "drops": [], "stay_down": False,
            "sched": {"seed": draw(st.integers(1, 2**31)), "switch": draw(st.sampled_from([0.1, 0.5, 0.9])), "pprob": draw(st.sampled_from([0.05, 0.2, 0.4])),
                      "hot": ["send_and_waitfor_response", "_remove_queue", "_get_queue_for_system", "_on_connection_message_received"], "syscnt": syscnt},
            "burst": "settled", "handler_sleep": 0.001, "collide": False, "family": "t3-edge",
        }
    if family == "slow-handler":
        # focused family: an application handler that is still busy while the link drops and comes back; the messages of the new
        # link must wait for it (one at a time, in order). No requesters: their replies would queue behind the slow handler.
        return {
            "reqs": [],
            "unsol": sorted(draw(st.lists(st.sampled_from([0.0, 0.05, 1.1, 1.2, 1.2, 1.3, 2.0, 2.5]), min_size=2, max_size=6))),
            "drops": draw(st.sampled_from([[0.05], [0.2], [0.05, 1.4], [1.0]])),
            "stay_down": False,
            "sched": draw(st.one_of(st.just({"seed": 0, "syscnt": syscnt}), st.builds(lambda sd, p: {"seed": sd, "switch": p, "syscnt": syscnt}, st.integers(1, 2**31), st.sampled_from([0.1, 0.5])))),
            "burst": draw(st.sampled_from(["settled", "separate", "joined"])),
            "handler_sleep": draw(st.sampled_from([1.2, 1.5, 3.0])),
            "family": "slow-handler",
        }
    if family == "eager-reconnect":
        # focused family: after a link drop the peer reconnects and sends its first primaries directly behind the Select.req,
        # so that they sit in the receive buffer while the endpoint still handles the new connection; preemptions in the
        # connect handler and the framing loop. Select.req comes first in the stream: all of them are due in SELECTED, in order.
        return {
            "reqs": [],
            "unsol": sorted(draw(st.lists(st.sampled_from([0.0, 1.2, 1.3, 2.0]), max_size=3))),
            "drops": draw(st.sampled_from([[0.05], [0.2], [0.05, 1.4]])),
            "stay_down": False,
            "sched": {"seed": draw(st.integers(1, 2**31)), "switch": draw(st.sampled_from([0.1, 0.5, 0.9])), "pprob": draw(st.sampled_from([0.0, 0.05, 0.2])),
                      "hot": ["_on_connected", "_process_received_data", "_receiver_thread_function", "queue_block", "pop", "peek"], "syscnt": syscnt},
            "burst": draw(st.sampled_from(["separate", "joined"])),
            "handler_sleep": draw(st.sampled_from([0.0, 0.001])),
            "eager": draw(st.integers(1, 4)),
            "family": "eager-reconnect",
        }
    if family == "burst":
        # focused family: bursts of inbound messages (replies at once, unsolicited primaries at the same instants), no rescuing
        # traffic afterwards, a handler that returns at once, preemptions only in the dispatcher / receive hand-over
        reqs = [
            {"start": 0.0, "calls": [{"act": "reply", "delay": 0.0} for _ in range(draw(st.integers(1, 2)))]}
            for _ in range(draw(st.integers(0, 3)))
        ]
        times = draw(st.lists(st.sampled_from([0.0, 0.05, 0.3]), min_size=0 if reqs else 2, max_size=5))
        return {
            "reqs": reqs,
            "unsol": sorted(times),
            "drops": [],
            "stay_down": False,
            "sched": {"seed": draw(st.integers(1, 2**31)), "switch": draw(st.sampled_from([0.5, 0.9])), "pprob": draw(st.sampled_from([0.05, 0.1, 0.2])),
                      "hot": ["_dispatcher_thread_function", "queue_block"], "syscnt": syscnt},
            "burst": draw(st.sampled_from(["separate", "joined"])),
            "handler_sleep": draw(st.sampled_from([0.0, 0.0, 0.001])),
            "family": "burst",
        }
    return {"reqs": reqs, "unsol": sorted(unsol), "drops": sorted(drops), "stay_down": stay_down, "sched": sched, "burst": burst, "handler_sleep": draw(st.sampled_from([0.001, 0.001, 0.0])),
            "collide": draw(st.sampled_from([False, False, True]))}


def _reconnect(rig, sim, system, inbox, patience=1.0, eager=(), joined=True):
    """Peer reconnects and selects; the Select.rsp is read by the peer actor (it owns the socket's receive side).

    eager: data frames the peer sends directly behind its Select.req (same segment or back to back), i.e. bytes that are
    already in the receive buffer while the endpoint is still handling the new connection."""
    if eager:
        # no settle between connect and the first bytes: they race the endpoint's connection handling
        try:
            rig.peer = rig.net.connect(hsmsrig.ADDR, hsmsrig.PORT)
        except ConnectionRefusedError:
            rig.peer = None
            return False
        rig.rxbuf = b""
        rig._rx_total = 0
        frames = [e37.control_frame(e37.SELECT_REQ, system)] + list(eager)
        if joined:
            rig.peer.send(b"".join(frames))
        else:
            for fr in frames:
                rig.peer.send(fr)
        sim.settle()
    else:
        if not rig.connect_peer():
            return False
        rig.peer.send(e37.control_frame(e37.SELECT_REQ, system))
    # control messages share the dispatcher with the application's handlers: a slow handler delays the Select.rsp
    for _ in range(int(patience / 0.05) + 1):
        sim.advance(0.05)
        if any(f["stype"] == e37.SELECT_RSP and f["system"] == system for f in inbox):
            break
    return rig.state() == "CONNECTED_SELECTED"


def _text(j, k):
    return f"r{j}c{k}".encode()


def run_case(case, observe=None):
    import secsgem.secs

    with hsmsrig.make_world(case.get("sched", {})) as w:
        sim = w.sim
        rig = hsmsrig.Rig(w, active=False, t3=T3)
        rig.p._linktest_timeout = 1e12
        st_, _ = rig.enable()
        if st_ != "done" or not rig.connect_peer() or not rig.select_from_peer():
            return Failure("setup-failed", case, f"{st_} {rig.state()}", "SELECTED")
        rig.frames_out.clear()
        tshim = __import__("secsgem.common.tcp_connection", fromlist=["time"]).time
        t0 = sim.now
        # ---- application handler: records entry/exit, yields in between so that overlapping handlers show up
        log = []

        def on_msg(rec):
            log.append(("enter", rec["system"], sim.now))
            if os.environ.get("VF_DEBUG"):
                import threading as _t
                print("   handler enter", hex(rec["system"]), round(sim.now - t0, 2), _t.current_thread().name, flush=True)
            if case.get("handler_sleep", 0.001):
                tshim.sleep(case.get("handler_sleep", 0.001))
            log.append(("exit", rec["system"], sim.now))

        rig.on_message_hook = on_msg
        # ---- requesters
        results = {}
        threads = []

        def mk(j, spec):
            def run():
                if spec["start"]:
                    tshim.sleep(spec["start"])
                for k, _ in enumerate(spec["calls"]):
                    f = secsgem.secs.functions.SecsS10F03({"TID": j, "TEXT": _text(j, k).decode()})
                    ts = sim.now
                    r = rig.p.send_and_waitfor_response(f)
                    results[(j, k)] = {"t0": ts, "t1": sim.now, "sys": None if r is None else r.header.system,
                                       "sf": None if r is None else (r.header.stream, r.header.function)}
            return run

        for j, spec in enumerate(case["reqs"]):
            threads.append(sim.spawn(mk(j, spec), f"requester-{j}"))
        total_calls = sum(len(r["calls"]) for r in case["reqs"])
        # ---- scripted peer (controller-driven, 50 ms virtual steps)
        wire = {}  # (j,k) -> {"sys", "t"} as seen on the wire
        seen_sys = []  # (sys, t_seen, (j,k))
        pending = []  # (t_send, bytes, kind)
        unsol = [t0 + t for t in case["unsol"]]
        drops = [t0 + t for t in case["drops"]]
        sent_unsol = []  # system bytes in send order
        sent_epoch = {}  # system bytes -> number of link drops before it was sent
        replies_sent = {}  # (j,k) -> t
        # A peer actor INSIDE the simulation reads the endpoint's frames and answers zero-delay replies at once, so that a
        # reply can overtake a requester that is preempted between sending and waiting; everything else (delays, late
        # replies, unsolicited primaries, link drops) is scripted by the controller loop below from the actor's inbox.
        inbox = []
        actor_stop = [False]
        selshim = __import__("secsgem.common.tcp_connection", fromlist=["select"]).select
        thr_shim = __import__("secsgem.common.protocol_dispatcher", fromlist=["threading"]).threading
        fast = bool(case.get("fast_peer", True))

        def peer_actor():
            buf = {"sock": None, "data": b""}
            while not actor_stop[0]:
                sock = rig.peer
                if sock is None or sock.closed:
                    tshim.sleep(0.01)
                    continue
                if buf["sock"] is not sock:
                    buf["sock"], buf["data"] = sock, b""
                try:
                    r, _, _ = selshim.select([sock], [], [], 0.02)
                except ValueError:
                    continue
                if not r:
                    continue
                try:
                    chunk = sock.recv(65536)
                except (BlockingIOError, OSError):
                    continue
                if not chunk:
                    tshim.sleep(0.01)
                    continue
                buf["data"] += chunk
                frames, buf["data"] = e37.parse(buf["data"])
                for f in frames:
                    f["t"] = sim.now
                    f["answered"] = False
                    if fast and f["stype"] == e37.DATA and (f["stream"], f["function"]) == (10, 3):
                        try:
                            item = e5.decode_all(f["body"])
                            jj = item[1][0][1][0]
                            kk = int(item[1][1][1].decode().split("c")[1])
                            spec = case["reqs"][jj]["calls"][kk]
                        except Exception:
                            spec = None
                        if spec is not None and spec["act"] == "drop" and not sock.closed:
                            # the peer drops the link the moment it reads this request: EOF handling races whatever the
                            # other requesters are sending at the same instant
                            f["dropped"] = True
                            inbox.append(f)
                            sock.close()
                            break
                        if spec is not None and spec["act"] == "edge" and not sock.closed:
                            # the reply leaves the peer at the very instant the caller's T3 expires: both outcomes (reply | None)
                            # are fine for THIS call, but whatever the race leaves behind must not reach a later caller
                            def edge(sock=sock, sysb=f["system"]):
                                tshim.sleep(T3)
                                try:
                                    sock.send(e37.data_frame(0, 10, 4, 0, sysb, e5.encode(("B", b"\x00"))))
                                except OSError:
                                    pass

                            thr_shim.Thread(target=edge, name="peer-edge-reply").start()
                            f["answered"] = True
                            f["edge"] = True
                        if spec is not None and spec["act"] == "reply" and spec["delay"] == 0.0 and not sock.closed:
                            try:
                                sock.send(e37.data_frame(0, 10, 4, 0, f["system"], e5.encode(("B", b"\x00"))))
                                f["answered"] = True
                            except OSError:
                                pass
                    inbox.append(f)

        sim.spawn(peer_actor, "peer-actor")
        usys = [0x66000]
        horizon = t0 + 3 * (T3 + 6) + 10
        link_up = True
        n_drops = 0
        garbled = []

        actor_drops = [0]
        collided = set()
        stats_eager = [0]

        def process_inbox():
            new_frames, inbox[:] = list(inbox), []
            rig.frames_out.extend(new_frames)
            for f in new_frames:
                if f.get("dropped"):
                    actor_drops[0] += 1
                if f["stype"] == e37.DATA and (f["stream"], f["function"]) == (10, 3):
                    try:
                        item = e5.decode_all(f["body"])
                        j = item[1][0][1][0]
                        txt = item[1][1][1].decode()
                        k = int(txt.split("c")[1])
                    except Exception:
                        garbled.append(Failure("request-frame-garbled", case, f["body"].hex(), "S10F3 body as sent"))
                        continue
                    wire[(j, k)] = {"sys": f["system"], "t": f["t"]}
                    seen_sys.append((f["system"], f["t"], (j, k)))
                    spec = case["reqs"][j]["calls"][k]
                    if f.get("edge"):
                        pass
                    elif f.get("answered"):
                        replies_sent[(j, k)] = f["t"]
                    elif spec["act"] == "reply":
                        pending.append((sim.now + spec["delay"], e37.data_frame(0, 10, 4, 0, f["system"], e5.encode(("B", b"\x00"))), ("reply", (j, k))))
                    elif spec["act"] == "late":
                        pending.append((sim.now + T3 + 1.0 + spec["delay"], e37.data_frame(0, 10, 4, 0, f["system"], e5.encode(("B", b"\x00"))), ("late", (j, k))))

        while sim.now < horizon:
            st_ = sim.advance(0.05)
            process_inbox()
            if garbled:
                return garbled[0]
            while unsol and unsol[0] <= sim.now:
                unsol.pop(0)
                sysb = None
                if case.get("collide"):
                    # the peer's own primary happens to carry the system bytes of a request the endpoint has outstanding
                    # (both sides number their transactions independently): it is still a primary, not that request's reply
                    for (cj, ck), wv in sorted(wire.items()):
                        if (cj, ck) not in results and (cj, ck) not in replies_sent and (cj, ck) not in collided and case["reqs"][cj]["calls"][ck]["act"] == "reply" and link_up:
                            collided.add((cj, ck))
                            sysb = wv["sys"]
                            break
                if sysb is None:
                    usys[0] += 1
                    sysb = usys[0]
                pending.append((sim.now, e37.data_frame(0, 1, 1, 1, sysb), ("unsol", sysb)))
            if actor_drops[0] and link_up:
                actor_drops[0] = 0
                link_up = False
                n_drops += 1
                t_reconnect = sim.now + 1.0
                pending = [p for p in pending if p[2][0] == "unsol"]
            actor_drops[0] = 0
            if drops and drops[0] <= sim.now and link_up:
                drops.pop(0)
                rig.peer.close()
                link_up = False
                n_drops += 1
                t_reconnect = sim.now + 1.0
                pending = [p for p in pending if p[2][0] == "unsol"]  # replies of the old link are gone
            if not link_up and not drops and case.get("stay_down"):
                t_reconnect = float("inf")  # the link stays down after the last drop: every call must still return
            if not link_up and sim.now >= t_reconnect:
                eager_sys = []
                for _ in range(case.get("eager", 0)):
                    usys[0] += 1
                    eager_sys.append(usys[0])
                if not _reconnect(rig, sim, 0x7700 + n_drops, inbox, patience=1.0 + 2 * case.get("handler_sleep", 0.001),
                                  eager=[e37.data_frame(0, 1, 1, 1, x) for x in eager_sys], joined=case.get("burst") != "separate"):
                    return Failure("reconnect-failed", case, f"{rig.state()} {sim.blocked_report()}", "SELECTED again")
                for x in eager_sys:
                    sent_unsol.append(x)
                    sent_epoch[x] = n_drops
                    stats_eager[0] += 1
                link_up = True
            if link_up and not rig.peer.closed:
                pending.sort(key=lambda p: p[0])
                # frames due at the same instant arrive as a burst (one segment | back-to-back segments), or one by one with
                # the endpoint going idle in between ("settled")
                burst = case.get("burst", "settled")
                due = []
                while pending and pending[0][0] <= sim.now:
                    due.append(pending.pop(0))
                for _, data, kind in due:
                    if rig.peer.closed:
                        break  # the peer actor dropped the link in the meantime (handled in the next round)
                    if burst != "joined":
                        rig.peer.send(data)
                    if kind[0] == "unsol":
                        sent_unsol.append(kind[1])
                        sent_epoch[kind[1]] = n_drops
                    elif kind[0] == "reply":
                        replies_sent[kind[1]] = sim.now
                    if burst == "settled":
                        sim.settle()
                if due and burst == "joined" and not rig.peer.closed:
                    rig.peer.send(b"".join(d[1] for d in due))
                if due and burst != "settled":
                    sim.settle()
            if len(results) == total_calls and not drops and ((not link_up and case.get("stay_down")) or (link_up and not pending and not unsol)):
                # let the application handlers finish what is queued (a slow handler takes its time per message)
                sim.advance(0.2 + (case.get("handler_sleep", 0.001) + 0.01) * (len(sent_unsol) + 1))
                break
        actor_stop[0] = True
        sim.advance(0.1)
        process_inbox()
        if garbled:
            return garbled[0]
        # ---- invariants
        stats = {"drops": n_drops, "late_or_never": 0, "max_outstanding": 0, "stay_down": bool(case.get("stay_down")) and n_drops > 0}
        died = [(t.name, repr(t.error)) for t in threads if t.error is not None]
        if died:
            return Failure(f"caller-raises:{type(threads[[t.error is not None for t in threads].index(True)].error).__name__}", case, died, "reply or None")
        hung = [(j, k) for j, spec in enumerate(case["reqs"]) for k in range(len(spec["calls"])) if (j, k) not in results]
        if hung:
            phase = ("link-down" if stats["stay_down"] else "link-drop") if n_drops else "no-drop"
            return Failure(f"caller-never-returns:{phase}", case, f"calls {hung} still blocked after {sim.now - t0:.1f}s: {sim.blocked_report()}", "reply or timeout (None) for every call")
        # (i) distinct system bytes among simultaneously outstanding requests
        spans = []
        for (j, k), wv in wire.items():
            r = results[(j, k)]
            spans.append((wv["sys"], r["t0"], r["t1"], (j, k)))
        for a in range(len(spans)):
            for b in range(a + 1, len(spans)):
                sa, sb = spans[a], spans[b]
                overl = sa[1] < sb[2] and sb[1] < sa[2]
                if overl:
                    stats["max_outstanding"] = max(stats["max_outstanding"], 2)
                if sa[0] == sb[0] and overl:
                    return Failure("duplicate-system-bytes", case, f"calls {sa[3]} and {sb[3]} both used system 0x{sa[0]:08x} while outstanding", "pairwise distinct")
        # (ii) each call gets its own reply or None
        for (j, k), r in sorted(results.items()):
            spec = case["reqs"][j]["calls"][k]
            wv = wire.get((j, k))
            if r["sys"] is not None:
                if wv is None or r["sys"] != wv["sys"]:
                    return Failure("foreign-reply-returned", case, f"call {(j, k)} got system {r['sys']:#x}, its request used {wv and hex(wv['sys'])}", "own reply or None")
                if r["sf"] != (10, 4):
                    return Failure("foreign-reply-returned", case, f"call {(j, k)} got S{r['sf'][0]}F{r['sf'][1]}", "S10F4")
            if spec["act"] in ("late", "never", "edge"):
                stats["late_or_never"] += 1
            if spec["act"] == "edge":
                stats["edge"] = stats.get("edge", 0) + 1
            if spec["act"] == "reply" and (j, k) in replies_sent and r["sys"] is None:
                # reply was sent clearly before T3 expired (delay <= 3 s of 5 s) on a link that stayed up
                if n_drops == 0:
                    return Failure("reply-lost", case, f"call {(j, k)} returned None although its reply was sent {replies_sent[(j, k)] - wv['t']:.2f}s after the request", "the reply")
            if spec["act"] == "never" and r["sys"] is not None:
                return Failure("reply-invented", case, f"call {(j, k)} returned a message although the peer never answered", "None")
            if r["t1"] - r["t0"] > T3 + 5 + 1e-6:
                return Failure("timeout-too-late", case, f"call {(j, k)} took {r['t1'] - r['t0']:.1f}s", f"<= T3 ({T3}s) + send time")
        # (iii) unsolicited primaries delivered exactly once (those sent while the link was up and not cut by a drop)
        got = [m["system"] for m in rig.received if m["system"] in set(sent_unsol)]
        other = [m for m in rig.received if m["system"] not in set(sent_unsol)]
        if n_drops == 0:
            if sorted(got) != sorted(sent_unsol):
                kind = "lost" if len(got) < len(sent_unsol) else "duplicated"
                return Failure(f"unsolicited-{kind}", case, [hex(x) for x in got], [hex(x) for x in sent_unsol])
            if got != sent_unsol:
                return Failure("unsolicited-reordered", case, [hex(x) for x in got], [hex(x) for x in sent_unsol])
        else:
            if len(set(got)) != len(got):
                return Failure("unsolicited-duplicated", case, [hex(x) for x in got], "each at most once")
            order = [x for x in sent_unsol if x in got]
            if got != order:
                return Failure("unsolicited-reordered", case, [hex(x) for x in got], [hex(x) for x in order])
            if link_up:
                # what the peer sent on the link that is still up (after the last drop, session selected) must all be there
                final = [x for x in sent_unsol if sent_epoch.get(x) == n_drops]
                if [x for x in got if x in set(final)] != final:
                    return Failure("unsolicited-lost:after-reconnect", case, [hex(x) for x in got], [hex(x) for x in final])
        if other:
            late_replies = [m for m in other if (m["stream"], m["function"]) == (10, 4)]
            if len(late_replies) != len(other):
                return Failure("unexpected-delivery", case, [(hex(m["system"]), m["stream"], m["function"]) for m in other], "only unsolicited primaries / late replies")
        # (iv) handler invocations do not overlap
        depth = 0
        for ev, sysb, t in log:
            depth += 1 if ev == "enter" else -1
            if depth > 1:
                return Failure("handler-overlap", case, f"second handler entered for 0x{sysb:x} while another was running", "one at a time")
        if observe is not None:
            observe.update(stats)
            observe["preempt_hits"] = len(sim.preempt_hits)
            observe["dispatchers_alive"] = len(sim.alive("protocol_dispatcher"))
            observe["collisions"] = len(collided)
            observe["eager"] = stats_eager[0]
    return None


# ------------------------------------------------------------------------------------------------------------------
# SECS-I variant (secsgem/secsi/protocol.py is anchored by the property as well): the same routing invariants on the
# real SecsIProtocol pair of vf.secsirig (SECS-I over TCP, simulated sockets, line actor that re-chunks the blocks).
# Only one side transmits at a time (the line protocol has no contention handling beyond ENQ/ENQ, C17's precondition):
# phase 1 - K application threads of side A call send_and_waitfor_response concurrently (their blocks interleave in
# A's send queue, multi-block requests included, B only records); phase 2 - B's application answers in a generated
# order (send_response, in groups of concurrent calls), leaves requests unanswered, answers after T3, and interleaves
# primaries of its own: without W-bit, or with W-bit and the system bytes of a request that is still open at A.

S_T3 = 5.0
S_HOT = HOT + ("_process_send_queue", "_process_received_data", "_add_message_block", "_on_connection_message_received", "queue_block")
S_SIZES = (0, 1, 10, 243, 244, 245, 300, 489)


@st.composite
def secsi_strategy(draw):
    nreq = draw(st.integers(1, 4))
    reqs = [{"n": draw(st.sampled_from(S_SIZES)), "act": draw(st.sampled_from(["reply", "reply", "reply", "reply", "never", "late"]))} for _ in range(nreq)]
    # B's script: a permutation of the replies, cut into groups (members of a group are sent by concurrent threads of B),
    # with primaries of B's own in between
    order = draw(st.permutations([j for j, r in enumerate(reqs) if r["act"] in ("reply", "late")]))
    items = [{"k": "reply", "j": j, "n": draw(st.sampled_from(S_SIZES))} for j in order if reqs[j]["act"] == "reply"]
    n_un = draw(st.integers(0, 3))
    for u in range(n_un):
        kind = draw(st.sampled_from(["prim", "prim", "collide", "foreign-secondary"]))
        items.insert(draw(st.integers(0, len(items))), {"k": kind, "u": u, "n": draw(st.sampled_from(S_SIZES[:6]))})
    groups = []
    while items:
        g = draw(st.sampled_from([1, 1, 1, 2, 3]))
        groups.append(items[:g])
        items = items[g:]
    late = [{"k": "reply", "j": j, "n": 1} for j in order if reqs[j]["act"] == "late"]
    sched = draw(
        st.one_of(
            st.just({"seed": 0}),
            st.builds(lambda s, p, pp: {"seed": s, "switch": p, "pprob": pp, "hot": list(S_HOT)}, st.integers(1, 2**31), st.sampled_from([0.1, 0.5, 0.9]), st.sampled_from([0.0, 0.05, 0.2])),
        )
    )
    sched["syscnt"] = draw(st.sampled_from([1000, 2**32 - 1, 2**32 - 2, 2**32 - 3, 0, 7]))
    return {
        "secsi": {"reqs": reqs, "groups": groups, "late": late, "every": draw(st.sampled_from([0, 0, 1, 16, 100])), "req_every": draw(st.sampled_from([0, 0, 1, 50])),
                  "handler_sleep": draw(st.sampled_from([0.0, 0.001, 0.3]))},
        "a_host": draw(st.booleans()),
        "dev": draw(st.integers(0, 32767)),
        "sched": sched,
    }


def _sbody(tag, n):
    return bytes([tag]) + bytes(((tag * 31 + i) & 0xFF) for i in range(n))


def run_secsi(case, observe=None):
    import secsgem.secs
    import secsgem.secsi.header
    import secsgem.secsi.message

    from vf import secsirig
    from vf.detsim.patch import simulation

    sc = case["secsi"]
    sched = case.get("sched", {})
    with simulation(sched_seed=sched.get("seed", 0), switch_prob=sched.get("switch", 0.0), preempt_prob=sched.get("pprob", 0.0), hot=sched.get("hot", ()),
                    system_counter=sched.get("syscnt", 1000)) as w:
        sim = w.sim
        line = secsirig.Line(w, a_is_host=bool(case["a_host"]), dev_a=case["dev"], dev_b=case["dev"])
        line.a.settings.timeouts.t3 = S_T3
        line.b.settings.timeouts.t3 = S_T3
        if not line.connect():
            return Failure("secsi:setup-failed", case, sim.blocked_report(), "both endpoints connected to the line")
        tshim = __import__("secsgem.common.tcp_connection", fromlist=["time"]).time
        thr_mod = __import__("secsgem.common.protocol_dispatcher", fromlist=["threading"]).threading
        A, B = line.a, line.b
        log = []

        def on_a(data):
            sysb = data["message"].header.system
            log.append(("enter", sysb))
            if sc.get("handler_sleep"):
                tshim.sleep(sc["handler_sleep"])
            log.append(("exit", sysb))

        A.p.events.message_received += on_a
        # ---- phase 1: concurrent requesters on A
        results = {}
        threads = []

        def mk(j, spec):
            def run():
                f = secsgem.secs.functions.SecsS02F25(_sbody(j, spec["n"]))
                ts = sim.now
                r = A.p.send_and_waitfor_response(f)
                results[j] = {"t0": ts, "t1": sim.now, "sys": None if r is None else r.header.system, "sf": None if r is None else (r.header.stream, r.header.function),
                              "body": None if r is None else bytes(r.data)}
            return run

        for j, spec in enumerate(sc["reqs"]):
            threads.append(sim.spawn(mk(j, spec), f"requester-{j}"))
        info = line.transfer(None, "A", {"every": sc.get("req_every", 0)})
        if info["status"] != "done":
            return Failure(f"secsi:request-phase-{info['status']}", case, {"blocked": info.get("blocked"), "error": info.get("error")}, "all requests carried to B")
        sim.settle()
        # which system bytes did the library give to which request (body names the caller)
        wire = {}
        for m in B.received:
            if (m["s"], m["f"]) == (2, 25):
                try:
                    val = e5.decode_all(bytes.fromhex(m["body"]))
                    j = val[1][0]
                except Exception:
                    return Failure("secsi:request-garbled", case, m["body"][:80], "S2F25 body as sent")
                if j >= len(sc["reqs"]) or val != ("B", _sbody(j, sc["reqs"][j]["n"])):
                    return Failure("secsi:request-garbled", case, m["body"][:80], "S2F25 body as sent")
                if j in wire:
                    return Failure("secsi:request-delivered-twice", case, f"request {j}", "once")
                wire[j] = m["sys"]
        died = [(t.name, repr(t.error)) for t in threads if t.error is not None]
        if died:
            return Failure(f"secsi:caller-raises:{type([t.error for t in threads if t.error is not None][0]).__name__}", case, died, "reply or None")
        missing = [j for j in range(len(sc["reqs"])) if j not in wire and j not in results]
        if missing:
            return Failure("secsi:request-not-delivered", case, f"requests {missing} neither arrived at the peer nor returned", "every successfully sent request arrives")
        if len(set(wire.values())) != len(wire):
            return Failure("duplicate-system-bytes", case, {j: hex(s) for j, s in wire.items()}, "pairwise distinct among outstanding requests")
        # ---- phase 2: B's application
        usys = 0x66000
        sent_groups = []  # per group: list of (kind, system) that reported success
        reply_sent = {}
        collided = 0

        def build(item):
            nonlocal usys, collided
            if item["k"] == "reply":
                j = item["j"]
                if j not in wire:
                    return None
                fn_obj = secsgem.secs.functions.SecsS02F26(_sbody(100 + j, item["n"]))
                return ("reply", wire[j], lambda: B.p.send_response(fn_obj, wire[j]), j)
            if item["k"] == "collide":
                open_now = [j for j in sorted(wire) if j not in results and j not in reply_sent]
                if open_now:
                    collided += 1
                    sysb, w_ = wire[open_now[0]], True
                else:
                    usys += 1
                    sysb, w_ = usys, True
            elif item["k"] == "foreign-secondary":
                usys += 1
                sysb, w_ = usys, False
            else:
                usys += 1
                sysb, w_ = usys, False
            sf = (2, 26) if item["k"] == "foreign-secondary" else ((2, 25) if item["n"] else (1, 1))
            body = e5.encode(("B", _sbody(200 + item["u"], item["n"]))) if sf[0] == 2 else b""
            hdr = secsgem.secsi.header.SecsIHeader(sysb, case["dev"], sf[0], sf[1], require_response=w_ and sf != (2, 26), from_equipment=bool(case["a_host"]))
            msg = secsgem.secsi.message.SecsIMessage(hdr, body)
            return ("unsol", sysb, lambda: B.p.send_message(msg), (sf, body))

        def run_group(group):
            built = [b for b in (build(i) for i in group) if b is not None]
            if not built:
                return None
            res = [None] * len(built)

            def fn():
                ths = []
                for i, b in enumerate(built):
                    def run(i=i, b=b):
                        res[i] = b[2]()
                    t = thr_mod.Thread(target=run, name=f"b-app-{i}")
                    t.start()
                    ths.append(t)
                for t in ths:
                    t.join()
                return list(res)

            inf = line.transfer(fn, "B", {"every": sc.get("every", 0)})
            if inf["status"] != "done":
                return Failure(f"secsi:reply-phase-{inf['status']}", case, {"blocked": inf.get("blocked"), "error": inf.get("error")}, "B's send calls return")
            ok = []
            for b, r in zip(built, res):
                if r is True:
                    ok.append(b)
                    if b[0] == "reply":
                        reply_sent[b[3]] = sim.now
            sent_groups.append(ok)
            sim.settle()
            return None

        for group in sc["groups"]:
            # a primary that reuses the system bytes of an open request travels alone (two concurrent messages of one sender
            # with the same system bytes would be ambiguous for SECS-I reassembly, which is nobody's defect)
            parts = [[i] for i in group] if any(i["k"] == "collide" for i in group) else [group]
            for part in parts:
                f = run_group(part)
                if f is not None:
                    return f
        t_phase2 = sim.now
        # let T3 expire for the unanswered ones, then the late replies
        sim.advance(S_T3 + 1.0)
        line.transfer(None, "B", {})
        for item in sc["late"]:
            f = run_group([item])
            if f is not None:
                return f
        sim.advance(0.5 + (sc.get("handler_sleep", 0) + 0.01) * 8)
        line.transfer(None, "B", {})
        sim.settle()
        # ---- invariants
        died = [(t.name, repr(t.error)) for t in threads if t.error is not None]
        if died:
            return Failure(f"secsi:caller-raises:{type([t.error for t in threads if t.error is not None][0]).__name__}", case, died, "reply or None")
        hung = [j for j in range(len(sc["reqs"])) if j not in results]
        if hung:
            return Failure("secsi:caller-never-returns", case, f"calls {hung} still blocked: {sim.blocked_report()}", "reply or timeout (None) for every call")
        late_js = {i["j"] for i in sc["late"]}
        for j, r in sorted(results.items()):
            spec = sc["reqs"][j]
            if r["sys"] is not None:
                if j not in wire or r["sys"] != wire[j]:
                    return Failure("foreign-reply-returned", case, f"call {j} got system {r['sys']:#x}, its request used {hex(wire[j]) if j in wire else None}", "own reply or None")
                if r["sf"] != (2, 26):
                    return Failure("foreign-reply-returned", case, f"call {j} got S{r['sf'][0]}F{r['sf'][1]}", "S2F26")
                exp = [i for g in sc["groups"] for i in g if i["k"] == "reply" and i["j"] == j]
                if exp and r["body"] != e5.encode(("B", _sbody(100 + j, exp[0]["n"]))):
                    return Failure("secsi:reply-body-differs", case, r["body"][:40].hex(), "the body B sent for this request")
            if spec["act"] == "reply" and j in reply_sent and r["sys"] is None and reply_sent[j] - r["t0"] <= S_T3 - 0.5:
                return Failure("reply-lost", case, f"call {j} returned None although its reply was sent {reply_sent[j] - r['t0']:.2f}s after the request", "the reply")
            if spec["act"] == "never" and r["sys"] is not None:
                return Failure("reply-invented", case, f"call {j} returned a message although the peer never answered", "None")
            if spec["act"] == "late" and j in late_js and r["sys"] is not None:
                return Failure("reply-invented", case, f"call {j} returned a message although the peer answered only after T3", "None")
            if r["t1"] - r["t0"] > S_T3 + 5 + (t_phase2 - r["t0"]) + 1e-6:
                return Failure("timeout-too-late", case, f"call {j} took {r['t1'] - r['t0']:.1f}s", f"<= T3 ({S_T3}s) + send time")
        # (iii) B's own messages: each exactly once, groups in order
        un_groups = [[b for b in g if b[0] == "unsol"] for g in sent_groups]
        sent_un = [b[1] for g in un_groups for b in g]
        got = [m for m in A.received if not ((m["s"], m["f"]) == (2, 26) and m["sys"] in set(wire.values()))]
        got_sys = [m["sys"] for m in got]
        if sorted(got_sys) != sorted(sent_un):
            kind = "lost" if len(got_sys) < len(sent_un) else "duplicated-or-invented"
            return Failure(f"unsolicited-{kind}", case, [hex(x) for x in got_sys], [hex(x) for x in sent_un])
        pos = 0
        for g in un_groups:
            seg = got[pos:pos + len(g)]
            pos += len(g)
            if sorted(m["sys"] for m in seg) != sorted(b[1] for b in g):
                return Failure("unsolicited-reordered", case, [hex(x) for x in got_sys], [[hex(b[1]) for b in g] for g in un_groups])
            for m in seg:
                exp = [b for b in g if b[1] == m["sys"]]
                if exp and (((m["s"], m["f"]) != exp[0][3][0]) or bytes.fromhex(m["body"]) != exp[0][3][1]):
                    return Failure("secsi:unsolicited-content-differs", case, (m["s"], m["f"], m["body"][:40]), "as sent")
        # late replies (after the caller timed out) may be handed to the application or dropped: not pinned
        depth = 0
        for ev, sysb in log:
            depth += 1 if ev == "enter" else -1
            if depth > 1:
                return Failure("handler-overlap", case, f"second handler entered for 0x{sysb:x} while another was running", "one at a time")
        if observe is not None:
            observe["collisions"] = collided
            observe["preempt_hits"] = len(sim.preempt_hits)
            observe["nreq"] = len(sc["reqs"])
            observe["multi"] = sum(1 for r in sc["reqs"] if r["n"] > 243)
            observe["late_or_never"] = sum(1 for r in sc["reqs"] if r["act"] != "reply")
            observe["concurrent_b"] = sum(1 for g in sc["groups"] if len(g) > 1)
            observe["replies_returned"] = sum(1 for r in results.values() if r["sys"] is not None)
            observe["unsol_delivered"] = len(got_sys)
            observe["virtual_s"] = round(sim.now, 2)
    return None


def plan(tier, seed):
    quick = tier == "quick"
    tasks = [("gen", {"shard": i, "n": 95 if quick else 1200}) for i in range(16)]
    tasks += [("secsi", {"shard": i, "n": 40 if quick else 600}) for i in range(8)]
    return tasks


def run_task(name, kw, ctx):
    if name == "secsi":

        def sbody(case):
            obs = {}
            f = run_secsi(case, obs)
            cls = ["secsi", f"secsi:requesters:{obs.get('nreq', 0)}"]
            if obs.get("multi"):
                cls.append("secsi:multi-block-request")
            if obs.get("late_or_never"):
                cls.append("secsi:late-or-missing-reply")
            if obs.get("collisions"):
                cls.append("secsi:peer-primary-with-system-bytes-of-an-open-request")
            if obs.get("concurrent_b"):
                cls.append("secsi:concurrent-repliers")
            if obs.get("preempt_hits"):
                cls.append("secsi:preemption-hit")
            if case["sched"].get("syscnt", 0) >= 2**32 - 3:
                cls.append("secsi:counter-wrap")
            nt = obs.get("nreq", 0) >= 2 or obs.get("late_or_never", 0) > 0 or obs.get("collisions", 0) > 0
            ctx.case(case, nt or f is not None, cls)
            return f

        ctx.hyp(secsi_strategy(), sbody, kw["n"], seed_offset=500 + kw["shard"])
        return

    def body(case):
        obs = {}
        f = run_case(case, obs)
        ncalls = sum(len(r["calls"]) for r in case["reqs"])
        nt = (obs.get("max_outstanding", 0) >= 2) or obs.get("late_or_never", 0) > 0 or (obs.get("drops", 0) > 0 and ncalls >= 2)
        cls = [f"requesters:{len(case['reqs'])}", f"burst:{case.get('burst', 'settled')}"]
        if case.get("family") == "slow-handler":
            cls.append("family:slow-handler-across-reconnect")
            nt = True
        if case.get("family") == "t3-edge":
            cls.append("family:t3-edge")
            nt = True
        if case.get("family") == "eager-reconnect":
            cls.append("family:eager-reconnect")
            nt = True
        if case.get("family") == "burst":
            cls.append("family:burst")
            nt = nt or (len(case["unsol"]) - len(set(case["unsol"])) >= 1) or ncalls >= 2
        if obs.get("max_outstanding", 0) >= 2:
            cls.append("concurrent-outstanding")
        if obs.get("late_or_never"):
            cls.append("late-or-missing-reply")
        if obs.get("drops"):
            cls.append("link-drop")
        if obs.get("stay_down"):
            cls.append("link-stays-down")
        if obs.get("collisions"):
            cls.append("peer-primary-with-system-bytes-of-an-open-request")
        if obs.get("edge"):
            cls.append("reply-racing-the-T3-expiry")
        if obs.get("eager"):
            cls.append("data-behind-select-req-at-reconnect")
        if any(c["act"] == "drop" for r in case["reqs"] for c in r["calls"]):
            cls.append("peer-drops-link-on-a-request")
        if obs.get("preempt_hits"):
            cls.append("preemption-hit")
        if obs.get("dispatchers_alive", 0) > 1:
            cls.append("two-dispatcher-threads-alive")
        if case["sched"].get("syscnt", 0) >= 2**32 - 3:
            cls.append("counter-wrap")
        ctx.case(case, nt or f is not None, cls)
        return f

    ctx.hyp(case_strategy(), body, kw["n"], seed_offset=kw["shard"])


def replay(case, ctx):
    if "secsi" in case:
        return run_secsi(case)
    return run_case(case)
