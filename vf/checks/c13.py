"""C13 - Status variables, equipment constants and alarms answer as a reference model predicts.

Model-based testing: a generated equipment (user status variables, equipment constants with min/max/default, alarms,
registered through the documented `status_variables` / `equipment_constants` / `collection_events` / `alarms`
dictionaries, with and without `use_callback`) runs as a real GemEquipmentHandler on the real HsmsProtocol/TCP classes
over simulated sockets. A generated history of host requests (built as independent E5 item trees) and equipment-side
calls is applied to it and to `vf.ref.gemtables13.Tables` (written from SEMI E5/E30) in lock-step; every reply body is
decoded by the independent decoder and compared with the model.

What is demanded (the statement, no more)
  S1F4 / S2F14   one item per requested id in request order: the current value in the declared format, `L:0` for an
                 unknown id; empty request = all (table order; values carry no id, so the order is the registration order)
  S1F12 / S2F30  one entry per requested id in request order, zero-length name/unit(/limits) for unknown ids; empty
                 request = all entries (compared as a set keyed by id)
  S2F15          EAC 0 and ALL constants applied, or EAC != 0 / abort and NO constant changed (probe: an S2F13 for all
                 constants after every S2F15). EAC 1 for unknown ids, 3 for values outside [min,max] (either if both occur).
                 NaN is outside every range. Afterwards every constant is inside its declared [min,max].
  S5F3           known ALID: ACKC5 0 and the enable flag follows ALED bit 8; unknown: anything but ACKC5 0, nothing changes
  S5F6 / S5F8    exactly the requested (request order) / all / enabled alarms with ALCD bit 8 = current set state
  set/clear      exactly one S5F1 (ALCD bit 8 = new state, ALID, ALTX) iff the state CHANGES and the alarm is enabled at
                 that moment; nothing for a repeated set / clear, for a disabled alarm or an unknown id (ValueError)
  SV 1001 format only (12 / 16 digits / ISO-8601 following constant TimeFormat), 1002 one binary byte, 1004 / 1005 follow
  the alarm table.

Not pinned by the statement (both outcomes accepted, the model then follows the implementation inside the stated bounds)
  * ECV of another kind than the constant (text, binary, boolean, several/no values, float for an integer constant,
    integer for a float constant): abort / EAC != 0 with nothing applied, or EAC 0 - then the constant must answer
    S2F13 in its declared format with a value inside [min,max].
  * unknown ALID in S5F5: S5F0, or a list with zero-length ALCD/ALTX for that id.

Corrections (construction, not rejection)
  * S5F5 is sent as `L,n <ALID>` (the structure the library catalogues), not as E5's single multi-valued item; text ALIDs
    are never put on the wire (E5 and the library's ALID item allow integers only): both are decode matters (C08).
  * +-inf as ECV is excluded: the library's F4/F8 decode rejects it before dispatch (no reply at all, C08's subject).
  * ids in requests are single-valued items; S1F3 with `U4[2]` as one id is not an "id list".
  * ALED is 0x80 / 0x00 only.
"""

from __future__ import annotations

import math

from hypothesis import strategies as st

from vf import gemrig, hsmsrig
from vf.ref import e5
from vf.ref import gemtables13 as T
from vf.run import Failure

PROPERTY = "C13"
LEVEL = "exploration"
TECHNIQUE = (
    "model-based stateful testing: generated equipments and request/change histories run against a real "
    "GemEquipmentHandler (real HSMS/TCP classes, simulated sockets, deterministic scheduler) and a dict-based E5 reference "
    "model in lock-step; replies decoded by the independent E5 decoder"
)
RULE = (
    "Equipment = random subset/order of 9 status variables (U1/U4/I2/I8/F4/F8/A/BOOLEAN, numeric and text ids incl. 30 vs "
    "'30'), 7 equipment constants (U1/U4/I1/I2/I4/F4/F8 with min/max/default inside the type range) each with or without "
    "use_callback, 4 numeric alarms (+ a text-id alarm in ~15%). History = 1..15 (quick) / 1..40 (thorough) ops over "
    "{S1F3, S1F11, S2F13, S2F29 with id lists: empty, known, unknown, repeated, text/numeric twin of the same digits, "
    "aliases mod 2^8/2^16/2^32, ids typed as U1..U8/I1..I8/A; S2F15 with 1..3 (ECID, ECV) pairs: in range, at min/max, "
    "min-1/max+1 (ulp for floats), far out, NaN, wrong kind, cross kind, unknown id; S5F3 enable/disable known/unknown; "
    "S5F5 empty/known/unknown/repeated; S5F7; set_alarm/clear_alarm incl. repeated and unknown; SV/EC value updates}. "
    "Oracle: reference model (E5 semantics) compared after every op; S2F15 followed by an S2F13-all probe (all-or-nothing, "
    "range). Non-trivial = a request mixing known+unknown+repeated ids, or a multi-constant S2F15 with exactly one bad "
    "element, or an alarm set/cleared after an enable change; distinct by setup + op sequence."
)
ASSUMPTIONS = [
    "reference tables typed in from SEMI E5 message descriptions; declared limits of the predefined constants 1/2 are read from the equipment's own S2F30",
    "requests are sequential (one open transaction at a time); schedules sampled (PRNG switch points)",
    "SV 1001 checked for format only (wall clock), SV 1002 for shape only (control state is C11/C17)",
    "the scripted host answers every S5F1 with S5F2 at once (T3 expiry of alarm reports not driven)",
]
BUDGET_S = {"quick": 100, "thorough": 1100}

INTS = e5.INTS
F8NAN = 0x7FF8000000000000


def F(x):
    return ["f", e5.f8_bits(float(x))]


# ------------------------------------------------------------------------------------------------ catalogue (plain data)
SV_DEFS = [
    {"id": 10, "name": "sv10", "unit": "m", "type": "U4", "cb": False, "init": ["i", 123]},
    {"id": "SV2", "name": "sv2 text", "unit": "chars", "type": "A", "cb": False, "init": ["t", "abc"]},
    {"id": 30, "name": "sv30", "unit": "", "type": "I2", "cb": True, "init": ["i", -7]},
    {"id": "30", "name": "sv30 as text", "unit": "V", "type": "F8", "cb": False, "init": F(2.5)},
    {"id": 11, "name": "sv11", "unit": "mm", "type": "F4", "cb": True, "init": F(0.1)},
    {"id": 12, "name": "sv12", "unit": "", "type": "BOOLEAN", "cb": False, "init": ["b", True]},
    {"id": 300, "name": "sv300", "unit": "s", "type": "U1", "cb": True, "init": ["i", 0]},
    {"id": "7", "name": "sv7 text id", "unit": "", "type": "A", "cb": True, "init": ["t", ""]},
    {"id": 70000, "name": "sv70000", "unit": "kg", "type": "I8", "cb": False, "init": ["i", -(2**40)]},
]
EC_DEFS = [
    {"id": 20, "name": "ec20", "min": ["i", 0], "max": ["i", 500], "def": ["i", 50], "unit": "deg", "type": "U4"},
    {"id": 21, "name": "ec21", "min": F(0.0), "max": F(10.0), "def": F(5.0), "unit": "V", "type": "F8"},
    {"id": 22, "name": "ec22", "min": F(-1.5), "max": F(10.25), "def": F(5.0), "unit": "A", "type": "F4"},
    {"id": "EC3", "name": "ec3 text id", "min": ["i", -5], "max": ["i", 5], "def": ["i", 1], "unit": "x", "type": "I2"},
    {"id": "20", "name": "ec20 as text", "min": ["i", -100], "max": ["i", 100], "def": ["i", 0], "unit": "", "type": "I1"},
    {"id": 23, "name": "ec23", "min": ["i", 1], "max": ["i", 254], "def": ["i", 100], "unit": "s", "type": "U1"},
    {"id": 24, "name": "ec24", "min": ["i", -1000], "max": ["i", -10], "def": ["i", -500], "unit": "mm", "type": "I4"},
]
# generator-side knowledge of the predefined constants (the oracle reads their limits from S2F30)
GEN_EC = {d["id"]: d for d in EC_DEFS}
GEN_EC[1] = {"id": 1, "min": ["i", 10], "max": ["i", 120], "type": "I2"}
GEN_EC[2] = {"id": 2, "min": ["i", 0], "max": ["i", 2], "type": "I4"}
GEN_SV = {d["id"]: d for d in SV_DEFS}
ALARM_DEFS = [
    {"id": 25, "name": "a25", "text": "text25", "code": 6, "ce_on": 100025, "ce_off": 200025},
    {"id": 300, "name": "a300", "text": "alarm 300", "code": 1, "ce_on": 100300, "ce_off": 200300},
    {"id": 70000, "name": "a70000", "text": "big", "code": 8, "ce_on": 170000, "ce_off": 270000},
    {"id": 1, "name": "a1", "text": "one", "code": 0, "ce_on": 100001, "ce_off": 200001},
]
TEXT_ALARM = {"id": "AL2", "name": "al2", "text": "text id alarm", "code": 2, "ce_on": 100002, "ce_off": 200002}

SV_IDS = [10, "SV2", 30, "30", 11, 12, 300, "7", 70000, 1001, 1002, 1003, 1004, 1005, "10", "1001", 7, "sv2", "SV2 ", "", 0, 99, 266, -10, 2**32 + 10, 65546]
EC_IDS = [20, 21, 22, "EC3", "20", 23, 24, 1, 2, "21", "1", "ec3", "", 0, 99, 276, -20, 2**32 + 20]
AL_KNOWN = [25, 300, 70000, 1]
AL_IDS = AL_KNOWN * 4 + [26, 0, 281, -25, 2**32 + 25, 65561]
AL_PY_IDS = AL_KNOWN * 4 + ["AL2", "AL2", 26, "25"]


def fits(n):
    return [f for f in ("U1", "U2", "U4", "U8", "I1", "I2", "I4", "I8") if e5.int_range(f)[0] <= n <= e5.int_range(f)[1]]


# ------------------------------------------------------------------------------------------------ strategies
def _idspec(draw, pool):
    v = draw(st.sampled_from(pool))
    if isinstance(v, str):
        return ["A", v]
    fm = fits(v)
    return [fm[draw(st.integers(0, len(fm) - 1))], v]


def _idlist(draw, pool):
    mode = draw(st.sampled_from(["empty", "one", "some", "some", "some", "narrow", "narrow"]))
    if mode == "empty":
        return []
    if mode == "one":
        return [_idspec(draw, pool)]
    if mode == "narrow":  # few distinct ids -> repeats (possibly in different item formats)
        sub = draw(st.lists(st.sampled_from(pool), min_size=1, max_size=3))
        return [_idspec(draw, sub) for _ in range(draw(st.integers(2, 6)))]
    return [_idspec(draw, pool) for _ in range(draw(st.integers(2, 6)))]


ECV_KINDS = ["in"] * 8 + ["min"] * 4 + ["max"] * 4 + ["below"] * 4 + ["above"] * 4 + ["far"] * 3 + ["wrong"] * 2 + ["cross"] * 2 + ["nan"] * 2


def _f4_exact(x):
    try:
        return e5.bits_f4(e5.f4_bits(x)) == x
    except (OverflowError, ValueError):
        return False


def _float_spec(draw, x):
    if _f4_exact(x) and draw(st.booleans()):
        return ["F4", [e5.f4_bits(x)]]
    return ["F8", [e5.f8_bits(x)]]


def _ecv(draw, ecid):
    d = GEN_EC.get(ecid) if not isinstance(ecid, bool) else None
    if d is None:
        return draw(st.sampled_from([["U1", [5]], ["I2", [-1]], ["A", "x"], ["F8", [e5.f8_bits(1.0)]]]))
    kind = draw(st.sampled_from(ECV_KINDS))
    isint = d["type"] in INTS
    mn, mx = T.val_py(d["min"]), T.val_py(d["max"])
    if kind == "nan":
        return draw(st.sampled_from([["F8", [F8NAN]], ["F8", [0xFFF8000000000001]], ["F4", [0x7FC00000]]]))
    if kind == "wrong":
        own = d["type"]
        return draw(
            st.sampled_from(
                [["A", "12"], ["A", "abc"], ["A", ""], ["B", [1]], ["BOOLEAN", [True]], ["L", []]]
                + ([[own, [mn, mn]], [own, []]] if isint else [[own, [e5.float_bits(own, mn)] * 2], [own, []]])
            )
        )
    if kind == "cross":
        if isint:
            x = draw(st.sampled_from([float(mn), float(mx), mn + 0.5, mx + 0.5, mn - 0.5]))
            return _float_spec(draw, x)
        n = draw(st.sampled_from([math.ceil(mn), math.floor(mx), math.floor(mx) + 1, math.ceil(mn) - 1]))
        fm = fits(n)
        return [fm[draw(st.integers(0, len(fm) - 1))], [n]]
    if isint:
        if kind == "in":
            x = draw(st.integers(mn, mx))
        elif kind == "far":
            x = draw(st.sampled_from([mn - 1000, mx + 1000, mx + 256, mn - 256, mx + 2**32, mn + 2**32, -(2**63), 2**64 - 1]))
        else:
            x = {"min": mn, "max": mx, "below": mn - 1, "above": mx + 1}[kind]
        fm = fits(x)
        return [fm[draw(st.integers(0, len(fm) - 1))], [x]]
    if kind == "in":
        x = mn + (mx - mn) * draw(st.sampled_from([0.25, 0.5, 0.75, 1 / 3, 0.999999]))
    elif kind == "far":
        x = draw(st.sampled_from([mn - 1e6, mx + 1e6, -1e300, 1e300, e5.bits_f8(0x7FEFFFFFFFFFFFFF), -mx if -mx < mn else mn - 1.0]))
    elif kind in ("below", "above") and draw(st.booleans()):
        # one F4 ulp outside
        b = e5.f4_bits(mn if kind == "below" else mx)
        away = (mn if kind == "below" else mx)
        step = 1 if (away > 0) == (kind == "above") else -1
        if away == 0:
            return ["F4", [0x80000001 if kind == "below" else 0x00000001]]
        return ["F4", [b + step]]
    else:
        x = {"min": mn, "max": mx, "below": math.nextafter(mn, -math.inf), "above": math.nextafter(mx, math.inf)}[kind]
    return _float_spec(draw, x)


def _sv_value(draw, typ):
    if typ in INTS:
        lo, hi = e5.int_range(typ)
        return ["i", draw(st.one_of(st.sampled_from([lo, hi, 0]), st.integers(lo, hi)))]
    if typ == "F8":
        return draw(st.sampled_from([F(0.0), F(-0.0), F(1.5), F(-1e300), F(5e-324), F(0.1), F(123456.789)]))
    if typ == "F4":
        return draw(st.sampled_from([F(0.0), F(0.1), F(-2.5), F(1e10), F(3.0e38), F(1e-40), F(16777217.0)]))
    if typ == "A":
        return ["t", draw(st.sampled_from(["", "x", "hello world", "123", "A" * 40, "<tag> \"q\""]))]
    return ["b", draw(st.booleans())]


def _ec_value(draw, d):
    mn, mx = T.val_py(d["min"]), T.val_py(d["max"])
    if d["type"] in INTS:
        return ["i", draw(st.one_of(st.sampled_from([mn, mx]), st.integers(mn, mx)))]
    return F(draw(st.sampled_from([mn, mx, mn + (mx - mn) / 4, mn + (mx - mn) / 2])))


OPS = (
    ["s1f3"] * 3 + ["s1f11"] * 2 + ["s2f13"] * 3 + ["s2f29"] * 2 + ["s2f15"] * 6 + ["s5f3"] * 4 + ["s5f5"] * 2 + ["s5f7"] * 2
    + ["set_alarm"] * 5 + ["clear_alarm"] * 4 + ["sv_update"] * 3 + ["ec_update"] * 2
)


@st.composite
def case_strategy(draw, max_ops=15):
    keep = st.sampled_from([True, True, True, True, False])
    svs = [dict(d) for d in draw(st.permutations(SV_DEFS)) if draw(keep)]
    for d in svs:
        if draw(st.sampled_from([False, False, True])):
            d["cb"] = not d["cb"]
    ecs = [dict(d, cb=draw(st.booleans())) for d in draw(st.permutations(EC_DEFS)) if draw(keep)]
    alarms = [dict(d) for d in draw(st.permutations(ALARM_DEFS)) if draw(keep)]
    if draw(st.sampled_from([False] * 6 + [True])):
        alarms.insert(draw(st.integers(0, len(alarms))), dict(TEXT_ALARM))
    n = draw(st.integers(1, max_ops))
    focus = draw(st.sampled_from(AL_KNOWN))  # alarm ops mostly work on one alarm: enable -> set -> clear chains
    on_focus = st.sampled_from([True, True, False])
    ops = []
    if draw(st.sampled_from([True, False, False])):
        ops.append({"op": "s5f3", "en": True, "id": _idspec(draw, [focus])})
    for _ in range(n - len(ops)):
        k = draw(st.sampled_from(OPS))
        op = {"op": k}
        if k in ("s1f3", "s1f11"):
            op["ids"] = _idlist(draw, SV_IDS)
        elif k in ("s2f13", "s2f29"):
            op["ids"] = _idlist(draw, EC_IDS)
        elif k == "s2f15":
            pool = EC_IDS[:9] * 3 + EC_IDS[9:] if draw(st.integers(0, 3)) else EC_IDS[:9]
            pairs = []
            for _ in range(draw(st.sampled_from([1, 1, 2, 2, 2, 3, 3, 0]))):
                ids = _idspec(draw, pool)
                pairs.append([ids, _ecv(draw, ids[1])])
            op["pairs"] = pairs
        elif k == "s5f3":
            op["en"] = draw(st.sampled_from([True, True, False]))
            op["id"] = _idspec(draw, [focus] if draw(on_focus) else AL_IDS)
        elif k == "s5f5":
            op["ids"] = _idlist(draw, AL_IDS if draw(st.booleans()) else AL_KNOWN)
        elif k in ("set_alarm", "clear_alarm"):
            op["id"] = focus if draw(on_focus) else draw(st.sampled_from(AL_PY_IDS))
        elif k == "sv_update":
            d = draw(st.sampled_from(SV_DEFS))
            op["id"], op["value"] = d["id"], _sv_value(draw, d["type"])
        elif k == "ec_update":
            d = draw(st.sampled_from(EC_DEFS))
            op["id"], op["value"] = d["id"], _ec_value(draw, d)
        ops.append(op)
    if draw(st.sampled_from([False] * 7 + [True])):
        # template: the same status variable is polled, changed to a value that COMPARES EQUAL to the old one but is another
        # value on the wire (0.0 <-> -0.0, the only such pair the typed variables have), and polled again
        fl = [d for d in svs if d["type"] in ("F4", "F8")]
        if fl:
            d = draw(st.sampled_from(fl))
            poll = lambda: {"op": draw(st.sampled_from(["s1f3", "s1f3", "s1f3"])), "ids": [["A", d["id"]] if isinstance(d["id"], str) else _idspec(draw, [d["id"]])]}  # noqa: E731
            z = draw(st.sampled_from([0.0, -0.0]))
            tpl = [{"op": "sv_update", "id": d["id"], "value": F(z)}, poll(), {"op": "sv_update", "id": d["id"], "value": F(-z)}, poll()]
            if draw(st.booleans()):
                tpl += [{"op": "sv_update", "id": d["id"], "value": F(z)}, poll()]
            at = draw(st.integers(0, len(ops)))
            ops[at:at] = tpl
    sched = draw(
        st.one_of(
            st.just({"seed": 0}),
            st.just({"seed": 0}),
            st.builds(lambda s, p: {"seed": s, "switch": p}, st.integers(1, 2**31), st.sampled_from([0.1, 0.5])),
        )
    )
    return {"setup": {"svs": svs, "ecs": ecs, "alarms": alarms}, "ops": ops, "sched": sched}


# ------------------------------------------------------------------------------------------------ equipment under test
_CLS = {}


def handler_cls():
    """GemEquipmentHandler subclass written as the documentation shows (docs/firststeps/gemequipment.md)."""
    if "c" in _CLS:
        return _CLS["c"]
    import secsgem.gem
    import secsgem.secs

    V = secsgem.secs.variables
    types = {"U1": V.U1, "U2": V.U2, "U4": V.U4, "U8": V.U8, "I1": V.I1, "I2": V.I2, "I4": V.I4, "I8": V.I8, "F4": V.F4, "F8": V.F8, "A": V.String, "BOOLEAN": V.Boolean}

    class Equipment(secsgem.gem.GemEquipmentHandler):
        def __init__(self, settings, setup=None):
            super().__init__(settings)
            self.cb_sv = {}
            self.cb_ec = {}
            self.rejected_alarms = []
            for d in setup["svs"]:
                self.status_variables.update({d["id"]: secsgem.gem.StatusVariable(d["id"], d["name"], d["unit"], types[d["type"]], d["cb"])})
                if d["cb"]:
                    self.cb_sv[d["id"]] = T.val_py(d["init"])
                else:
                    self.status_variables[d["id"]].value = T.val_py(d["init"])
            for d in setup["ecs"]:
                self.equipment_constants.update(
                    {d["id"]: secsgem.gem.EquipmentConstant(d["id"], d["name"], T.val_py(d["min"]), T.val_py(d["max"]), T.val_py(d["def"]), d["unit"], types[d["type"]], d["cb"])}
                )
                if d["cb"]:
                    self.cb_ec[d["id"]] = T.val_py(d["def"])
            for d in setup["alarms"]:
                self.collection_events.update(
                    {
                        d["ce_on"]: secsgem.gem.CollectionEvent(d["ce_on"], d["name"] + " set", []),
                        d["ce_off"]: secsgem.gem.CollectionEvent(d["ce_off"], d["name"] + " clear", []),
                    }
                )
                try:
                    alarm = secsgem.gem.Alarm(d["id"], d["name"], d["text"], d["code"], d["ce_on"], d["ce_off"])
                except (TypeError, ValueError):
                    if not isinstance(d["id"], str):
                        raise
                    self.rejected_alarms.append(d["id"])  # an API that refuses text ALIDs (E5: integers only) is fine
                    continue
                self.alarms.update({d["id"]: alarm})

        def on_sv_value_request(self, svid, sv):
            return sv.value_type(self.cb_sv[sv.svid])

        def on_ec_value_request(self, ecid, ec):
            return ec.value_type(self.cb_ec[ec.ecid])

        def on_ec_value_update(self, ecid, ec, value):
            if ec.ecid in self.cb_ec:
                self.cb_ec[ec.ecid] = value
            else:
                super().on_ec_value_update(ecid, ec, value)

    _CLS["c"] = Equipment
    return Equipment


def spec_item(spec):
    fmt, p = spec
    if fmt == "L":
        return ("L", [spec_item(x) for x in p])
    if fmt == "A":
        return ("A", p.encode("latin-1"))
    if fmt == "B":
        return ("B", bytes(p))
    if fmt == "BOOLEAN":
        return ("BOOLEAN", [bool(x) for x in p])
    return (fmt, [int(x) for x in p])


def id_item(spec):
    """["A", text] | [int format, n] -> item tree of a single id."""
    fmt, v = spec
    return ("A", v.encode("latin-1")) if fmt == "A" else (fmt, [int(v)])


class _Fail(Exception):
    def __init__(self, failure):
        super().__init__(failure.bucket)
        self.failure = failure


def run_case(case, observe=None):
    try:
        return _run_case(case, observe if observe is not None else {})
    except _Fail as exc:
        return exc.failure


def _run_case(case, stats):
    setup, ops = case["setup"], case["ops"]
    m = T.Tables(setup)
    stats.update({"mixed": 0, "one_bad": 0, "toggle_after_enable": 0, "cls": set()})
    cls = stats["cls"]
    defs_sv = {T.key_of_py(d["id"]): d for d in setup["svs"]}
    defs_ec = {T.key_of_py(d["id"]): d for d in setup["ecs"]}
    with hsmsrig.make_world(case.get("sched", {})) as w:
        sim = w.sim
        rig = gemrig.GemRig(w, role="equipment", handler_cls=handler_cls(), handler_kwargs={"setup": setup})
        h = rig.h
        if not rig.establish():
            return Failure("setup-failed", case, f"{rig.comm_state()} {sim.blocked_report()}", "COMMUNICATING")
        for alid in h.rejected_alarms:
            del m.al[T.key_of_py(alid)]
            cls.add("setup:text-alarm-rejected-by-api")
        cur = [-1]

        def fail(bucket, obs, exp):
            i = cur[0]
            raise _Fail(Failure(bucket, case, f"op#{i} {ops[i] if i >= 0 else 'setup'}: {obs}", exp))

        def ask(s, f, item, what, abort_ok=False):
            """-> decoded reply body, or 'abort' (SxF0)."""
            _, mine, other = rig.request(s, f, item)
            if other:
                fail(f"{what}:unexpected-frame", [(x["stream"], x["function"]) for x in other], "no unsolicited message")
            if len(mine) != 1:
                fail(f"{what}:{'no-reply' if not mine else 'several-replies'}", [(x["stream"], x["function"]) for x in mine], f"one S{s}F{f + 1}")
            fr = mine[0]
            if fr["stream"] == s and fr["function"] == 0:
                return "abort"
            if (fr["stream"], fr["function"], fr["w"]) != (s, f + 1, 0):
                fail(f"{what}:wrong-reply-function", (fr["stream"], fr["function"], fr["w"]), f"S{s}F{f + 1}")
            try:
                return gemrig.dec(fr["body"])
            except e5.E5Error as exc:
                fail(f"{what}:undecodable-reply", f"{exc} {bytes(fr['body']).hex()}", "E5 item")

        def keys_of(ids):
            return [T.key_of_item(id_item(s)) for s in ids]

        def note_mix(keys, table):
            if len(set(keys)) < len(keys) and any(k in table for k in keys) and any(k not in table for k in keys):
                stats["mixed"] += 1
                cls.add("ids:known+unknown+repeated")
            if not keys:
                cls.add("ids:all")
            if any(k[0] == "t" for k in keys) and any(k[0] == "i" for k in keys):
                cls.add("ids:text+numeric")

        # ---- predefined constants: declared limits as the equipment itself reports them
        ent = ask(2, 29, ("L", [("U1", [1]), ("U1", [2])]), "setup-s2f29")
        val = ask(2, 13, ("L", [("U1", [1]), ("U1", [2])]), "setup-s2f13")
        if ent == "abort" or val == "abort" or ent is None or val is None or ent[0] != "L" or val[0] != "L":
            fail("setup:predefined-constants", (ent, val), "S2F30/S2F14 for ECID 1, 2")
        err = m.declare_predefined(ent[1], val[1])
        if err:
            fail("setup:predefined-constants", err, "S2F30/S2F14 for ECID 1, 2")

        def probe_constants(what, wild_bucket, root_cause=None):
            """S2F13 for all constants against the model; root_cause: bucket that explains any disagreement here."""
            body = ask(2, 13, ("L", []), root_cause or what)
            if body == "abort":
                pending = [k for k, d in m.ec.items() if d["value"] is T.WILD]
                fail(root_cause or (wild_bucket if pending else f"{what}:abort"), "S2F0 to S2F13 after this S2F15", [m.ec_matcher(k) for k in m.ec])
            r = T.match_values(m.s2f14([]), body, m)
            if r:
                fail(root_cause or (wild_bucket if r == "out-of-range-after-accepted-s2f15" else f"{what}:{r}"), body, [m.ec_matcher(k) for k in m.ec])

        enable_changed = set()
        for i, op in enumerate(ops):
            cur[0] = i
            k = op["op"]
            if k in ("s1f3", "s2f13"):
                table, expect = (m.sv, m.s1f4) if k == "s1f3" else (m.ec, m.s2f14)
                keys = keys_of(op["ids"])
                note_mix(keys, table)
                body = ask(1 if k == "s1f3" else 2, 3 if k == "s1f3" else 13, ("L", [id_item(s) for s in op["ids"]]), k)
                exp = expect(keys)
                if body == "abort":
                    wild = k == "s2f13" and any(d["value"] is T.WILD for d in m.ec.values())
                    fail("s2f15:ecv-of-other-kind-accepted:s2f13-aborts" if wild else f"{k}:abort", "abort", exp)
                r = T.match_values(exp, body, m)
                if r:
                    fail("s2f15:ecv-of-other-kind-accepted:out-of-range" if r == "out-of-range-after-accepted-s2f15" else f"{k}:{r}", body, exp)
            elif k in ("s1f11", "s2f29"):
                keys = keys_of(op["ids"])
                if k == "s1f11":
                    note_mix(keys, m.sv)
                    body = ask(1, 11, ("L", [id_item(s) for s in op["ids"]]), k)
                    entries, ordered = m.s1f12(keys)
                    r = "abort" if body == "abort" else T.match_names(entries, ordered, body, 3, T.sv_name_render, 0, lambda e: e[0])
                else:
                    note_mix(keys, m.ec)
                    body = ask(2, 29, ("L", [id_item(s) for s in op["ids"]]), k)
                    entries, ordered = m.s2f30(keys)
                    r = "abort" if body == "abort" else T.match_names(entries, ordered, body, 6, T.ec_name_render, 0, lambda e: e[0])
                if r:
                    fail(f"{k}:{r}", body, entries)
            elif k == "s2f15":
                pairs = [(T.key_of_item(id_item(a)), spec_item(b)) for a, b in op["pairs"]]
                plan = m.s2f15_plan(pairs)
                v = plan["verdicts"]
                nbad = sum(1 for x in v if x in ("unknown", "nan", "range"))
                if len(v) >= 2 and nbad == 1 and "soft" not in v:
                    stats["one_bad"] += 1
                    cls.add("s2f15:multi-with-exactly-one-bad")
                for x in set(v):
                    cls.add(f"ecv:{x}")
                body = ask(2, 15, ("L", [("L", [id_item(a), spec_item(b)]) for a, b in op["pairs"]]), k)
                if body == "abort":
                    eac = None
                elif body is not None and body[0] == "B" and len(body[1]) == 1:
                    eac = body[1][0]
                else:
                    fail("s2f15:reply-structure", body, "B[1] EAC")
                cls.add(f"s2f16:{'abort' if eac is None else 'eac' + str(eac)}")
                if eac == 0:
                    if plan["accept"] == "never":
                        if "nan" in v:
                            fail("s2f15:nan-ecv-accepted", f"EAC 0 for {op['pairs']}", "EAC != 0 and nothing applied (NaN is outside every [min,max])")
                        fail(f"s2f15:eac:0-instead-of-{'or'.join(str(c) for c in sorted(plan['eacs'] or [])) or 'error'}", "EAC 0", plan)
                    m.s2f15_apply(plan)
                else:
                    if plan["accept"] == "must":
                        fail(f"s2f15:eac:{'abort' if eac is None else eac}-instead-of-0", body, "EAC 0, all applied")
                    if plan["eacs"] is not None and eac not in plan["eacs"]:
                        fail(f"s2f15:eac:{'abort' if eac is None else eac}-instead-of-{'or'.join(str(c) for c in sorted(plan['eacs']))}", body, plan["eacs"])
                # all-or-nothing + range: the equipment's complete constant table now
                what = "s2f15:not-all-applied" if eac == 0 else "s2f15:applied-although-rejected"
                # a NaN that passed the validation can also blow up half way through the apply loop (int(nan) for the
                # predefined constants): partial application / a poisoned table then has the same root cause
                probe_constants(what, "s2f15:ecv-of-other-kind-accepted:s2f13-aborts", "s2f15:nan-ecv-accepted" if "nan" in v and eac != 0 else None)
            elif k == "s5f3":
                key = T.key_of_item(id_item(op["id"]))
                known = m.s5f3(key, op["en"])
                cls.add("s5f3:known" if known else "s5f3:unknown")
                if known:
                    enable_changed.add(key)
                body = ask(5, 3, ("L", [("B", bytes([0x80 if op["en"] else 0])), id_item(op["id"])]), k)
                if known and body != ("B", b"\x00"):
                    fail("s5f3:not-accepted", body, "ACKC5 0")
                if not known and body == ("B", b"\x00"):
                    fail("s5f3:unknown-alid-accepted", body, "ACKC5 != 0")
            elif k == "s5f5":
                keys = keys_of(op["ids"])
                note_mix(keys, m.al)
                entries, ordered, has_unknown = m.s5f6(keys)
                body = ask(5, 5, ("L", [id_item(s) for s in op["ids"]]), k)
                text_alarm = any(e[1][0] == "t" for e in entries)
                if body == "abort":
                    if has_unknown:
                        cls.add("s5f5:unknown->abort")
                        continue
                    fail("alarm-with-text-id:s5f5-aborts" if text_alarm else "s5f5:abort", "S5F0", entries)
                r = T.match_names(entries, ordered, body, 3, T.alarm_render, 1, lambda e: e[1])
                if r:
                    fail(f"s5f5:{r}", body, entries)
            elif k == "s5f7":
                body = ask(5, 7, None, k)
                entries = m.s5f8()
                r = "abort" if body == "abort" else T.match_names(entries, False, body, 3, T.alarm_render, 1, lambda e: e[1])
                if r:
                    fail(f"s5f7:{r}", body, entries)
            elif k in ("set_alarm", "clear_alarm"):
                key = T.key_of_py(op["id"])
                verdict, entry = m.alarm_change(key, k == "set_alarm")
                cls.add(f"alarm:{verdict}")
                if verdict in ("report", "silent") and key in enable_changed:
                    stats["toggle_after_enable"] += 1
                    cls.add("alarm:toggled-after-enable-change")
                box = {}
                fn = h.set_alarm if k == "set_alarm" else h.clear_alarm

                def call(fn=fn, alid=op["id"], box=box):
                    try:
                        fn(alid)
                        box["r"] = "returned"
                    except ValueError:
                        box["r"] = "ValueError"

                sim.spawn(call, k)
                sim.settle()
                frames = rig.data_out()
                for fr in frames:
                    if (fr["stream"], fr["function"]) == (5, 1):
                        rig.send_sf(5, 2, 0, ("B", b"\x00"), system=fr["system"])
                sim.settle()
                frames += rig.data_out()
                reports = [fr for fr in frames if (fr["stream"], fr["function"]) == (5, 1)]
                if len(reports) != len(frames):
                    fail(f"{k}:unexpected-frame", [(x["stream"], x["function"]) for x in frames], "S5F1 only")
                if verdict == "report":
                    if not reports:
                        fail("s5f1:missing", "no S5F1", entry)
                    if len(reports) > 1:
                        fail("s5f1:duplicated", len(reports), entry)
                    try:
                        body = gemrig.dec(reports[0]["body"])
                    except e5.E5Error as exc:
                        fail("s5f1:undecodable", str(exc), entry)
                    r = T.match_alarm_report(entry, body)
                    if r:
                        fail(f"s5f1:{r}", body, entry)
                elif reports:
                    fail(f"s5f1:sent-for-{verdict}", [gemrig.dec(x["body"]) for x in reports], "no S5F1")
                want = "ValueError" if verdict == "unknown" else "returned"
                if box.get("r") != want:
                    fail(f"{k}:{'hangs' if 'r' not in box else 'result'}", f"{box.get('r')} {sim.blocked_report()}", want)
            elif k == "sv_update":
                key = T.key_of_py(op["id"])
                if key not in defs_sv:
                    continue
                v = T.val_py(op["value"])
                if defs_sv[key]["cb"]:
                    h.cb_sv[op["id"]] = v
                else:
                    h.status_variables[op["id"]].value = v
                m.sv[key]["value"] = v
                cls.add("sv-update")
            elif k == "ec_update":
                key = T.key_of_py(op["id"])
                if key not in defs_ec:
                    continue
                v = T.val_py(op["value"])
                if defs_ec[key]["cb"]:
                    h.cb_ec[op["id"]] = v
                else:
                    h.equipment_constants[op["id"]].value = v
                m.ec[key]["value"] = v
                cls.add("ec-update")
            cls.add(k)
        if sim.thread_errors:
            cur[0] = len(ops) - 1
            fail("thread-error", sim.thread_errors[-1:], "no exception escapes a library thread")
    return None


def nontrivial(stats):
    return bool(stats.get("mixed") or stats.get("one_bad") or stats.get("toggle_after_enable"))


def plan(tier, seed):
    quick = tier == "quick"
    return [("gen", {"shard": i, "n": 32 if quick else 1500, "max_ops": 15 if quick else 40}) for i in range(16)]


def run_task(name, kw, ctx):
    import logging

    logging.disable(logging.CRITICAL)

    def body(case):
        obs = {}
        f = run_case(case, obs)
        cls = sorted(obs.get("cls", ()))
        if case["sched"].get("seed"):
            cls.append("random-schedule")
        if any(a["id"] == "AL2" for a in case["setup"]["alarms"]):
            cls.append("setup:text-alarm")
        ctx.case(case, nontrivial(obs) or f is not None, cls)
        return f

    ctx.hyp(case_strategy(kw["max_ops"]), body, kw["n"], seed_offset=kw["shard"])


def replay(case, ctx):
    import logging

    logging.disable(logging.CRITICAL)
    return run_case(case)
