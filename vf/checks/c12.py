"""C12 - event-report configuration (S2F33 / S2F35 / S2F37) stays consistent and transactional under any history.

Model-based testing: a real GemEquipmentHandler (real HsmsProtocol + TCP classes on simulated sockets, deterministic
scheduler) with 3 status variables, 2 data values and one text-id collection event registered through the documented
dictionaries is driven by a scripted host.  Generated op histories (plain data) are interpreted in lock-step with a
reference model of the report / link / enable tables written from SEMI E5:

  S2F33  L[DATAID, L[ L[RPTID, L[VID..]] .. ]]   zero reports = delete all reports and all links;
         RPTID with zero VIDs = delete that report and every link to it; otherwise define (RPTID must be new, VIDs known)
         DRACK 0 ok | 3 at least one RPTID already defined | 4 at least one VID does not exist;
         "if an error condition is detected the entire message is rejected"
  S2F35  L[DATAID, L[ L[CEID, L[RPTID..]] .. ]]  zero RPTIDs = delete all links of that CEID; otherwise link in order;
         linked reports default to disabled upon linking
         LRACK 0 | 3 at least one CEID link already defined | 4 CEID does not exist | 5 RPTID does not exist; all-or-nothing
  S2F37  L[CEED, L[CEID..]]  zero CEIDs = all;  ERACK 0 | 1 at least one CEID does not exist
  S6F15  CEID -> S6F16 L[DATAID, CEID, L[ L[RPTID, L[V..]] .. ]]  (same body as S6F11 sent on a trigger of an enabled event)

Checked after EVERY step:
  (a) refused define/link (ack != 0)  => white-box snapshot of the handler's registries is unchanged
  (b) accepted                         => snapshot equals the model's tables
  (c) integrity                        => every RPTID of every link is a defined report; no registry holds the same id
                                          (by value) twice; S6F16 / S6F11 = exactly the linked reports in link order with
                                          the current variable values in the declared value type; never S6F0, never an
                                          exception in a handler thread
and once more black-box at the end of every history that left links behind: disable all -> trigger every linked event ->
nothing may be sent; enable all -> S6F15 for every linked event and one trigger of every CEID of the domain -> exactly the
model's event reports.

Where E5 does not decide, the model computes the SET of outcomes of all defensible readings and the implementation has to
match one of them (then the model follows it):
  * one request naming the same RPTID (S2F33) / the same CEID or CEID+RPTID pair (S2F35) more than once: entries may be
    judged one after the other against the evolving tables ("seq") or all against the tables before the request ("pre")
  * LRACK 3 "CEID link already defined": the CEID+RPTID pair is linked ("pair") or the CEID has any link ("any")
  * several error conditions in one request: any of the applicable codes
  * enabled flag of an already linked CEID that gets more reports appended: mirrored; a CEID linked afresh is disabled
  * S2F37: pinned only where E5 is unambiguous (empty list = all linked events; only linked CEIDs = exactly those;
    a CEID that is no collection event => ERACK != 0); partial effects and known-but-unlinked CEIDs are mirrored
  * S6F15 for a disabled event: no reports or the linked ones; for an unknown CEID: empty S6F16 or S6F0
  * numeric ids are identified by value (U1 5 == U4 5 == I2 5; the handler itself answers with the narrowest type);
    text ids are never digit strings (whether A "5" names report 5 is not pinned)

Corrections (false alarms avoided by construction):
  * S2F37 naming a known collection event without links is answered ERACK 1 by the handler (the enable flag lives in the
    link object). E5 would say 0; the property's statement does not pin S2F37 acknowledge codes -> mirrored, reported as
    an observation only.
  * SV 1001 (clock) / 1002 (control state) are compared by format only, SV 1003 (EventsEnabled) as a multiset.
"""

from __future__ import annotations

from hypothesis import strategies as st

from vf import gemrig, hsmsrig
from vf.run import Failure

PROPERTY = "C12"
LEVEL = "exploration"
TECHNIQUE = (
    "model-based stateful testing: generated S2F33/S2F35/S2F37/S6F15/trigger/value-update histories against an E5 "
    "reference model of the report, link and enable tables (set of admissible outcomes where E5 is silent), white-box "
    "snapshot compare after every step plus black-box S6F16/S6F11 compare, real handler on simulated sockets under a "
    "deterministic scheduler"
)
RULE = (
    "Histories of 1..15 (quick) / 1..40 (thorough) ops over {S2F33 define 0..3 reports (delete-all, delete-one, redefinition, "
    "same RPTID twice, unknown VID, repeated VID), S2F35 1..3 entries (unlink, same RPTID twice in a list, same CEID twice, "
    "unknown CEID/RPTID, already linked, append), S2F37 enable/disable (all, some, unknown, unlinked, repeated), S6F15, "
    "trigger_collection_events([1..3 ceids]), value update}; RPTID in {1,2,3,'r'}, CEID in {1,2,3,20,'ce',99 unknown}, VID in "
    "{10,11,'SV2',30,'DV2',1001,1002,1003,777 unknown,'zz' unknown}; every numeric id is sent in a generated integer format "
    "(U1..U8, I1..I8). The generator follows an approximate table state to prefer defined/linked ids. After every op: ack "
    "code in the admissible set, refused => registries unchanged, accepted => registries equal the model, no dangling link, "
    "reply bodies equal the model's; epilogue when links remain: disable all + trigger (nothing sent), enable all + S6F15 "
    "and trigger of every linked event. Non-trivial = history with >=1 "
    "deletion of a linked report, or a duplicate id inside one request, or a refused request after >=2 accepted ones; "
    "distinct by case hash."
)
ASSUMPTIONS = [
    "reference tables typed in from SEMI E5 (S2F33/S2F35/S2F37/S6F11/S6F15 texts and DRACK/LRACK/ERACK tables); where E5 is silent every defensible reading is admitted",
    "ids are compared by value; text ids that consist of digits are not generated",
    "well-formed message bodies only (malformed / zero-length id items are C08's subject); single host, no concurrent requests",
    "the handler's registries are read white-box (registered_reports / registered_collection_events) after every step",
]
BUDGET_S = {"quick": 110, "thorough": 1100}

# -------------------------------------------------------------------------------------------- domains
INT_FMTS = ["U4", "U1", "U2", "U8", "I1", "I2", "I4", "I8"]
RPT_DOM = [1, 2, 3, "r"]
CE_KNOWN = [1, 2, 3, 20, "ce"]
CE_ALL_KNOWN = {1, 2, 3, 20, 21, "ce"}  # 21 (CmdStopDone) is predefined too; never sent
CE_DOM = [1, 2, 3, 20, "ce", 99]
# variable id -> (item format of the value, use_callback)
SVS = {10: ("U4", False), 11: ("I2", True), "SV2": ("A", False)}
DVS = {30: ("U2", True), "DV2": ("A", False)}
VTYPE = {10: "U4", 11: "I2", "SV2": "A", 30: "U2", "DV2": "A"}
INITIAL = {10: 123, 11: -5, "SV2": "abc", 30: 7, "DV2": "dv"}
SPECIAL_VIDS = {1001: "clock", 1002: "control", 1003: "events"}
KNOWN_VIDS = set(VTYPE) | set(SPECIAL_VIDS)
VID_SETTABLE = [10, 11, "SV2", 30, "DV2"]
VID_DOM_KNOWN = [10, 11, "SV2", 30, "DV2", 10, 30, 1003, 1001, 1002]
VID_DOM_UNKNOWN = [777, "zz"]
RANGES = {"U4": (0, 2**32 - 1), "I2": (-(2**15), 2**15 - 1), "U2": (0, 2**16 - 1)}


def _fits(fmt, v):
    w = int(fmt[1]) * 8
    if fmt[0] == "U":
        return 0 <= v < (1 << w)
    return -(1 << (w - 1)) <= v < (1 << (w - 1))


def item_of(tid):
    """typed id from a case ([fmt, value]) -> ref.e5 item tree."""
    fmt, v = tid
    if fmt == "A":
        return ("A", str(v).encode("ascii"))
    return (fmt, [int(v)])


def key_of(tid):
    return tid[1]


def id_from_item(item):
    """id value of a decoded item; None if it is not a single id."""
    fmt, p = item
    if fmt == "A":
        return bytes(p).decode("latin1")
    if fmt[0] in "UI" and fmt != "L" and isinstance(p, list) and len(p) == 1:
        return p[0]
    return None


# -------------------------------------------------------------------------------------------- reference model
class Tables:
    """reports: RPTID -> [VID..]; links: CEID -> [RPTID..] (order = link order); enabled: CEID -> bool (linked CEIDs)."""

    def __init__(self, reports=None, links=None, enabled=None):
        self.reports = reports or {}
        self.links = links or {}
        self.enabled = enabled or {}

    def copy(self):
        return Tables({k: list(v) for k, v in self.reports.items()}, {k: list(v) for k, v in self.links.items()}, dict(self.enabled))

    def same_tables(self, other):
        return self.reports == other.reports and self.links == other.links

    def delete_report(self, rk):
        """E5 S2F33: 'deletes report type RPTID. All CEID links to this RPTID are also deleted.'"""
        self.reports.pop(rk, None)
        for ck in list(self.links):
            if rk in self.links[ck]:
                self.links[ck] = [r for r in self.links[ck] if r != rk]
                if not self.links[ck]:
                    self.unlink(ck)

    def unlink(self, ck):
        self.links.pop(ck, None)
        self.enabled.pop(ck, None)

    def show(self):
        return {"reports": {repr(k): v for k, v in self.reports.items()}, "links": {repr(k): v for k, v in self.links.items()}, "enabled": {repr(k): v for k, v in self.enabled.items()}}


def define_outcomes(t, reports):
    """S2F33. reports: [(rptid, [vid..])]. Returns [(error_codes:set, tables_if_accepted)] for the readings seq / pre."""
    outs = []
    for mode in ("seq", "pre"):
        cur = t.copy()
        errs = set()
        if not reports:
            cur = Tables()
        for rk, vks in reports:
            base = cur if mode == "seq" else t
            if vks:
                if rk in base.reports:
                    errs.add(3)
                if any(v not in KNOWN_VIDS for v in vks):
                    errs.add(4)
                cur.reports[rk] = list(vks)
            else:
                cur.delete_report(rk)
        outs.append((errs, cur))
    return outs


def link_outcomes(t, entries):
    """S2F35. entries: [(ceid, [rptid..])]. Readings {seq, pre} x {pair, any}."""
    outs = []
    for mode in ("seq", "pre"):
        for exists in ("pair", "any"):
            cur = t.copy()
            errs = set()
            for ck, rks in entries:
                base = cur if mode == "seq" else t
                if ck not in CE_ALL_KNOWN:
                    errs.add(4)
                if not rks:
                    cur.unlink(ck)
                    continue
                if exists == "any" and base.links.get(ck):
                    errs.add(3)
                for rk in rks:
                    if rk not in t.reports:
                        errs.add(5)
                    if rk in base.links.get(ck, []):
                        errs.add(3)
                    if ck not in cur.links:
                        cur.links[ck] = []
                        cur.enabled[ck] = False  # "linked event reports will default to disabled upon linking"
                    cur.links[ck].append(rk)
            outs.append((errs, cur))
    return outs


def admissible(outs):
    acks = set()
    for errs, _ in outs:
        acks |= errs if errs else {0}
    return acks


def ambiguous(outs):
    firsts = outs[0]
    for errs, tab in outs[1:]:
        if bool(errs) != bool(firsts[0]) or (not errs and not tab.same_tables(firsts[1])):
            return True
    return False


# -------------------------------------------------------------------------------------------- generator (plain data)
def _typed(draw, key):
    if isinstance(key, str):
        return ["A", key]
    return [draw(st.sampled_from([f for f in INT_FMTS if _fits(f, key)])), key]


def _biased(draw, preferred, domain, pct=65):
    if preferred and draw(st.integers(0, 99)) < pct:
        return draw(st.sampled_from(preferred))
    return draw(st.sampled_from(domain))


class _GenState:
    """Approximate tables followed by the generator to prefer defined / linked ids (not the oracle)."""

    def __init__(self):
        self.t = Tables()
        self.on = set()  # CEIDs the generator believes to be enabled

    def apply_define(self, reports):
        errs, cur = define_outcomes(self.t, reports)[1]
        if not errs:
            self.t = cur

    def apply_link(self, entries):
        errs, cur = link_outcomes(self.t, entries)[2]
        if not errs:
            self.t = cur


def _value_for(draw, vid):
    fmt = VTYPE[vid]
    if fmt == "A":
        return draw(st.sampled_from(["", "a", "abc", "x y", "Z9", "hello world"]))
    lo, hi = RANGES[fmt]
    return draw(st.one_of(st.sampled_from([0, 1, hi, lo, 77]), st.integers(lo, hi)))


OP_KINDS = ["define"] * 4 + ["link"] * 5 + ["enable"] * 4 + ["s6f15"] * 4 + ["trigger"] * 5 + ["set"] * 1
DATAIDS = [["U4", 1], ["U1", 0], ["A", "d"], ["I2", 7]]


def _pct(draw, p):
    # 0 (Hypothesis' favourite and the shrink target) is the plain choice
    return draw(st.integers(0, 99)) >= 100 - p


@st.composite
def _redefine_template(draw):
    """A report that was used (reported at least once) is deleted - delete-all, delete-one or unlinked first - and defined
    again under the SAME id with a DIFFERENT variable list, linked, enabled and reported again: the second report must
    carry the variables of the second definition."""
    rk = draw(st.sampled_from(RPT_DOM))
    ck = draw(st.sampled_from(CE_KNOWN))
    va = draw(st.lists(st.sampled_from(VID_SETTABLE), min_size=1, max_size=3, unique=True))
    vb = draw(st.lists(st.sampled_from(VID_SETTABLE), min_size=1, max_size=3, unique=True).filter(lambda v: v != va))
    did = lambda: draw(st.sampled_from(DATAIDS))  # noqa: E731
    see = lambda: ({"op": "s6f15", "c": _typed(draw, ck)} if draw(st.booleans()) else {"op": "trigger", "ceids": [ck]})  # noqa: E731
    ops = [
        {"op": "define", "dataid": did(), "reports": [{"r": _typed(draw, rk), "v": [_typed(draw, v) for v in va]}]},
        {"op": "link", "dataid": did(), "links": [{"c": _typed(draw, ck), "r": [_typed(draw, rk)]}]},
        {"op": "enable", "ceed": True, "ceids": [_typed(draw, ck)]},
        see(),
    ]
    how = draw(st.sampled_from(["delete-all", "delete-all", "delete-one", "unlink+delete-one"]))
    if how == "delete-all":
        ops.append({"op": "define", "dataid": did(), "reports": []})
    else:
        if how.startswith("unlink"):
            ops.append({"op": "link", "dataid": did(), "links": [{"c": _typed(draw, ck), "r": []}]})
        ops.append({"op": "define", "dataid": did(), "reports": [{"r": _typed(draw, rk), "v": []}]})
    ops += [
        {"op": "define", "dataid": did(), "reports": [{"r": _typed(draw, rk), "v": [_typed(draw, v) for v in vb]}]},
        {"op": "link", "dataid": did(), "links": [{"c": _typed(draw, ck), "r": [_typed(draw, rk)]}]},
        {"op": "enable", "ceed": True, "ceids": [_typed(draw, ck)]},
        see(),
    ]
    if draw(st.booleans()):
        vid = draw(st.sampled_from(vb))
        ops += [{"op": "set", "vid": vid, "value": _value_for(draw, vid)}, see()]
    return ops


@st.composite
def case_strategy(draw, max_ops=15):
    if draw(st.sampled_from([0, 0, 0, 0, 0, 0, 0, 1])):
        tail = draw(case_strategy(max_ops=4))["ops"] if draw(st.booleans()) else []
        return {"ops": draw(_redefine_template()) + tail, "template": "redefine-after-use"}
    n = draw(st.integers(1, max_ops))
    gs = _GenState()
    ops = []
    hint = None  # (op kind, CEID) that would observe the effect of the previous op
    for _ in range(n):
        k = draw(st.sampled_from(OP_KINDS))
        t = gs.t
        target = None
        if hint is not None and hint[1] in t.links and _pct(draw, 50):
            k, target = hint
        hint = None
        defined = sorted(t.reports, key=repr)
        undefined = [r for r in RPT_DOM if r not in t.reports]
        linked_ce = sorted(t.links, key=repr)
        linked_rpt = sorted({r for v in t.links.values() for r in v}, key=repr)
        # nothing defined / nothing linked yet: mostly build up state first (the blind choice stays possible)
        if target is not None:
            pass
        elif k != "define" and k != "set" and not defined and _pct(draw, 75):
            k = "define"
        elif k in ("enable", "s6f15", "trigger") and defined and not linked_ce and _pct(draw, 60):
            k = "link"
        elif k in ("s6f15", "trigger") and linked_ce and not (gs.on & set(linked_ce)) and _pct(draw, 45):
            k = "enable"
        if k == "define":
            reports = []
            if _pct(draw, 7 if linked_ce else 2):
                pass  # delete all
            else:
                nrep = draw(st.sampled_from([1, 1, 1, 1, 2, 2, 2, 3]))
                chosen = []
                for j in range(nrep):
                    what = draw(st.integers(0, 9))
                    if j > 0 and what == 9:
                        rk = key_of(reports[0]["r"])  # the same RPTID twice inside one request
                    elif what <= 5:
                        rk = _biased(draw, [r for r in undefined if r not in chosen], RPT_DOM, 85)
                    elif what <= 8:
                        rk = _biased(draw, [r for r in linked_rpt if r not in chosen], RPT_DOM, 85)
                    else:
                        rk = _biased(draw, [r for r in defined if r not in chosen], RPT_DOM, 85)
                    chosen.append(rk)
                    if _pct(draw, 6) or (rk in t.reports and _pct(draw, 55)):
                        vids = []  # delete one
                    else:
                        vids = []
                        for _v in range(draw(st.sampled_from([1, 1, 2, 2, 3]))):
                            if vids and _pct(draw, 8):
                                vk = key_of(vids[0])  # the same VID twice in one report
                            elif _pct(draw, 3):
                                vk = draw(st.sampled_from(VID_DOM_UNKNOWN))
                            else:
                                vk = draw(st.sampled_from(VID_DOM_KNOWN))
                            vids.append(_typed(draw, vk))
                    reports.append({"r": _typed(draw, rk), "v": vids})
            ops.append({"op": "define", "dataid": draw(st.sampled_from(DATAIDS)), "reports": reports})
            gs.apply_define([(key_of(r["r"]), [key_of(v) for v in r["v"]]) for r in reports])
        elif k == "link":
            nent = draw(st.sampled_from([1, 1, 1, 1, 2, 2, 3]))
            entries = []
            for j in range(nent):
                what = draw(st.integers(0, 9))
                if j > 0 and what >= 8:
                    ck = key_of(entries[0]["c"])  # the same CEID twice inside one request
                elif what <= 3:
                    ck = _biased(draw, [c for c in CE_KNOWN if c not in t.links], CE_KNOWN, 85)
                elif what <= 6:
                    ck = _biased(draw, linked_ce, CE_KNOWN, 85)
                else:
                    ck = draw(st.sampled_from(CE_DOM + [99]))
                rpts = []
                if _pct(draw, 5) or (ck in t.links and _pct(draw, 25)):
                    pass  # unlink
                else:
                    for _r in range(draw(st.sampled_from([1, 1, 2, 2, 3]))):
                        had = [key_of(r) for r in rpts]
                        fresh = [r for r in defined if r not in t.links.get(ck, []) and r not in had]
                        if rpts and _pct(draw, 10):
                            rk = key_of(rpts[0])  # the same RPTID twice inside one list
                        elif _pct(draw, 75):
                            rk = _biased(draw, fresh, RPT_DOM, 92)
                        else:
                            rk = _biased(draw, [r for r in defined if r not in had], RPT_DOM, 85)
                        rpts.append(_typed(draw, rk))
                entries.append({"c": _typed(draw, ck), "r": rpts})
            ops.append({"op": "link", "dataid": draw(st.sampled_from(DATAIDS)), "links": entries})
            gs.apply_link([(key_of(e["c"]), [key_of(r) for r in e["r"]]) for e in entries])
            for e in entries:
                if key_of(e["c"]) in gs.t.links:
                    hint = ("enable", key_of(e["c"]))
        elif k == "enable":
            ceed = _pct(draw, 70)
            ceids = []
            if target is not None:
                ceids.append(_typed(draw, target))
                if _pct(draw, 25):
                    ceids.append(_typed(draw, draw(st.sampled_from(CE_DOM))))
            elif not _pct(draw, 30):
                for _c in range(draw(st.sampled_from([1, 1, 2, 3]))):
                    ceids.append(_typed(draw, 99 if _pct(draw, 4) else _biased(draw, linked_ce, CE_KNOWN, 88)))
            ops.append({"op": "enable", "ceed": ceed, "ceids": ceids})
            for ck in linked_ce if not ceids else [key_of(c) for c in ceids]:
                (gs.on.add if ceed else gs.on.discard)(ck)
                if ck in t.links:
                    hint = (draw(st.sampled_from(["trigger", "s6f15"])), ck)
        elif k == "s6f15":
            ops.append({"op": "s6f15", "c": _typed(draw, target if target is not None else _biased(draw, linked_ce, CE_DOM, 80))})
        elif k == "trigger":
            ceids = [_biased(draw, linked_ce, CE_DOM, 80) for _c in range(draw(st.sampled_from([1, 1, 2, 3])))]
            if target is not None:
                ceids[0] = target
            ops.append({"op": "trigger", "ceids": ceids})
        else:
            vid = draw(st.sampled_from(VID_SETTABLE))
            ops.append({"op": "set", "vid": vid, "value": _value_for(draw, vid)})
            on = sorted(gs.on & set(linked_ce), key=repr)
            if on:
                hint = (draw(st.sampled_from(["trigger", "s6f15"])), draw(st.sampled_from(on)))
    return {"ops": ops}


# -------------------------------------------------------------------------------------------- system under test
def build_rig(w):
    import secsgem.gem
    import secsgem.secs

    V = secsgem.secs.variables
    types = {"U4": V.U4, "I2": V.I2, "U2": V.U2, "A": V.String}
    rig = gemrig.GemRig(w, role="equipment")
    h = rig.h
    # documented API: docs/firststeps/gemequipment.md ("Adding status variables" / "Adding collection events")
    h.status_variables.update({k: secsgem.gem.StatusVariable(k, f"sv {k}", "u", types[f], cb) for k, (f, cb) in SVS.items()})
    h.data_values.update({k: secsgem.gem.DataValue(k, f"dv {k}", types[f], cb) for k, (f, cb) in DVS.items()})
    h.collection_events.update({"ce": secsgem.gem.CollectionEvent("ce", "text id event", [30, "DV2"])})
    for k in SVS:
        h.status_variables[k].value = INITIAL[k]
    for k in DVS:
        h.data_values[k].value = INITIAL[k]
    if not rig.establish():
        raise RuntimeError(f"C12 rig: handler did not reach COMMUNICATING: {rig.sim.blocked_report()} {rig.sim.thread_errors}")
    return rig


def _norm(x):
    """secsgem variable / python value -> id value (white-box observation only)."""
    import secsgem.secs

    if isinstance(x, secsgem.secs.variables.Base):
        x = x.get()
    if isinstance(x, (list, tuple)) and len(x) == 1:
        x = x[0]
    if isinstance(x, bytes):
        x = x.decode("latin1")
    if isinstance(x, bool) or not isinstance(x, (int, str)):
        return "?" + repr(x)
    return x


def snapshot(h):
    """(Tables, problems) read from the handler's registries."""
    problems = []
    t = Tables()
    for k, rep in h.registered_reports.items():
        rk = _norm(k)
        if rk in t.reports:
            problems.append(f"report id {rk!r} stored twice")
        t.reports[rk] = [_norm(v) for v in rep.vars]
    for k, link in h.registered_collection_events.items():
        ck = _norm(k)
        if ck in t.links:
            problems.append(f"collection event id {ck!r} stored twice")
        t.links[ck] = [_norm(r) for r in link.reports]
        t.enabled[ck] = bool(link.enabled)
    return t, problems


def dangling(t):
    return [(ck, rk) for ck, rks in t.links.items() for rk in rks if rk not in t.reports]


class _Bad(Exception):
    def __init__(self, bucket, obs, exp):
        super().__init__(bucket)
        self.bucket, self.obs, self.exp = bucket, obs, exp


def _fmt_frames(frames):
    return [(f"S{f['stream']}F{f['function']}", "W" if f["w"] else "", gemrig.dec(f["body"])) for f in frames]


def expected_reports(t, ck):
    return [(rk, list(t.reports[rk])) for rk in t.links.get(ck, [])]


def match_value(vid, item, values, t):
    """None if the V item is what the model predicts for variable vid, else a description."""
    fmt, p = item
    if vid in VTYPE:
        want = VTYPE[vid]
        cur = values[vid]
        exp = (want, cur.encode("ascii")) if want == "A" else (want, [cur])
        return None if (fmt, p) == exp else f"V of {vid!r} = {item!r}, current value {exp!r}"
    kind = SPECIAL_VIDS[vid]
    if kind == "clock":
        return None if fmt == "A" and len(p) in (12, 16) else f"clock = {item!r}"
    if kind == "control":
        return None if fmt == "B" and len(p) == 1 else f"control state = {item!r}"
    # EventsEnabled: the enabled collection events, order not pinned
    if fmt != "L":
        return f"EventsEnabled = {item!r}"
    got = sorted(repr(id_from_item(x)) for x in p)
    want = sorted(repr(c) for c, e in t.enabled.items() if e)
    return None if got == want else f"EventsEnabled = {got}, enabled events {want}"


def check_event_body(body, ck, t, values, where, must_reports=True, may_be_empty=False):
    """body: decoded S6F11/S6F16 item. Raises _Bad."""
    exp = expected_reports(t, ck) if must_reports else []
    if not (isinstance(body, tuple) and body[0] == "L" and len(body[1]) == 3 and body[1][2][0] == "L"):
        raise _Bad(f"{where}:malformed-body", body, "L[DATAID, CEID, L[reports]]")
    _dataid, ceid, rpts = body[1]
    if id_from_item(ceid) != ck or isinstance(id_from_item(ceid), str) != isinstance(ck, str):
        raise _Bad(f"{where}:wrong-ceid", ceid, ck)
    got = []
    for r in rpts[1]:
        if not (r[0] == "L" and len(r[1]) == 2 and r[1][1][0] == "L"):
            raise _Bad(f"{where}:malformed-report", r, "L[RPTID, L[V..]]")
        got.append((id_from_item(r[1][0]), r[1][1][1]))
    if may_be_empty and not got:
        return "empty"
    if [g[0] for g in got] != [e[0] for e in exp]:
        gl, el = [g[0] for g in got], [e[0] for e in exp]
        if sorted(map(repr, gl)) == sorted(map(repr, el)):
            kind = "reports-in-wrong-order"
        elif len(gl) < len(el):
            kind = "reports-missing"
        elif len(gl) > len(el):
            kind = "reports-extra"
        else:
            kind = "wrong-reports"
        raise _Bad(f"{where}:{kind}", gl, el)
    for (rk, vals), (_, vids) in zip(got, exp):
        if len(vals) != len(vids):
            raise _Bad(f"{where}:wrong-number-of-values", f"report {rk!r}: {vals}", f"values of {vids}")
        for vid, item in zip(vids, vals):
            m = match_value(vid, item, values, t)
            if m:
                raise _Bad(f"{where}:stale-or-wrong-value", m, f"report {rk!r} = current values of {vids}")
    return "full"


def _ack_of(mine, other, sf, where):
    if other:
        raise _Bad(f"{where}:unexpected-extra-frames", _fmt_frames(other), "only the reply")
    if len(mine) != 1:
        raise _Bad(f"{where}:{'no-reply' if not mine else 'several-replies'}", _fmt_frames(mine), f"one S{sf[0]}F{sf[1]}")
    f = mine[0]
    if f["function"] == 0:
        raise _Bad(f"{where}:abort-S{f['stream']}F0", _fmt_frames(mine), f"S{sf[0]}F{sf[1]}")
    if (f["stream"], f["function"]) != sf or f["w"]:
        raise _Bad(f"{where}:wrong-reply", _fmt_frames(mine), f"S{sf[0]}F{sf[1]} without W")
    body = gemrig.dec(f["body"])
    if not (isinstance(body, tuple) and body[0] == "B" and len(body[1]) == 1):
        raise _Bad(f"{where}:malformed-ack", body, "B[1]")
    return body[1][0]


def define_situation(t, reports):
    keys = [r[0] for r in reports]
    if not reports:
        return "delete-all"
    if len(set(map(repr, keys))) < len(keys):
        return "same-rptid-twice"
    if any(vks and any(v not in KNOWN_VIDS for v in vks) for _, vks in reports):
        return "unknown-vid"
    if any(vks and rk in t.reports for rk, vks in reports):
        return "redefine"
    if any(not vks and any(rk in l for l in t.links.values()) for rk, vks in reports):
        return "delete-linked"
    if any(not vks for _, vks in reports):
        return "delete-one"
    return "define"


def link_situation(t, entries):
    cks = [e[0] for e in entries]
    if any(ck not in CE_ALL_KNOWN for ck in cks):
        return "unknown-ceid"
    if any(rk not in t.reports for _, rks in entries for rk in rks):
        return "unknown-rptid"
    if len(set(map(repr, cks))) < len(cks):
        return "same-ceid-twice"
    if any(len(set(map(repr, rks))) < len(rks) for _, rks in entries):
        return "same-rptid-twice"
    if any(rk in t.links.get(ck, []) for ck, rks in entries for rk in rks):
        return "already-linked"
    if any(rks and t.links.get(ck) for ck, rks in entries):
        return "append"
    if any(not rks for _, rks in entries):
        return "unlink"
    return "link"


def run_case(case, observe=None):
    ops = case["ops"]
    stats = {"classes": set(), "accepted": 0}
    cls = stats["classes"]
    with hsmsrig.make_world(case.get("sched", {})) as w:
        rig = build_rig(w)
        h, sim = rig.h, rig.sim
        t = Tables()
        values = dict(INITIAL)
        n_err = [len(sim.thread_errors)]
        cur = {"i": -1, "op": None}

        def request(s, f, item):
            _sys, mine, other = rig.request(s, f, item)
            return mine, other

        def after_step(where):
            if len(sim.thread_errors) != n_err[0]:
                new = sim.thread_errors[n_err[0]:]
                n_err[0] = len(sim.thread_errors)
                raise _Bad(f"{where}:exception-in-handler-thread", new, "no uncaught exception")

        def do_s6f15(tid, where, cls=cls):
            ck = key_of(tid)
            mine, other = request(6, 15, item_of(tid))
            if other:
                raise _Bad(f"{where}:unexpected-extra-frames", _fmt_frames(other), "only the reply")
            if len(mine) != 1:
                raise _Bad(f"{where}:{'no-reply' if not mine else 'several-replies'}", _fmt_frames(mine), "one S6F16")
            f = mine[0]
            if (f["stream"], f["function"]) == (6, 0) and ck not in CE_ALL_KNOWN:
                cls.add("s6f15:unknown-ceid")
                return
            if (f["stream"], f["function"]) == (6, 0):
                raise _Bad(f"{where}:abort-S6F0", _fmt_frames(mine), f"S6F16 with reports {expected_reports(t, ck)}")
            if (f["stream"], f["function"], f["w"]) != (6, 16, 0):
                raise _Bad(f"{where}:wrong-reply", _fmt_frames(mine), "S6F16")
            body = gemrig.dec(f["body"])
            if ck not in t.links:
                cls.add("s6f15:unknown-ceid" if ck not in CE_ALL_KNOWN else "s6f15:unlinked")
                check_event_body(body, ck, t, values, where, must_reports=False)
            elif t.enabled[ck]:
                cls.add("s6f15:enabled-linked")
                check_event_body(body, ck, t, values, where)
            else:
                r = check_event_body(body, ck, t, values, where, may_be_empty=True)
                cls.add(f"s6f15:disabled-linked:{r}")

        def do_trigger(ceids, where, cls=cls):
            st_, box = sim.run(lambda: h.trigger_collection_events(list(ceids)), name="trigger")
            if st_ != "done" or "error" in box:
                raise _Bad(f"{where}:trigger-call-failed", f"{st_} {box.get('error')!r}", "trigger_collection_events returns")
            expect = [ck for ck in ceids if ck in t.links and t.enabled.get(ck)]
            got = []
            for _ in range(len(ceids) + 2):
                sim.settle()
                frames = rig.data_out()
                if not frames:
                    break
                for f in frames:
                    got.append(f)
                    if (f["stream"], f["function"]) == (6, 11) and f["w"]:
                        rig.send_sf(6, 12, 0, ("B", b"\x00"), system=f["system"])
            after_step(where)
            for f in got:
                if (f["stream"], f["function"]) != (6, 11):
                    raise _Bad(f"{where}:unexpected-frame", _fmt_frames(got), f"S6F11 for {expect}")
            if len(got) != len(expect):
                kind = "event-report-missing" if len(got) < len(expect) else "event-report-for-disabled-or-unlinked-event"
                raise _Bad(f"{where}:{kind}", _fmt_frames(got), f"S6F11 for {expect} (tables {t.show()})")
            for f, ck in zip(got, expect):
                if not f["w"]:
                    raise _Bad(f"{where}:S6F11-without-W", _fmt_frames([f]), "S6F11 W")
                check_event_body(gemrig.dec(f["body"]), ck, t, values, where + ":S6F11")
            cls.add("trigger:sent" if expect else "trigger:nothing-to-send")
            if any(ck in t.links and not t.enabled.get(ck) for ck in ceids):
                cls.add("trigger:linked-but-disabled-suppressed")
            if any(ck not in t.links for ck in ceids):
                cls.add("trigger:unlinked-or-unknown-suppressed")

        def integrity(snap, problems, before, where, deleted=()):
            if problems:
                raise _Bad(f"{where}:registry-holds-same-id-twice", problems, "ids identified by value")
            d = dangling(snap)
            if d:
                ck, rk = d[0]
                kind = "link-to-undefined-report"
                if deleted == "ALL":
                    kind = "delete-all-keeps-links"
                elif rk in deleted:
                    nb, na = before.links.get(ck, []).count(rk), snap.links[ck].count(rk)
                    kind = "only-first-of-repeated-link-removed" if nb >= 2 and 0 < na < nb else "link-kept"
                raise _Bad(f"dangling-link:{where.split(':')[0]}:{kind}", f"links {snap.show()['links']} reports {sorted(map(repr, snap.reports))}", "every linked RPTID is a defined report")

        try:
            for i, op in enumerate(ops):
                cur["i"], cur["op"] = i, op
                k = op["op"]
                before, bproblems = snapshot(h)
                if k == "define":
                    reports = [(key_of(r["r"]), [key_of(v) for v in r["v"]]) for r in op["reports"]]
                    sit = define_situation(t, reports)
                    where = "S2F33"
                    cls.add(f"define:{sit}")
                    keys = [r[0] for r in reports]
                    if len(set(map(repr, keys))) < len(keys) or any(len(set(map(repr, v))) < len(v) for _, v in reports):
                        cls.add("dup-id-in-request")
                        stats["dup"] = True
                    if any(not v and any(rk in l for l in t.links.values()) for rk, v in reports) or (not reports and t.links):
                        cls.add("deletion-of-linked-report")
                        stats["del_linked"] = True
                    if any(len(set(map(repr, l))) < len(l) for l in t.links.values()):
                        cls.add("define-while-a-link-holds-a-report-twice")
                    outs = define_outcomes(t, reports)
                    if ambiguous(outs):
                        cls.add("define:E5-ambiguous")
                    item = ("L", [item_of(op["dataid"]), ("L", [("L", [item_of(r["r"]), ("L", [item_of(v) for v in r["v"]])]) for r in op["reports"]])])
                    mine, other = request(2, 33, item)
                    ack = _ack_of(mine, other, (2, 34), where)
                    after_step(where)
                    snap, problems = snapshot(h)
                    deleted = [rk for rk, v in reports if not v] if reports else "ALL"
                    self_check(t, outs, ack, snap, problems, before, where, stats, cls, integrity, deleted)
                    t = follow(t, outs, ack, snap)
                    if snap.enabled != t.enabled:
                        raise _Bad(f"{where}:enable-flags-changed", snap.show()["enabled"], t.show()["enabled"])
                elif k == "link":
                    entries = [(key_of(e["c"]), [key_of(r) for r in e["r"]]) for e in op["links"]]
                    sit = link_situation(t, entries)
                    where = "S2F35"
                    cls.add(f"link:{sit}")
                    cks = [e[0] for e in entries]
                    if len(set(map(repr, cks))) < len(cks) or any(len(set(map(repr, r))) < len(r) for _, r in entries):
                        cls.add("dup-id-in-request")
                        stats["dup"] = True
                    outs = link_outcomes(t, entries)
                    if ambiguous(outs):
                        cls.add("link:E5-ambiguous")
                    item = ("L", [item_of(op["dataid"]), ("L", [("L", [item_of(e["c"]), ("L", [item_of(r) for r in e["r"]])]) for e in op["links"]])])
                    mine, other = request(2, 35, item)
                    ack = _ack_of(mine, other, (2, 36), where)
                    after_step(where)
                    snap, problems = snapshot(h)
                    self_check(t, outs, ack, snap, problems, before, where, stats, cls, integrity, ())
                    told = t
                    t = follow(t, outs, ack, snap)
                    if ack == 0:
                        # enabled flags: fresh link => disabled; untouched => unchanged; appended to a linked CEID => mirrored
                        for ck in t.links:
                            appended = ck in told.links and any(c == ck and r for c, r in entries)
                            if appended:
                                t.enabled[ck] = snap.enabled[ck]
                            elif snap.enabled.get(ck) != t.enabled[ck]:
                                kind = "fresh-link-not-disabled" if ck not in told.links or any(c == ck for c, _ in entries) else "enable-flag-of-other-event-changed"
                                raise _Bad(f"{where}:{kind}", f"CEID {ck!r} enabled={snap.enabled.get(ck)}", f"enabled={t.enabled[ck]}")
                elif k == "enable":
                    cks = [key_of(c) for c in op["ceids"]]
                    ceed = bool(op["ceed"])
                    unknown = [c for c in cks if c not in CE_ALL_KNOWN]
                    unlinked = [c for c in cks if c in CE_ALL_KNOWN and c not in t.links]
                    sit = "all" if not cks else "unknown-ceid" if unknown else "unlinked-ceid" if unlinked else "linked"
                    where = f"S2F37:{sit}"
                    cls.add(f"enable:{sit}")
                    if len(set(map(repr, cks))) < len(cks):
                        cls.add("dup-id-in-request")
                        stats["dup"] = True
                    item = ("L", [("BOOLEAN", [ceed]), ("L", [item_of(c) for c in op["ceids"]])])
                    mine, other = request(2, 37, item)
                    ack = _ack_of(mine, other, (2, 38), where)
                    after_step(where)
                    snap, problems = snapshot(h)
                    integrity(snap, problems, before, where)
                    if not snap.same_tables(t):
                        raise _Bad(f"{where}:reports-or-links-changed", snap.show(), t.show())
                    if unknown and ack == 0:
                        raise _Bad(f"{where}:ack-0", ack, "ERACK 1 (at least one CEID does not exist)")
                    if not unknown and not unlinked and ack != 0:
                        raise _Bad(f"{where}:ack-{ack}", ack, "ERACK 0")
                    exp = dict(t.enabled)
                    pinned = not unknown and not unlinked
                    for ck in exp:
                        if pinned and (not cks or ck in cks):
                            exp[ck] = ceed
                        elif not pinned and ck in cks:
                            exp[ck] = snap.enabled[ck]  # partial-failure semantics are not pinned: mirrored
                    if snap.enabled != exp:
                        raise _Bad(f"{where}:wrong-enable-flags", snap.show()["enabled"], {repr(a): b for a, b in exp.items()})
                    t.enabled = exp
                    stats_ack(stats, cls, ack)
                elif k == "s6f15":
                    do_s6f15(op["c"], "S6F15")
                    after_step("S6F15")
                elif k == "trigger":
                    do_trigger(op["ceids"], "trigger")
                elif k == "set":
                    vid = op["vid"]
                    (h.status_variables if vid in SVS else h.data_values)[vid].value = op["value"]
                    values[vid] = op["value"]
                    cls.add("value-update")
                else:
                    raise ValueError(f"unknown op {k}")
                if k in ("s6f15", "trigger", "set"):
                    snap, problems = snapshot(h)
                    integrity(snap, problems, before, k)
                    if not snap.same_tables(t) or snap.enabled != t.enabled:
                        raise _Bad(f"{k}:tables-changed", snap.show(), t.show())
            # ---- epilogue: black-box view of the final tables (enable everything, ask for / trigger every linked event)
            cur["i"], cur["op"] = len(ops), "epilogue"
            if t.links:
                for ceed in (False, True):
                    mine, other = request(2, 37, ("L", [("BOOLEAN", [ceed]), ("L", [])]))
                    ack = _ack_of(mine, other, (2, 38), "S2F37:all")
                    if ack != 0:
                        raise _Bad(f"S2F37:all:ack-{ack}", ack, "ERACK 0")
                    for ck in t.enabled:
                        t.enabled[ck] = ceed
                    snap, problems = snapshot(h)
                    if snap.enabled != t.enabled:
                        raise _Bad("S2F37:all:wrong-enable-flags", snap.show()["enabled"], t.show()["enabled"])
                    if not ceed:
                        do_trigger(sorted(t.links, key=repr), "trigger", cls=set())  # all disabled: nothing may be sent
                for ck in sorted(t.links, key=repr):
                    do_s6f15(["A", ck] if isinstance(ck, str) else ["U4", ck], "S6F15", cls=set())
                do_trigger(list(CE_DOM), "trigger", cls=set())
                cls.add("final:links-present")
                if any(len(v) >= 2 for v in t.links.values()):
                    cls.add("final:event-with-2+-reports")
                if any(len(set(map(repr, v))) < len(v) for v in t.links.values()):
                    cls.add("final:event-with-a-report-linked-twice")
        except _Bad as b:
            if observe is not None:
                observe.update(stats)
            return Failure(b.bucket, case, f"op#{cur['i']} {cur['op']}: {b.obs}", b.exp)
    if observe is not None:
        observe.update(stats)
    return None


def stats_ack(stats, cls, ack):
    if ack == 0:
        stats["accepted"] += 1
        cls.add("ack:accepted")
    else:
        cls.add("ack:refused")
        if stats["accepted"] >= 2:
            cls.add("refused-after-2-accepted")
            stats["refused_late"] = True


def self_check(t, outs, ack, snap, problems, before, where, stats, cls, integrity, deleted):
    """ack admissible; refused => unchanged; accepted => one of the admissible tables; integrity."""
    acks = admissible(outs)
    stats_ack(stats, cls, ack)
    if ack not in acks:
        raise _Bad(f"{where}:ack-{ack}-expected-{'|'.join(map(str, sorted(acks)))}", f"ack {ack} (tables before {t.show()})", f"ack in {sorted(acks)}")
    if ack != 0:
        if not snap.same_tables(before) or snap.enabled != before.enabled:
            raise _Bad(f"{where}:refused-ack-{ack}-but-tables-changed", snap.show(), before.show())
        integrity(snap, problems, before, where, deleted)
        return
    integrity(snap, problems, before, where, deleted)
    if not any(not errs and tab.same_tables(snap) for errs, tab in outs):
        cands = [tab.show() for errs, tab in outs if not errs]
        tab = [tab for errs, tab in outs if not errs][0]
        raise _Bad(f"{where}:accepted-but-wrong-effect:{diff_kind(snap, tab)}", snap.show(), cands[0] if len(cands) == 1 or all(c == cands[0] for c in cands) else cands)


def diff_kind(snap, tab):
    """Which part of the tables differs from the (first) admissible outcome - part of the root-cause key."""
    if set(map(repr, snap.reports)) != set(map(repr, tab.reports)):
        return "set-of-reports"
    if snap.reports != tab.reports:
        return "report-contents"
    if set(map(repr, snap.links)) != set(map(repr, tab.links)):
        return "set-of-linked-events"
    for ck in tab.links:
        if snap.links[ck] != tab.links[ck]:
            return "link-order" if sorted(map(repr, snap.links[ck])) == sorted(map(repr, tab.links[ck])) else "linked-reports"
    return "other"


def follow(t, outs, ack, snap):
    """The model follows the admissible outcome the implementation chose."""
    if ack != 0:
        return t
    for errs, tab in outs:
        if not errs and tab.same_tables(snap):
            return tab
    raise AssertionError("self_check admitted an outcome that follow() cannot find")


def nontrivial(stats):
    return bool(stats.get("del_linked") or stats.get("dup") or stats.get("refused_late"))


# -------------------------------------------------------------------------------------------- runner glue
def plan(tier, seed):
    quick = tier == "quick"
    shards = 16 if quick else 64
    return [("gen", {"shard": i, "n": 90 if quick else 250, "max_ops": 15 if quick else 40}) for i in range(shards)]


def run_task(name, kw, ctx):
    def body(case):
        obs = {}
        f = run_case(case, obs)
        classes = sorted(obs.get("classes", ()))
        if case.get("template"):
            classes.append("template:" + case["template"])
        if f is not None:
            classes.append("failure:" + f.bucket)
        ctx.case(case, nontrivial(obs), classes)
        return f

    ctx.hyp(case_strategy(kw["max_ops"]), body, kw["n"], seed_offset=kw["shard"])


def replay(case, ctx):
    return run_case(case)
