"""C03 - every catalogued stream/function round-trips and is found by its S/F numbers.

Generation is driven by the YAML catalogue (vf/ref/catalogue.py reads functions.yaml / data_items.yaml with plain
yaml.safe_load and parses the structure text with its own parser written from docs/firststeps/sfdl.md), never by the
secsgem classes: a value is built from the catalogue shape (record / open list / data item), the expected E5 item tree
and the expected get() value are built by this harness from the same shape and the concrete types chosen.

Case (plain JSON): {"sf": [S, F], "hdr": [system, W, session], "v": node | None}
  node for a data item : {"i": {"f": fmt, "v": [...]}, "form": F}   F = "typed" (secsgem variable object given to a
                                                                     multi-type item), "plain:scalar|str|bytes" (plain
                                                                     Python value given to a multi-type item), or a
                                                                     constructor form of vf.sgvars.leaf_pyvalue for
                                                                     single-type items (scalar/list/str/bytes/int)
                         {"pl": [...]}                               plain (nested) Python list given to a multi-type
                                                                     item whose first allowed type is Array
  node for an open list: {"a": [node...]} or {"a": [node...], "n": N} (N elements cycling through the given ones)
  node for a record    : {"r": [node...], "form": "dict"|"list"}
  {"catalogue": bucket} re-runs the consistency scan.

Corrections (oracle narrowed to what the statement says)
* The type chosen for a plain Python value in a multi-type item is implementation-defined: the oracle only demands
  that the encoded item has a type in the item's allowed list and that the documented read-out of that item equals the
  value given (int -> any integer type or a single byte; bool -> BOOLEAN or 0/1; str -> A; bytes -> B or A).
* Plain values are only generated where they are unambiguous: ints to items allowing an integer type (value drawn
  from the range of an allowed type), bools to items allowing BOOLEAN, strs (starting with a letter that cannot begin
  a number/boolean word) to items allowing A, bytes to items allowing B (an item that also allows A may store them
  as text: demanded is only the same payload bytes in type A or B and the documented read-out of that item - C01's
  relation), lists only to items
  whose first allowed type is Array and only with 0, 2 or 3 elements per level (a one-element list is
  indistinguishable from a scalar under get()'s documented single-element unwrapping).
* `length` of a data item is a maximum (docstring of Dynamic: "max number of items in type"), so conforming element
  counts are 0..length.
* Pairing is demanded only where the catalogue declares it: odd F with reply -> (S, F+1) exists with mirrored
  directions; S9Fx / SxF0 / odd functions without reply need no partner; a secondary (even F > 0) whose primary exists
  must be announced by that primary (reply flag) - the converse reading of "agree with its partner function".
"""

from __future__ import annotations

import random

from hypothesis import strategies as st

from vf import sgvars as sg
from vf.gen import items as gi
from vf.ref import catalogue as cat
from vf.ref import e5
from vf.run import Failure, HarnessError, chash

PROPERTY = "C03"
LEVEL = "exploration"
TECHNIQUE = (
    "catalogue-driven structure-aware generation (exhaustive over the 134 functions and over every allowed type of every "
    "data item occurrence; Hypothesis for combinations) against an independent E5 codec and an independent YAML/SFDL reader; "
    "exhaustive catalogue consistency scan incl. all 128x256 stream/function lookups"
)
RULE = (
    "For every function in functions.yaml: values built from the catalogue shape - per function a deterministic sweep "
    "(each open list at 0/1/2/3 elements (thorough 255/256), every allowed alternative type of every multi-type item "
    "occurrence given as typed variable, length-limited items at 0/1/limit, records as dict and as positional list, "
    "unambiguous plain Python values, plain lists for Array-first items as a separate bounded class) plus Hypothesis "
    "draws over the same space. Oracle: cls(value).encode() == ref.e5.encode(tree built from catalogue shape + chosen "
    "types); StreamsFunctions().decode(HsmsMessage(HsmsStreamFunctionHeader(sys,S,F,W,dev), bytes)) is an instance of "
    "the one class registered for (S,F), get() equal to the model value, re-encode identical; plain values read back "
    "equal and are stored in an allowed type; catalogue scan: YAML flags/structure == class attributes, pairing rules, "
    "function(S,F) over all S<128,F<256, no duplicates, data_items.yaml == data item classes. Non-trivial = an open "
    "list of length != 1, or a non-default alternative type, or a boundary length (0 or the limit of a length-limited "
    "item, or 255/256 elements); distinct by hash of (S, F, value)."
)
ASSUMPTIONS = [
    "vf/ref/e5.py is a correct SEMI E5 codec (hand vectors) and vf/ref/catalogue.py reads the YAML as documented",
    "docs/firststeps/sfdl.md defines the structure language: one member = open list, several members = record keyed by "
    "data item name / nested item name / name after L / DATA",
    "`length` in data_items.yaml is the maximum element count of the item (Dynamic docstring)",
    "the type chosen for plain Python values in multi-type items is implementation-defined (not pinned)",
]
BUDGET_S = {"quick": 110, "thorough": 1200}
EXHAUSTIVE_NOTE = (
    "catalogue dimension exhaustive: all functions.yaml entries x (flags, structure, pairing, lookup over all 32768 "
    "(S,F) headers); all data_items.yaml entries x (types in order, length); per function every (item occurrence, "
    "allowed type) pair is swept deterministically"
)

ALL_TYPES = ["BOOLEAN", "U1", "U2", "U4", "U8", "I1", "I2", "I4", "I8", "F4", "F8", "A", "B"]
PLAIN_FIRST = "ghjklmpqrvwxz"  # first letters that cannot begin a number, nan/inf, true/false/yes/no
KNOWN_PLAIN_LIST = "plain-list-to-array-item:TypeError"
MAX_NEW_BUCKETS_PER_SHARD = 4

_CAT = {}


def catalogue():
    if not _CAT:
        _CAT["fns"] = cat.functions()
        _CAT["items"] = cat.items()
    return _CAT["fns"], _CAT["items"]


# --------------------------------------------------------------------------------------------
# choosers: one builder, driven either by a seeded Random (deterministic sweep) or by Hypothesis draws


class RndChooser:
    def __init__(self, rnd):
        self.rnd = rnd

    def choice(self, seq):
        return seq[self.rnd.randrange(len(seq))]

    def integer(self, lo, hi):
        return self.rnd.randint(lo, hi)

    def elem(self, f):
        r = self.rnd
        if f in e5.INTS:
            lo, hi = e5.int_range(f)
            return self.choice([lo, hi, 0, 1, hi // 2, r.randint(lo, hi), r.randint(lo, hi)])
        if f == "F4":
            return self.choice([0, 0x80000000, 0x3F800000, 0x7F7FFFFF, 0x00000001, (r.getrandbits(1) << 31) | (r.randint(1, 0xFE) << 23) | r.getrandbits(23)])
        if f == "F8":
            return self.choice([0, 1 << 63, 0x3FF0000000000000, 0x7FEFFFFFFFFFFFFF, 1, (r.getrandbits(1) << 63) | (r.randint(1, 0x7FE) << 52) | r.getrandbits(52)])
        if f == "BOOLEAN":
            return r.randint(0, 1)
        if f in ("A", "J"):
            return self.choice([65, 97, 48, 32, 126, r.randint(32, 126), r.randint(32, 126), r.randint(0, 255)])
        return self.choice([0, 255, 1, 128, r.randint(0, 255)])


class DrawChooser:
    def __init__(self, draw):
        self.draw = draw

    def choice(self, seq):
        return self.draw(st.sampled_from(list(seq)))

    def integer(self, lo, hi):
        return self.draw(st.integers(lo, hi))

    def elem(self, f):
        return self.draw(gi.elems(f, allow_nan=True))


# --------------------------------------------------------------------------------------------
# value builder (catalogue shape -> case node)


class Builder:
    """Options (None = choose freely):
    alen: default open-list length; alens: {open-list index: length}; alt: k -> occurrence i of a multi-type item uses
    types[(k + i) % n]; fill: "n0"|"n1"|"nmax" element count of leaves; rform: "dict"|"list"; plain: allow plain values
    in multi-type items ("never"|"prefer"|None); trigger: "first"|"never"|None plain list for Array-first items."""

    def __init__(self, items, ch, alen=None, alens=None, alt=None, fill=None, rform=None, plain=None, trigger=None, big=False):
        self.items = items
        self.ch = ch
        self.alen = alen
        self.alens = alens or {}
        self.alt = alt
        self.fill = fill
        self.rform = rform
        self.plain = plain
        self.trigger = trigger
        self.big = big
        self.ai = 0
        self.di = 0
        self.triggered = False

    def node(self, shape):
        kind = shape[0]
        if kind == "item":
            return self.item(self.items[shape[1]])
        if kind == "array":
            idx = self.ai
            self.ai += 1
            if idx in self.alens:
                n = self.alens[idx]
            elif self.alen is not None:
                n = self.alen
            else:
                n = self.ch.choice([0, 1, 2, 3, self.ch.integer(0, 6)])
            if n > 8:
                return {"a": [self.node(shape[2]) for _ in range(3)], "n": n}
            return {"a": [self.node(shape[2]) for _ in range(n)]}
        form = self.rform or self.ch.choice(["dict", "list"])
        return {"r": [self.node(m) for m in shape[2]], "form": form}

    def count(self, it, fmt):
        """Element count of a leaf of format fmt in data item it."""
        lim = it.length
        if self.fill == "n0":
            return 0
        if self.fill == "n1":
            return 1
        if self.fill == "nmax":
            return lim if lim is not None else 3
        if lim is not None:
            return self.ch.choice(sorted({0, 1, lim}) + [self.ch.integer(0, lim)])
        return self.ch.choice([1, 0, 2, 3, self.ch.integer(0, 12)])

    def leaf(self, fmt, n):
        return {"f": fmt, "v": [self.ch.elem(fmt) for _ in range(n)]}

    def anytree(self, depth=0):
        """Content of an Array alternative: a list of arbitrary items (typed)."""
        n = self.ch.choice([2, 0, 1, 3])
        out = []
        for _ in range(n):
            f = self.ch.choice(ALL_TYPES + (["L"] if depth < 2 else []))
            if f == "L":
                out.append(self.anytree(depth + 1))
            else:
                out.append(self.leaf(f, self.ch.choice([1, 0, 2, 3])))
        return {"f": "L", "v": out}

    def plainlist(self, depth=0):
        n = self.ch.choice([2, 0, 3])
        out = []
        for _ in range(n):
            k = self.ch.choice(["int", "str", "list"] if depth < 2 else ["int", "str"])
            if k == "int":
                out.append(self.ch.elem(self.ch.choice(["U1", "I2", "U4"])))
            elif k == "str":
                out.append(self.plainstr(self.ch.integer(1, 4)))
            else:
                out.append(self.plainlist(depth + 1))
        return out

    def plainstr(self, n):
        s = self.ch.choice(list(PLAIN_FIRST))
        for _ in range(n - 1):
            s += chr(self.ch.elem("A"))
        return s

    def item(self, it):
        if not it.dynamic:
            fmt = it.types[0]
            item = self.leaf(fmt, self.count(it, fmt))
            return {"i": item, "form": self.ch.choice(natural_forms(item))}
        i = self.di
        self.di += 1
        # plain list for Array-first items: separate, bounded class
        if it.types[0] == "L" and self.trigger != "never":
            if self.trigger is None:  # decided once per case (bounded share), at the first such occurrence
                self.trigger = "first" if self.ch.choice([False] * 11 + [True]) else "never"
            if self.trigger == "first" and not self.triggered:
                self.triggered = True
                return {"pl": self.plainlist()}
        if self.alt is not None:
            fmt = it.types[(self.alt + i) % len(it.types)]
        else:
            fmt = self.ch.choice(it.types)
        if fmt == "L":
            return {"i": self.anytree(), "form": "typed"}
        want_plain = self.plain == "prefer" or (self.plain is None and self.ch.choice([False, False, False, True]))
        if want_plain:
            cands = [k for k in ("int", "str", "bool", "bytes") if plain_ok(it, k)]
            if self.alt is not None:  # keep the swept alternative's kind when it has a plain form
                kind = {"A": "str", "BOOLEAN": "bool", "B": "bytes"}.get(fmt, "int" if fmt in e5.INTS else None)
                cands = [k for k in cands if k == kind] or cands
            if cands:
                kind = self.ch.choice(cands)
                if kind == "int":
                    f2 = fmt if fmt in e5.INTS else self.ch.choice([t for t in it.types if t in e5.INTS])
                    return {"i": self.leaf(f2, 1), "form": "plain:scalar"}
                if kind == "bool":
                    return {"i": self.leaf("BOOLEAN", 1), "form": "plain:scalar"}
                if kind == "str":
                    lim = it.length if it.length is not None else 6
                    s = self.plainstr(self.ch.integer(1, max(1, lim)))
                    return {"i": {"f": "A", "v": [ord(c) for c in s]}, "form": "plain:str"}
                lim = it.length if it.length is not None else 6
                return {"i": self.leaf("B", self.ch.integer(0, lim)), "form": "plain:bytes"}
        return {"i": self.leaf(fmt, self.count(it, fmt)), "form": "typed"}


def plain_ok(it, kind):
    if kind == "int":
        return any(t in e5.INTS for t in it.types)
    if kind == "bool":
        return "BOOLEAN" in it.types
    if kind == "str":
        return "A" in it.types
    return "B" in it.types


def natural_forms(item):
    """Plain Python forms a single-type item is naturally given in."""
    f, n = item["f"], len(item["v"])
    if f in e5.INTS or f in e5.FLOATS or f == "BOOLEAN":
        return ["list"] + (["scalar"] if n == 1 else [])
    if f == "B":
        return ["bytes"] + (["int"] if n == 1 else [])
    return ["str", "bytes"]


# --------------------------------------------------------------------------------------------
# model: walk catalogue shape + case node


def _elems(node):
    els = node["a"]
    n = node.get("n")
    if n is None:
        return els
    return [els[i % len(els)] for i in range(n)]


def conform(shape, node, items, where="v"):
    """Harness self-check: the case is a structure-conforming value of the catalogue shape."""
    kind = shape[0]
    if kind == "item":
        it = items[shape[1]]
        if "pl" in node:
            if not (it.dynamic and it.types[0] == "L"):
                raise HarnessError(f"{where}: plain list for {it.name}")
            return
        item, form = node["i"], node["form"]
        if item["f"] not in it.types and not form.startswith("plain:"):
            raise HarnessError(f"{where}: {item['f']} not allowed for {it.name}")
        if item["f"] != "L" and it.length is not None and len(item["v"]) > it.length:
            raise HarnessError(f"{where}: {len(item['v'])} elements > length of {it.name}")
        if form.startswith("plain:") and not it.dynamic:
            raise HarnessError(f"{where}: plain form for single-type item")
        return
    if kind == "array":
        for i, x in enumerate(node["a"]):
            conform(shape[2], x, items, f"{where}[{i}]")
        return
    if len(node["r"]) != len(shape[2]):
        raise HarnessError(f"{where}: record arity")
    for m, x in zip(shape[2], node["r"]):
        conform(m, x, items, f"{where}.{cat.member_key(m)}")


def py_input(shape, node, items):
    kind = shape[0]
    if kind == "item":
        it = items[shape[1]]
        if "pl" in node:
            return _copy(node["pl"])
        item, form = node["i"], node["form"]
        if form == "typed":
            return sg.typed_obj(item)
        if form.startswith("plain:"):
            return sg.leaf_pyvalue(item, form[6:])
        return sg.leaf_pyvalue(item, form)
    if kind == "array":
        return [py_input(shape[2], x, items) for x in _elems(node)]
    vals = [py_input(m, x, items) for m, x in zip(shape[2], node["r"])]
    if node["form"] == "dict":
        return dict(zip(cat.record_keys(shape), vals))
    return vals


def _copy(x):
    return [_copy(y) for y in x] if isinstance(x, list) else x


def expectation(shape, node, items):
    """("L", [..]) | ("exact", ref item tree, item name) | ("any", allowed fmts, value, item name)."""
    kind = shape[0]
    if kind == "item":
        it = items[shape[1]]
        if "pl" in node:
            return ("any", it.types, node["pl"], it.name)
        if node["form"] == "plain:bytes":
            return ("anybytes", it.types, bytes(node["i"]["v"]), it.name)
        if node["form"].startswith("plain:"):
            return ("any", it.types, sg.expected_get(node["i"]), it.name)
        return ("exact", gi.to_ref(node["i"]), it.name)
    if kind == "array":
        return ("L", [expectation(shape[2], x, items) for x in _elems(node)])
    return ("L", [expectation(m, x, items) for m, x in zip(shape[2], node["r"])])


def exact_tree(exp):
    """ref tree if the expectation pins every leaf, else None."""
    if exp[0] == "exact":
        return exp[1]
    if exp[0] in ("any", "anybytes"):
        return None
    subs = [exact_tree(s) for s in exp[1]]
    if any(s is None for s in subs):
        return None
    return ("L", subs)


def match(exp, tree, path="body"):
    """None if the E5 tree satisfies the expectation, else (bucket-part, detail)."""
    if exp[0] == "L":
        if tree[0] != "L":
            return ("structure:not-a-list", f"{path}: {tree[0]} where a list of {len(exp[1])} is expected")
        if len(tree[1]) != len(exp[1]):
            return ("structure:list-length", f"{path}: L[{len(tree[1])}] where L[{len(exp[1])}] is expected")
        for i, (s, t) in enumerate(zip(exp[1], tree[1])):
            r = match(s, t, f"{path}[{i}]")
            if r:
                return r
        return None
    if exp[0] == "exact":
        if tree != exp[1]:
            return (f"item:{exp[2]}:{exp[1][0]}", f"{path}: {_t(tree)} where {_t(exp[1])} is expected")
        return None
    _, allowed, value, name = exp
    if exp[0] == "anybytes":
        if tree[0] not in allowed or tree[0] not in ("A", "B"):
            return (f"plain-type-not-allowed:{name}", f"{path}: plain {value!r} stored as {tree[0]}, allowed {allowed}")
        if bytes(tree[1]) != value:
            return (f"plain-value-changed:{name}", f"{path}: plain {value!r} stored as {_t(tree)}")
        return None
    if tree[0] not in allowed:
        return (f"plain-type-not-allowed:{name}", f"{path}: plain {value!r} stored as {tree[0]}, allowed {allowed}")
    held = sg.expected_get(gi.from_ref(tree))
    if not sg.same_value(held, value):
        return (f"plain-value-changed:{name}", f"{path}: plain {value!r} stored as {_t(tree)}")
    return None


def _t(tree):
    s = repr(tree)
    return s if len(s) < 160 else s[:160] + "..."


def exp_get(shape, node, items, tree):
    """Expected get(); `tree` is the (already matched) E5 tree of the encoding, consulted only for plain bytes whose
    read-out depends on the type chosen (text type -> the same bytes named as characters)."""
    kind = shape[0]
    if kind == "item":
        if "pl" in node:
            return _copy(node["pl"])
        if node["form"] == "plain:bytes":
            return sg.expected_get(gi.from_ref(tree))
        return sg.expected_get(node["i"])
    if kind == "array":
        return [exp_get(shape[2], x, items, t) for x, t in zip(_elems(node), tree[1])]
    return {k: exp_get(m, x, items, t) for k, m, x, t in zip(cat.record_keys(shape), shape[2], node["r"], tree[1])}


def describe(shape, node, items):
    """(nontrivial, classes) of a case value."""
    st_ = {"nt": False, "cls": []}

    def walk(shape, node):
        kind = shape[0]
        if kind == "item":
            it = items[shape[1]]
            if "pl" in node:
                st_["cls"].append("plain-list-for-array-first-item")
                st_["nt"] = True
                return
            item, form = node["i"], node["form"]
            n = len(item["v"])
            if it.dynamic:
                if form == "typed":
                    st_["cls"].append(f"alt:{item['f']}")
                    if item["f"] != it.types[0]:
                        st_["cls"].append("alt-nondefault")
                        st_["nt"] = True
                else:
                    st_["cls"].append("dynplain:" + {"A": "str", "BOOLEAN": "bool", "B": "bytes"}.get(item["f"], "int"))
            else:
                st_["cls"].append(f"fixed:{item['f']}/{form}")
            if it.length is not None and item["f"] != "L":
                b = "0" if n == 0 else "max" if n == it.length else "1" if n == 1 else "mid"
                st_["cls"].append(f"limited:n={b}")
                if n in (0, it.length):
                    st_["nt"] = True
            return
        if kind == "array":
            n = node.get("n", len(node["a"]))
            st_["cls"].append(f"openlist:n={n if n <= 3 else ('4-8' if n <= 8 else n)}")
            if n != 1:
                st_["nt"] = True
            for x in node["a"]:
                walk(shape[2], x)
            return
        st_["cls"].append(f"record:{node['form']}")
        for m, x in zip(shape[2], node["r"]):
            walk(m, x)

    if shape is None:
        return False, ["header-only"]
    walk(shape, node)
    return st_["nt"], sorted(set(st_["cls"]))


# --------------------------------------------------------------------------------------------
# oracle for one case


def _exc(e):
    return f"{type(e).__name__}: {e}"[:400]


_REG = {}


def registry():
    """(S, F) -> classes listed in secsgem.secs.functions._all (the registration under test)."""
    if not _REG:
        from secsgem.secs.functions._all import secs_streams_functions

        for c in secs_streams_functions:
            _REG.setdefault((c._stream, c._function), []).append(c)
    return _REG


def _has_pl(node):
    if node is None:
        return False
    if "pl" in node:
        return True
    if "i" in node:
        return False
    return any(_has_pl(x) for x in (node.get("a") or node.get("r") or []))


def _leaf_nodes(shape, node, out):
    if shape[0] == "item":
        out.append((shape[1], node))
    elif shape[0] == "array":
        for x in node["a"]:
            _leaf_nodes(shape[2], x, out)
    else:
        for m, x in zip(shape[2], node["r"]):
            _leaf_nodes(m, x, out)


def _localise_construct(shape, node, items, exc):
    """Root-cause key for a constructor failure: the first data item that rejects its own leaf value."""
    import secsgem.secs.data_items as di

    leaves = []
    _leaf_nodes(shape, node, leaves)
    for name, leaf in leaves:
        klass = getattr(di, name, None)
        if klass is None:
            return f"item-missing:{name}"
        try:
            klass(py_input(("item", name), leaf, items))
        except Exception as e2:  # classification only; the failure itself is reported by the caller
            if type(e2) is type(exc):
                what = "plain-list" if "pl" in leaf else f"{leaf['i']['f']}/{leaf['form']}"
                return f"item-rejects:{name}:{what}:{type(exc).__name__}"
    return None


def check_case(case):
    import secsgem.hsms
    import secsgem.secs.functions as sf_mod

    fns, items = catalogue()
    S, F = case["sf"]
    fn = fns.get((S, F))
    if fn is None:
        raise HarnessError(f"S{S}F{F} not in the YAML catalogue")
    node = case["v"]
    if (fn.shape is None) != (node is None):
        raise HarnessError(f"{fn.name}: case value does not fit catalogue shape")
    if node is not None:
        conform(fn.shape, node, items)
    regs = registry().get((S, F), [])
    if len(regs) != 1:
        return Failure(f"registry:{fn.name}:{len(regs)}-classes", case, [c.__name__ for c in regs], "exactly one class")
    cls = regs[0]

    value = py_input(fn.shape, node, items) if node is not None else None
    model_get = None
    exp = expectation(fn.shape, node, items) if node is not None else None
    plain_list = _has_pl(node)
    # 1. construct + encode
    try:
        if case.get("after") is not None and node is not None:
            # the function object held ANOTHER conforming value first and is then given this one: what it encodes and reports
            # is a function of the value it holds now
            obj = cls(py_input(fn.shape, case["after"], items))
            obj.set(value)
        else:
            obj = cls(value)
    except Exception as exc:
        if plain_list and isinstance(exc, TypeError):
            return Failure(KNOWN_PLAIN_LIST, case, _exc(exc), "plain list accepted by an item whose first type is Array")
        key = _localise_construct(fn.shape, node, items, exc) if node is not None else None
        return Failure(key or f"construct:{fn.name}:{type(exc).__name__}", case, _exc(exc), "structure-conforming value accepted")
    try:
        got = obj.encode()
    except Exception as exc:
        return Failure(f"encode-raises:{fn.name}:{type(exc).__name__}", case, _exc(exc), "encodes")
    if node is None:
        if got != b"":
            return Failure(f"header-only-body:{fn.name}", case, got.hex(), "empty body")
    else:
        try:
            tree = e5.decode_all(got)
        except e5.E5Error as exc:
            return Failure(f"encode-invalid-e5:{fn.name}", case, _exc(exc), "valid E5 item")
        bad = match(exp, tree)
        if bad:
            key = bad[0] if not bad[0].startswith("structure:") else f"{bad[0]}:{fn.name}"
            return Failure("encode:" + key, case, bad[1], "tree built from the catalogue shape")
        model_get = exp_get(fn.shape, node, items, tree)
        ref = exact_tree(exp)
        if e5.encode(ref if ref is not None else tree) != got:
            return Failure(f"encode-bytes:{fn.name}", case, got[:64].hex(), e5.encode(ref if ref is not None else tree)[:64].hex())
    # 2. get() of the constructed object (plain values read back unchanged)
    try:
        g = obj.get()
    except Exception as exc:
        return Failure(f"get-raises:{fn.name}", case, _exc(exc), "value")
    if not sg.same_value(g, model_get):
        return Failure(f"get-mismatch:{fn.name}", case, repr(g)[:300], repr(model_get)[:300])
    # 3. lookup by the header's stream/function numbers only
    system, w, session = case["hdr"]
    try:
        msg = secsgem.hsms.HsmsMessage(secsgem.hsms.HsmsStreamFunctionHeader(system, S, F, bool(w), session), got)
        dec = sf_mod.StreamsFunctions().decode(msg)
    except Exception as exc:
        return Failure(f"decode-raises:{fn.name}:{type(exc).__name__}", case, _exc(exc), f"{cls.__name__} object")
    if type(dec) is not cls or dec.stream != S or dec.function != F:
        return Failure("decode-wrong-class", case, f"{type(dec).__name__} S{dec.stream}F{dec.function}", cls.__name__)
    try:
        g2 = dec.get()
        re = dec.encode()
    except Exception as exc:
        return Failure(f"decoded-get-raises:{fn.name}", case, _exc(exc), "value")
    if not sg.same_value(g2, model_get):
        return Failure(f"decoded-value:{fn.name}", case, repr(g2)[:300], repr(model_get)[:300])
    if re != got:
        return Failure(f"decoded-reencode:{fn.name}", case, re[:64].hex(), got[:64].hex())
    return None


# --------------------------------------------------------------------------------------------
# catalogue consistency (exhaustive)


def _fmt_of_class(vc):
    from secsgem.secs import variables

    if vc is variables.Array or vc is variables.List:
        return "L"
    return e5.NAMES.get(getattr(vc, "format_code", None), repr(vc))


def _shape_of_format(df):
    """Shape of a class's `_data_format` (SFDL text, or the legacy nested-list form)."""
    if df is None:
        return None
    if isinstance(df, str):
        return cat.parse_sfdl(df)
    if isinstance(df, list):
        key = None
        members = []
        for x in df:
            if isinstance(x, str):
                key = x
            else:
                members.append(_shape_of_format(x))
        if len(members) == 1 and key is None:
            return ("array", None, members[0])
        return ("record", key, members)
    return ("item", df.__name__)


_PROTO = {}


def _hsms_header_for(inst):
    """(stream, function, W-bit) of the frame the HSMS protocol builds for a function instance (decoded by ref.e37)."""
    from vf.ref import e37

    if "p" not in _PROTO:
        import secsgem.hsms

        _PROTO["p"] = secsgem.hsms.HsmsProtocol(secsgem.hsms.HsmsSettings())
    try:
        msg = _PROTO["p"]._create_message_for_function(inst, 0x01020304)
        raw = msg.blocks[0].encode()
    except Exception:
        return None  # functions whose default body cannot be encoded (unset Dynamic items): flags are checked above
    fr, rest = e37.parse(raw)
    if len(fr) != 1 or rest:
        return ("unparsable", raw[:20].hex(), None)
    return (fr[0]["stream"], fr[0]["function"], bool(fr[0]["w"]))


def scan_catalogue(ctx=None):
    """All catalogue inconsistencies as Failures (bucket names the entry and the rule)."""
    import secsgem.secs.data_items as di
    import secsgem.secs.functions as sf_mod
    from secsgem.secs import variables
    from secsgem.secs.data_items._all import secs_data_items
    from secsgem.secs.functions._all import secs_streams_functions

    out = []

    def bad(bucket, observed, expected):
        out.append(Failure("catalogue:" + bucket, {"catalogue": "catalogue:" + bucket}, observed, expected))

    fns, items = catalogue()
    reg = {}
    for c in secs_streams_functions:
        reg.setdefault((c._stream, c._function), []).append(c)
    n_checked = 0
    # registration == YAML keys, unique
    for sf, cs in sorted(reg.items()):
        if len(cs) > 1:
            bad(f"duplicate:S{sf[0]:02d}F{sf[1]:02d}", [c.__name__ for c in cs], "one class per (S, F) in _all")
        if sf not in fns:
            bad(f"class-without-yaml:S{sf[0]:02d}F{sf[1]:02d}", cs[0].__name__, "entry in functions.yaml")
    flag_names = [
        ("_to_host", "to_host"),
        ("_to_equipment", "to_equipment"),
        ("_has_reply", "reply"),
        ("_is_reply_required", "reply_required"),
        ("_is_multi_block", "multi_block"),
    ]
    for sf, fn in sorted(fns.items()):
        cs = reg.get(sf)
        if not cs:
            bad(f"yaml-without-class:{fn.name}", "no class in _all", fn.name)
            continue
        c = cs[0]
        n_checked += 1
        if c.__name__ != f"Secs{fn.name}":
            bad(f"class-name:{fn.name}", c.__name__, f"Secs{fn.name}")
        for attr, key in flag_names:
            if getattr(c, attr) is not getattr(fn, key):
                bad(f"flag:{fn.name}:{attr}", f"class {attr}={getattr(c, attr)!r}", f"functions.yaml {key}={getattr(fn, key)!r}")
        # the flags an INSTANCE reports (these are what the protocols copy into the header, e.g. the W-bit) and the
        # header the HSMS layer builds for it (added after a seeded change that copied the wrong class flag)
        try:
            inst = c()
            for attr, key in (("to_host", "to_host"), ("to_equipment", "to_equipment"), ("has_reply", "reply"), ("is_reply_required", "reply_required"), ("is_multi_block", "multi_block")):
                if getattr(inst, attr) is not getattr(fn, key):
                    bad(f"instance-flag:{fn.name}:{attr}", f"instance {attr}={getattr(inst, attr)!r}", f"functions.yaml {key}={getattr(fn, key)!r}")
            if (inst.stream, inst.function) != sf:
                bad(f"instance-sf:{fn.name}", (inst.stream, inst.function), sf)
            hdr = _hsms_header_for(inst)
            if hdr is not None and hdr != (sf[0], sf[1], bool(fn.reply_required)):
                bad(f"wire-header:{fn.name}", f"(stream, function, W) = {hdr}", (sf[0], sf[1], bool(fn.reply_required)))
        except Exception as exc:  # a function that cannot be instantiated without a value
            bad(f"instantiate:{fn.name}", repr(exc), "default-constructible function")
        try:
            cshape = _shape_of_format(c._data_format)
        except cat.CatalogueError as exc:
            cshape = ("unparsable", str(exc))
        if cshape != fn.shape:
            bad(f"structure:{fn.name}", repr(cshape)[:300], repr(fn.shape)[:300])
        dup = cat.duplicate_keys(fn.shape)
        if dup:
            bad(f"structure-duplicate-key:{fn.name}", dup, "distinct member keys")
        for name in cat.item_names(fn.shape):
            if name not in items:
                bad(f"structure-unknown-item:{fn.name}:{name}", name, "data item of data_items.yaml")
        # pairing rules (on the YAML declaration; class attributes are tied to it above)
        S, F = sf
        if fn.reply_required and not fn.reply:
            bad(f"pairing:{fn.name}:reply-required-without-reply", "reply_required and not reply", "reply_required => reply")
        if F % 2 == 0 and (fn.reply or fn.reply_required):
            bad(f"pairing:{fn.name}:secondary-with-reply-flag", f"reply={fn.reply} reply_required={fn.reply_required}", "secondary functions expect no reply")
        if F % 2 == 1 and fn.reply:
            p = fns.get((S, F + 1))
            if p is None:
                bad(f"pairing:{fn.name}:reply-function-missing", f"no S{S:02d}F{F + 1:02d}", "partner function in the catalogue")
            elif (p.to_host, p.to_equipment) != (fn.to_equipment, fn.to_host):
                bad(
                    f"pairing:{fn.name}:direction",
                    f"{fn.name} to_host={fn.to_host} to_equipment={fn.to_equipment}; {p.name} to_host={p.to_host} to_equipment={p.to_equipment}",
                    "reply travels in the opposite direction",
                )
        if F % 2 == 0 and F > 0:
            p = fns.get((S, F - 1))
            if p is not None and not p.reply:
                bad(f"pairing:{p.name}:declares-no-reply-but-{fn.name}-exists", f"{p.name} reply=False, partner {fn.name} catalogued", "primary announces its reply")
    # lookup by numbers: every header value
    sfs = sf_mod.StreamsFunctions()
    lookups = 0
    lookup_bad = None
    for S in range(128):
        for F in range(256):
            lookups += 1
            try:
                r = sfs.function(S, F)
            except Exception as exc:
                r = exc
            want = reg.get((S, F), [None])
            if len(want) == 1 and r is want[0]:
                continue
            if len(want) > 1 and isinstance(r, Exception):
                continue  # duplicate registration, reported above
            lookup_bad = (S, F, r, want)
            break
        if lookup_bad:
            break
    if lookup_bad:  # one root cause (the lookup), first witness only
        S, F, r, want = lookup_bad
        wname = getattr(want[0], "__name__", None)
        if isinstance(r, Exception):
            bad("lookup-raises", f"function({S},{F}): {_exc(r)}", wname)
        else:
            bad("lookup-wrong-class", f"function({S},{F}) -> {getattr(r, '__name__', r)}", wname)
    # data items
    by_name = {}
    for c in secs_data_items:
        by_name.setdefault(c.__name__, []).append(c)
    for name, cs in sorted(by_name.items()):
        if len(cs) > 1:
            bad(f"item-duplicate:{name}", len(cs), 1)
        if name not in items:
            bad(f"item-class-without-yaml:{name}", name, "entry in data_items.yaml")
    n_items = 0
    for name, it in sorted(items.items()):
        cs = by_name.get(name)
        if not cs:
            bad(f"item-yaml-without-class:{name}", "no class in data_items._all", name)
            continue
        c = cs[0]
        n_items += 1
        if getattr(di, name, None) is not c or sfs.data_items.item(name) is not c:
            bad(f"item-lookup:{name}", "module attribute / DataItems().item() differ from _all entry", c.__name__)
        is_dyn = c.__type__ is variables.Dynamic
        if is_dyn != it.dynamic:
            bad(f"item-types:{name}", f"class type {c.__type__.__name__}", f"yaml {it.types}")
        else:
            ctypes = [_fmt_of_class(t) for t in (c.__allowedtypes__ if is_dyn else [c.__type__])]
            if ctypes != it.types:
                bad(f"item-types:{name}", ctypes, it.types)
        want_count = it.length if it.length is not None else -1
        if c.__count__ != want_count:
            bad(f"item-count:{name}", c.__count__, want_count)
    if ctx is not None:
        ctx.count("catalogue_functions_checked", n_checked)
        ctx.count("catalogue_items_checked", n_items)
        ctx.count("catalogue_sf_lookups", lookups)
    return out


# --------------------------------------------------------------------------------------------
# generation per function


def _hdr(rnd_or_ch):
    return [rnd_or_ch.choice([0, 1, 0xFFFFFFFF, rnd_or_ch.integer(0, 0xFFFFFFFF)]), rnd_or_ch.integer(0, 1), rnd_or_ch.choice([0, 1, 0x7FFF, rnd_or_ch.integer(0, 0x7FFF)])]


def sweep_cases(fn, items, seed, thorough):
    """Deterministic systematic cases of one function: [(label, case)]."""
    rnd = random.Random(seed * 7919 + fn.stream * 256 + fn.function)
    ch = RndChooser(rnd)

    def mk(label, **kw):
        b = Builder(items, ch, **kw)
        v = b.node(fn.shape)
        return (label, {"sf": [fn.stream, fn.function], "hdr": _hdr(ch), "v": v}, b)

    if fn.shape is None:
        return [("header-only", {"sf": [fn.stream, fn.function], "hdr": _hdr(ch), "v": None})]
    out = []
    base = dict(alen=1, alt=0, fill="n1", rform="dict", plain="never", trigger="never")
    out.append(mk("base", **base)[:2])
    out.append(mk("list-form", **dict(base, rform="list", alen=2))[:2])
    n_arr = cat.arrays_in(fn.shape)
    for j in range(n_arr):
        for n in (0, 2, 3) + ((255, 256) if thorough else ()):
            out.append(mk(f"openlist{j}={n}", **dict(base, alens={j: n}, rform=None))[:2])
    dyn = [items[n] for n in cat.item_names(fn.shape) if items[n].dynamic]
    n_alt = max((len(it.types) for it in dyn), default=0)
    for k in range(1, n_alt):
        out.append(mk(f"alt{k}", **dict(base, alt=k, alen=2, fill=None, rform=None))[:2])
    for fill in ("n0", "n1", "nmax"):
        for k in (0, 1) if dyn else (0,):
            out.append(mk(f"fill-{fill}-alt{k}", **dict(base, fill=fill, alt=k, alen=2, rform=None))[:2])
    if any(plain_ok(it, k) for it in dyn for k in ("int", "str", "bool", "bytes")):
        for k in range(min(n_alt, 4 if not thorough else n_alt)):
            out.append(mk(f"plain{k}", **dict(base, plain="prefer", alt=k, alen=2, rform=None))[:2])
    if any(it.types[0] == "L" for it in dyn):
        for r in range(1 if not thorough else 4):
            lab, case, b = mk(f"plain-list{r}", **dict(base, trigger="first"))
            if not b.triggered:
                raise HarnessError(f"{fn.name}: plain-list case not built")
            out.append((lab, case))
    return out


def alt_pairs_required(fn, items):
    return {(n, t) for n in cat.item_names(fn.shape) if items[n].dynamic for t in items[n].types}


def alt_pairs_in(shape, node, items, out):
    if shape[0] == "item":
        if "i" in node and node["form"] == "typed":
            out.add((shape[1], node["i"]["f"]))
    elif shape[0] == "array":
        for x in node["a"]:
            alt_pairs_in(shape[2], x, items, out)
    else:
        for m, x in zip(shape[2], node["r"]):
            alt_pairs_in(m, x, items, out)


def case_strategy(fn, items):
    @st.composite
    def _s(draw):
        ch = DrawChooser(draw)
        b = Builder(items, ch)
        v = b.node(fn.shape)
        return {"sf": [fn.stream, fn.function], "hdr": _hdr(ch), "v": v}

    return _s()


# --------------------------------------------------------------------------------------------
# tasks


def _cost(fn):
    return 1 + len(cat.item_names(fn.shape)) * (1 + cat.arrays_in(fn.shape))


def plan(tier, seed):
    fns, _ = catalogue()
    names = sorted(fns.values(), key=lambda f: (-_cost(f), f.name))
    nshard = 16 if tier == "quick" else 48
    shards = [[] for _ in range(nshard)]
    for i, fn in enumerate(names):
        shards[i % nshard].append([fn.stream, fn.function])
    tasks = [("catalogue", {}), ("isolation", {})]
    tasks += [("pair", {"shard": i, "of": 4, "rounds": 1 if tier == "quick" else 12}) for i in range(4)]
    per = 12 if tier == "quick" else 2000
    for i, sh in enumerate(shards):
        if sh:
            tasks.append(("functions", {"sfs": sh, "n": per, "shard": i}))
    return tasks


def _record(ctx, fn, case, items, extra=()):
    nt, classes = describe(fn.shape, case["v"], items)
    ctx.case(case, nt, [f"fn:{fn.name}"] + classes + list(extra), key=chash({"sf": case["sf"], "v": case["v"]}))


def check_isolation(sf):
    """Replacing a function in ONE container (documented: StreamsFunctions.update) must not change what another default
    container, or the shipped catalogue list, finds under the same S/F numbers."""
    import secsgem.secs.functions as sf_mod
    from secsgem.secs.functions._all import secs_streams_functions

    case = {"isolation": list(sf)}
    shipped = list(secs_streams_functions)
    a = sf_mod.StreamsFunctions()
    orig = a.function(*sf)
    if orig is None:
        return None
    custom = type(orig.__name__ + "_Custom", (sf_mod.SecsStreamFunction,), {"_stream": sf[0], "_function": sf[1], "_data_format": None,
                  "_to_host": True, "_to_equipment": True, "_has_reply": False, "_is_reply_required": False, "_is_multi_block": False})
    try:
        a.update(custom)
        if a.function(*sf) is not custom:
            return Failure("isolation:update-not-effective", case, repr(a.function(*sf)), "the updated container returns the custom class")
        b = sf_mod.StreamsFunctions()
        got = b.function(*sf)
        if got is not orig:
            return Failure("isolation:update-leaks-into-other-default-container", case, repr(got), repr(orig))
        if list(secs_streams_functions) != shipped:
            return Failure("isolation:update-changes-shipped-catalogue", case, f"{len(secs_streams_functions)} entries, S{sf[0]}F{sf[1]} -> {[f for f in secs_streams_functions if (f.stream, f.function) == tuple(sf)]}", "shipped list unchanged")
    finally:
        # a leak (only on a broken tree) must not poison the other tasks of this worker process
        secs_streams_functions[:] = shipped
    return None


PAIR_HOT = ["functions/sfdl_tokenizer.py", "variables/functions.py", "functions/streams_functions.py", "functions/base.py"]


def check_pair(case):
    """Two threads work on the SAME stream/function at the same time (a receive thread decoding a message while the
    application builds one of that function): each must see what a single thread sees. Threads switch at generated
    line-level preemptions inside the structure reader, the function base class and the S/F lookup."""
    from vf.conc import run_threads

    inner = {k: case[k] for k in ("sf", "hdr", "v")}
    if check_case(inner) is not None:
        return None, 0  # judged by the sequential tasks
    outs, hits = run_threads([lambda: check_case(inner), lambda: check_case(inner)], case["sched"])
    for val, exc in outs:
        if exc is not None:
            if isinstance(exc, HarnessError):
                raise exc
            return Failure(f"concurrent-users:raises:{type(exc).__name__}", case, _exc(exc), "the result a single thread gets"), hits
        if val is not None:
            return Failure("concurrent-users:" + val.bucket.split(":S")[0], case, val.observed, val.expected), hits
    return None, hits


def run_task(name, kw, ctx):
    fns, items = catalogue()
    if name == "pair":
        names = sorted(fns)
        for r in range(kw["rounds"]):
            for i, sf in enumerate(names):
                if i % kw["of"] != kw["shard"] or fns[sf].shape is None:
                    continue
                if ctx.out_of_time():
                    return
                cases_ = sweep_cases(fns[sf], items, ctx.seed + r, False)
                _, inner = cases_[(r * 3) % len(cases_)]
                rnd = random.Random(ctx.seed * 131 + i * 17 + r)
                case = dict(inner, pair=1, sched={"seed": rnd.randrange(1, 2**31), "switch": 0.5, "pprob": rnd.choice([0.01, 0.03, 0.1]), "hot": PAIR_HOT})
                f, hits = check_pair(case)
                ctx.case(case, hits > 0, ["pair:two-concurrent-users-of-one-function"] + (["pair:preempted-inside-the-library"] if hits else []), key=chash(case))
                ctx.report(f)
        return
    if name == "isolation":
        for sf in sorted(fns):
            case = {"isolation": list(sf)}
            ctx.case(case, True, ["isolation"], key=chash(case))
            ctx.report(check_isolation(sf))
        return
    if name == "catalogue":
        ctx.evals += 1
        for f in scan_catalogue(ctx):
            ctx.report(f)
        return
    thorough = ctx.tier == "thorough"
    for sfi, sf in enumerate(kw["sfs"]):
        fn = fns[tuple(sf)]
        if len(ctx.failures) >= MAX_NEW_BUCKETS_PER_SHARD:
            ctx.note(f"a shard stopped after {MAX_NEW_BUCKETS_PER_SHARD} distinct new failure buckets (the run has failed; the rest is noise)")
            return
        # deterministic sweep
        seen = set()
        prev = None
        for label, case in sweep_cases(fn, items, ctx.seed, thorough):
            if ctx.out_of_time():
                return
            if case["v"] is not None:
                alt_pairs_in(fn.shape, case["v"], items, seen)
            _record(ctx, fn, case, items, ["sweep"])
            ctx.report(check_case(case))
            if case["v"] is not None and prev is not None and not _has_pl(case["v"]) and not _has_pl(prev):
                rc = dict(case, after=prev)
                conform(fn.shape, prev, items)
                ctx.case(rc, True, [f"fn:{fn.name}", "reuse:set-after-another-value"], key=chash({"sf": rc["sf"], "v": rc["v"], "after": prev}))
                f = check_case(rc)
                if f is not None:
                    f = Failure("reuse:" + f.bucket.split(":S")[0], rc, f.observed, f.expected)
                ctx.report(f)
            prev = case["v"]
        if fn.shape is None:
            continue
        missing = alt_pairs_required(fn, items) - seen
        if missing:
            raise HarnessError(f"{fn.name}: sweep does not cover alternatives {sorted(missing)}")
        ctx.count("swept_item_alternative_pairs", len(seen))
        # random combinations

        def body(case, fn=fn):
            _record(ctx, fn, case, items, ["random"])
            return check_case(case)

        ctx.hyp(case_strategy(fn, items), body, kw["n"], seed_offset=fn.stream * 256 + fn.function, max_buckets=3)


def replay(case, ctx):
    if case.get("pair"):
        return check_pair(case)[0]
    if "isolation" in case:
        return check_isolation(tuple(case["isolation"]))
    if "catalogue" in case:
        for f in scan_catalogue():
            if f.bucket == case["catalogue"]:
                return f
        return None
    return check_case(case)
