"""C11 - GEM control state follows the E30 control model for every operator/host history.

Model-based testing: generated op histories (plain data) are applied to a real GemEquipmentHandler (real HsmsProtocol +
TCP classes on simulated sockets, deterministic scheduler, virtual clock) and to the E30 control-state reference model
below in lock-step. The scripted host speaks raw HSMS/SECS-II through the independent codecs (ref.e37 / ref.e5).

Reference model (SEMI E30 control state model, transition table 3.3 / 4.4, typed in from the standard):
  leaf states  EQUIPMENT_OFFLINE(1) ATTEMPT_ONLINE(2) HOST_OFFLINE(3)  [OFF-LINE]   ONLINE_LOCAL(4) ONLINE_REMOTE(5) [ON-LINE]
  (numbers = value of the "ControlState" status variable, E30 variable item dictionary)
   1/2  system initialisation: configured default state (ONLINE | one of the OFF-LINE sub-states)
   3    EQUIPMENT_OFFLINE --operator ON-LINE switch--> ATTEMPT_ONLINE          (S1F1 is sent)
   4    ATTEMPT_ONLINE --S1F0 / reply timeout / communication failure--> configured fail state
        (EQUIPMENT_OFFLINE or HOST_OFFLINE; the library has no setting: either is accepted, model re-synchronised,
        counted as "unconstrained")
   5    ATTEMPT_ONLINE --S1F2--> ON-LINE
   6    ON-LINE --operator OFF-LINE switch--> EQUIPMENT_OFFLINE               "Equipment OFF-LINE" event
   7    entry to ON-LINE: LOCAL or REMOTE per the (remembered) switch setting   "Control State LOCAL|REMOTE" event
   8    LOCAL --operator REMOTE--> REMOTE                                       "Control State REMOTE" event
   9    REMOTE --operator LOCAL--> LOCAL                                        "Control State LOCAL" event
   10   ON-LINE --S1F15 accepted--> HOST_OFFLINE                                "Equipment OFF-LINE" event
   11   HOST_OFFLINE --S1F17 accepted--> ON-LINE                                (event at 7)
   12   HOST_OFFLINE --operator OFF-LINE switch--> EQUIPMENT_OFFLINE          "Equipment OFF-LINE" event
  ONLACK (S1F18): 0 accepted (HOST_OFFLINE), 1 not allowed (EQUIPMENT_OFFLINE, ATTEMPT_ONLINE), 2 already on-line.
  OFLACK (S1F16): 0 (the only defined value).
  Operator requests without a transition in the table for the current state change nothing (whether the call raises or
  returns is not pinned, neither is the exception type).

Corrections / deliberately not demanded (the statement does not say it, or E30 leaves a choice):
  * OFF-LINE behaviour "SxF0 to every primary but S1F13/S1F17" is not part of the statement: for S1F15 / S1F3 / S2F37
    arriving in an OFF-LINE state both the normal secondary and SxF0 are accepted (state must not change).
  * the fail state of ATTEMPT_ONLINE (transition 4) and the state reached from an initial ATTEMPT_ONLINE while
    communication is not yet established: EQUIPMENT_OFFLINE or HOST_OFFLINE.
  * LOCAL/REMOTE switch operated while OFF-LINE: E30 has no transition (state must not change); if the call is accepted the
    new switch setting is remembered for the next ON-LINE entry, if it raises the remembered setting is unchanged.
  * data format of the ControlState value (the library uses B, E30 lists U1): any single integer-valued item is accepted.
  * link loss + re-establish is NOT driven: E30 defines the control state model independently of the communication state
    and does not prescribe a control state change on communication failure other than transition 4.
"""

from __future__ import annotations

import itertools

from hypothesis import strategies as st

from vf import gemrig, hsmsrig
from vf.gemrig import BOOL, B, L, U4, dec
from vf.run import Failure

PROPERTY = "C11"
LEVEL = "exploration"
TECHNIQUE = (
    "model-based stateful testing: generated operator/host histories interpreted in lock-step by the real "
    "GemEquipmentHandler (real HSMS/TCP classes on simulated sockets, deterministic scheduler, virtual clock, scripted raw "
    "host) and an E30 control-state reference model; all 24 configurations enumerated; enumerated per configuration: every "
    "basic op in every state reached by <= 1 (quick) / <= 3 (thorough) transitions, every transition-causing history up to "
    "length 4 / 6, every request kind arriving while ATTEMPT_ONLINE; plus generated histories"
)
RULE = (
    "Configurations: initial in {EQUIPMENT_OFFLINE, ATTEMPT_ONLINE, HOST_OFFLINE, ONLINE} x online in {LOCAL, REMOTE} x probe "
    "answer in {S1F2, S1F0, none (T3)} (all 24, one task each). Histories of 1..20 (quick) / 1..60 (thorough) ops over "
    "{operator online (own probe answer; optional host/operator requests arriving while ATTEMPT_ONLINE), operator offline, "
    "local, remote, host S1F15, S1F17, S1F3[ControlState], S2F37 enable/disable of the control-state CEIDs}, drawn as a "
    "random walk biased (70 %) to ops that cause a transition in the predicted state. Oracle after every op: "
    "control_state.current = model; ONLACK/OFLACK for the state at arrival; S6F11 CEID multiset = enabled events of exactly "
    "the transitions taken, with the reported ControlState value; S1F4 ControlState value = model state number (asked after "
    "every op). Non-trivial = >= 6 executed events, >= 3 distinct leaf states, and an ONLINE sub-state switch followed by "
    "leaving and re-entering ONLINE (remembered sub-state); distinct by configuration + op sequence."
)
ASSUMPTIONS = [
    "E30 control-state transition table, ONLACK/OFLACK values and ControlState numbering typed in from the standard; where "
    "E30 leaves a configuration choice the library does not expose (fail state of ATTEMPT_ONLINE) both are accepted",
    "predefined ids of the library configuration: CEID 1/2/3 = equipment offline / control state local / remote, SVID 1002 = "
    "ControlState; events linked to one report holding SVID 1002 via S2F33/S2F35 in the setup",
    "the scripted host answers every S6F11 W with S6F12; link loss is not part of the event alphabet (E30 prescribes nothing)",
    "sequential histories: one operator/host event at a time (requests arriving while ATTEMPT_ONLINE are the exception); "
    "concurrent operator calls are C18's subject",
]
BUDGET_S = {"quick": 110, "thorough": 1200}

EO, AO, HO, OL, OR = "EQUIPMENT_OFFLINE", "ATTEMPT_ONLINE", "HOST_OFFLINE", "ONLINE_LOCAL", "ONLINE_REMOTE"
SVNUM = {EO: 1, AO: 2, HO: 3, OL: 4, OR: 5}
ONLINE_STATES = (OL, OR)
CE_OFFLINE, CE_LOCAL, CE_REMOTE = 1, 2, 3
SVID_CONTROL = 1002
RPTID = 1
T3 = 45

INITIALS = ("EQUIPMENT_OFFLINE", "ATTEMPT_ONLINE", "HOST_OFFLINE", "ONLINE")
SUBS = ("LOCAL", "REMOTE")
PROBES = ("s1f2", "s1f0", "t3")
CONFIGS = [{"initial": i, "online": o, "probe": p} for i in INITIALS for o in SUBS for p in PROBES]

BASIC_OPS = ("online", "offline", "local", "remote", "s1f15", "s1f17")
DURING = ("s1f17", "s1f15", "s1f3", "offline", "local", "remote")


# ------------------------------------------------------------------------------------------------ reference model
class Model:
    """SEMI E30 control state model (see module docstring). Pure data, knows nothing about secsgem."""

    def __init__(self, state, sub):
        self.state = state  # leaf state
        self.sub = sub  # remembered LOCAL/REMOTE switch setting
        self.enabled = set()  # enabled CEIDs of {1, 2, 3}

    def clone(self):
        c = Model(self.state, self.sub)
        c.enabled = set(self.enabled)
        return c

    def _enter_online(self):
        """transition 7; returns the event of the sub-state entered."""
        if self.sub == "LOCAL":
            self.state = OL
            return CE_LOCAL
        self.state = OR
        return CE_REMOTE

    def operator(self, what):
        """Operator request outside ATTEMPT_ONLINE handling. Returns (allowed, [(ceid, svnum, optional)])."""
        s = self.state
        if what == "offline":
            if s in ONLINE_STATES:  # 6
                self.state = EO
                return True, [(CE_OFFLINE, SVNUM[EO], False)]
            if s == HO:  # 12
                self.state = EO
                return True, [(CE_OFFLINE, SVNUM[EO], False)]
            return False, []
        if what == "local":
            if s == OR:  # 9
                self.state, self.sub = OL, "LOCAL"
                return True, [(CE_LOCAL, SVNUM[OL], False)]
            return False, []
        if what == "remote":
            if s == OL:  # 8
                self.state, self.sub = OR, "REMOTE"
                return True, [(CE_REMOTE, SVNUM[OR], False)]
            return False, []
        if what == "online":
            if s == EO:  # 3
                self.state = AO
                return True, []
            return False, []
        raise ValueError(what)

    def probe_answered(self):
        """5 + 7"""
        ce = self._enter_online()
        return [(ce, SVNUM[self.state], False)]

    def s1f15(self):
        """returns (oflack, events)"""
        if self.state in ONLINE_STATES:  # 10
            self.state = HO
            return 0, [(CE_OFFLINE, SVNUM[HO], False)]
        return 0, []

    def s1f17(self):
        """returns (onlack, events)"""
        if self.state == HO:  # 11 + 7
            ce = self._enter_online()
            return 0, [(ce, SVNUM[self.state], False)]
        if self.state in ONLINE_STATES:
            return 2, []
        return 1, []


def predict(state, sub, op):
    """Generator-side walk of the model (bias only; fail state guessed as HOST_OFFLINE)."""
    m = Model(state, sub)
    k = op["op"]
    if k == "online":
        ok, _ = m.operator("online")
        if ok:
            if op["probe"] == "s1f2":
                m.probe_answered()
            else:
                m.state = HO
    elif k in ("offline", "local", "remote"):
        m.operator(k)
    elif k == "flips":
        for what in op["seq"]:
            m.operator(what)
    elif k == "s1f15":
        m.s1f15()
    elif k == "s1f17":
        m.s1f17()
    return m.state, m.sub


def moving_ops(state):
    if state == EO:
        return ["online"]
    if state == HO:
        return ["s1f17", "offline"]
    if state == OL:
        return ["remote", "offline", "s1f15"]
    return ["local", "offline", "s1f15"]


# ------------------------------------------------------------------------------------------------ generation
@st.composite
def case_strategy(draw, cfg, max_ops):
    n = draw(st.integers(1, max_ops))
    init = {"EQUIPMENT_OFFLINE": EO, "ATTEMPT_ONLINE": HO, "HOST_OFFLINE": HO, "ONLINE": OL if cfg["online"] == "LOCAL" else OR}[cfg["initial"]]
    state, sub = init, cfg["online"]
    ops = []
    for _ in range(n):
        if draw(st.integers(0, 9)) < 7:
            k = draw(st.sampled_from(moving_ops(state)))
        else:
            k = draw(st.sampled_from(["online", "offline", "local", "remote", "s1f15", "s1f17", "s1f3", "s2f37"]))
        if state in (OL, OR) and draw(st.integers(0, 9)) == 0:
            # the operator flips the LOCAL/REMOTE switch several times in a row while the host has not yet acknowledged the
            # event reports of the earlier flips (it answers them all afterwards): every transition taken is reported
            first = "remote" if state == OL else "local"
            other = "local" if first == "remote" else "remote"
            nf = draw(st.integers(2, 5))
            ops.append({"op": "flips", "seq": [first if j % 2 == 0 else other for j in range(nf)]})
            state, sub = predict(state, sub, ops[-1])
            continue
        op = {"op": k}
        if k == "online":
            op["probe"] = cfg["probe"] if draw(st.integers(0, 3)) < 3 else draw(st.sampled_from(PROBES))
            if draw(st.integers(0, 3)) == 0:
                op["during"] = draw(st.lists(st.sampled_from(DURING), min_size=1, max_size=3))
        elif k == "s2f37":
            op["ceed"] = draw(st.booleans())
            op["ceids"] = draw(st.sampled_from([[], [1], [2], [3], [1, 2], [2, 3], [1, 3], [1, 2, 3]]))
        ops.append(op)
        state, sub = predict(state, sub, op)
    enabled0 = draw(st.sampled_from([[1, 2, 3], [1, 2, 3], [1, 2, 3], [], [1], [2, 3]]))
    sched = {"seed": 0}
    if draw(st.integers(0, 3)) == 0:
        sched = {"seed": draw(st.integers(1, 2**31)), "switch": draw(st.sampled_from([0.1, 0.5]))}
    return {"cfg": dict(cfg), "enabled0": enabled0, "ops": ops, "sched": sched}


# ------------------------------------------------------------------------------------------------ interpretation
class _Tolerated(Exception):
    pass


def _intval(item):
    """value of a single integer-valued item (B of one byte, U*/I* with one element) or None."""
    if item is None:
        return None
    fmt, payload = item
    if fmt == "B" and len(payload) == 1:
        return payload[0]
    if fmt[0] in "UI" and fmt != "L" and len(payload) == 1:
        return payload[0]
    return None


def _ceid_and_sv(item):
    """S6F11 body -> (ceid, [ControlState values reported]) or (None, None) if not of the expected shape."""
    try:
        fmt, top = item
        if fmt != "L" or len(top) != 3:
            return None, None
        ceid = _intval(top[1])
        svs = []
        for rpt in top[2][1]:
            for v in rpt[1][1][1]:
                svs.append(_intval(v))
        return ceid, svs
    except (TypeError, IndexError, ValueError):
        return None, None


def run_case(case, observe=None, tolerate=()):
    cfg = case["cfg"]
    ops = case["ops"]
    stats = {"events": 0, "visited": set(), "unconstrained": 0, "remembered_cycle": False, "refused": 0, "ce_checked": 0,
             "during": 0, "during_skipped": 0, "queued": 0, "known": {}, "trans": set()}
    first_failure = [None]

    with hsmsrig.make_world(case.get("sched", {})) as w:
        sim = w.sim
        rig = gemrig.GemRig(w, role="equipment", t3=T3, handler_kwargs={"initial_control_state": cfg["initial"], "initial_online_control_state": cfg["online"]})
        if not rig.establish(auto_s1f1=False):
            raise RuntimeError(f"rig did not reach COMMUNICATING: {sim.blocked_report()}")

        def real():
            return rig.h.control_state.current.name

        # ---- initial state (transitions 1, 2, 7; initial ATTEMPT_ONLINE: 3-5 with the configured probe answer)
        sub0 = cfg["online"]
        if cfg["initial"] == "ONLINE":
            m = Model(OL if sub0 == "LOCAL" else OR, sub0)
        elif cfg["initial"] == "ATTEMPT_ONLINE":
            m = Model(AO, sub0)
        else:
            m = Model(cfg["initial"], sub0)

        def fail(bucket, i, obs, exp):
            f = Failure(bucket, case, f"op#{i} {ops[i] if 0 <= i < len(ops) else 'init'}: {obs}", exp)
            if bucket in tolerate:
                stats["known"][bucket] = stats["known"].get(bucket, 0) + 1
                raise _Tolerated()
            return f

        def answer_events():
            """Answer S6F11 W with S6F12 until quiescence; returns (events [(ceid, svs)], other frames)."""
            evs, other = [], []
            for _ in range(50):
                sim.settle()
                fr = rig.data_out()
                if not fr:
                    return evs, other
                for f in fr:
                    if (f["stream"], f["function"]) == (6, 11):
                        evs.append(_ceid_and_sv(dec(f["body"])))
                        if f["w"]:
                            rig.send_sf(6, 12, 0, (B, b"\x00"), system=f["system"])
                    else:
                        other.append(f)
            raise RuntimeError("handler keeps sending frames")

        def host_request(stream, function, item):
            s = rig.send_sf(stream, function, 1, item)
            evs, other = answer_events()
            mine = [f for f in other if f["system"] == s]
            rest = [f for f in other if f["system"] != s]
            return mine, evs, rest

        def events_mismatch(evs, expected):
            """expected: [(ceid, svnum, optional)] of the transitions taken, before the enabled filter.
            Returns None or (kind, ceid, got, must)."""
            must = sorted(c for c, _, opt in expected if c in m.enabled and not opt)
            may = sorted(c for c, _, opt in expected if c in m.enabled and opt)
            got = sorted(c if c is not None else -1 for c, _ in evs)
            rest = list(got)
            for c in must:
                if c in rest:
                    rest.remove(c)
                else:
                    return ("missing", c, got, must)
            for c in may:
                if c in rest:
                    rest.remove(c)
            if rest:
                return ("unexpected", rest[0], got, must)
            return None

        def check_events(tag, sb, i, evs, expected, check_values=True):
            mm = events_mismatch(evs, expected)
            if mm is not None:
                kind, c, got, must = mm
                return fail(f"{tag}@{sb}:event-{kind}-ceid{c}", i, f"S6F11 CEIDs {got}", f"S6F11 CEIDs {must} (enabled {sorted(m.enabled)})")
            if not check_values:
                return None
            want_sv = {c: sv for c, sv, _ in expected}
            for c, svs in evs:
                stats["ce_checked"] += 1
                if svs != [want_sv[c]]:
                    return fail(f"{tag}@{sb}:event-ceid{c}-reports-wrong-control-state", i, f"report values {svs}", f"[{want_sv[c]}] (ControlState of {m.state})")
            return None

        def check_state(tag, sb, i):
            r = real()
            if r != m.state:
                return fail(f"{tag}@{sb}:state-{r}-instead-of-{m.state}", i, r, m.state)
            return None

        def check_sv(tag, sb, i):
            """S1F3 [ControlState] -> S1F4 value = model state number (S1F0 accepted while OFF-LINE)."""
            mine, evs, rest = host_request(1, 3, (L, [(U4, [SVID_CONTROL])]))
            if evs:
                return fail(f"{tag}@{sb}:event-on-S1F3", i, evs, "no S6F11")
            if len(mine) != 1:
                return fail(f"{tag}@{sb}:s1f3-replies-{len(mine)}", i, [(f["stream"], f["function"]) for f in mine], "one S1F4")
            f = mine[0]
            if (f["stream"], f["function"]) == (1, 0) and m.state not in ONLINE_STATES:
                return None
            val = None
            if (f["stream"], f["function"]) == (1, 4):
                body = dec(f["body"])
                if body is not None and body[0] == "L" and len(body[1]) == 1:
                    val = _intval(body[1][0])
            if val != SVNUM[m.state]:
                return fail(f"sv@{m.state}:value-{val}-instead-of-{SVNUM[m.state]}", i, f"S{f['stream']}F{f['function']} {dec(f['body'])}", f"S1F4 with ControlState {SVNUM[m.state]}")
            return None

        def operator_call(what):
            """Run the operator request on a simulated thread without advancing time. Returns (thread, box)."""
            box = {}
            fn = {
                "online": rig.h.control_switch_online,
                "offline": rig.h.control_switch_offline,
                "local": rig.h.control_switch_online_local,
                "remote": rig.h.control_switch_online_remote,
            }[what]

            def body():
                try:
                    fn()
                    box["raised"] = None
                except Exception as exc:  # the request is refused by raising: type not pinned
                    box["raised"] = repr(exc)

            t = sim.spawn(body, "operator-" + what)
            sim.settle()
            return t, box

        def do_operator(what, tag, i, queue=None):
            """operator request (everything but an allowed 'online'). queue = list: the request arrives while the probe of
            ATTEMPT_ONLINE is in progress; an implementation that serialises transitions may keep the call waiting until
            that transition is complete (it is then evaluated in the state reached, see do_online)."""
            sb, sub_before = m.state, m.sub
            t, box = operator_call(what)
            evs, other = answer_events()
            if t.state != "DONE":
                if queue is None:
                    return fail(f"{tag}@{sb}:operator-call-blocks", i, sim.blocked_report(), "call returns")
                queue.append((what, t, box))
                stats["queued"] += 1
                if evs or other:
                    return fail(f"{tag}@{sb}:message-while-request-waits", i, (evs, [(o["stream"], o["function"]) for o in other]), "nothing sent before the request takes effect")
                return None
            allowed, expected = m.operator(what)
            if not allowed:
                stats["refused"] += 1
                if what in ("local", "remote") and sb not in ONLINE_STATES and box["raised"] is None:
                    m.sub = what.upper()  # switch setting changed while OFF-LINE (accepted): remembered
                    stats["unconstrained"] += 1
            else:
                stats["trans"].add(f"{what}@{sb}")
            r = real()
            if r != m.state:
                if allowed and r == sb:
                    how = "refused" if box["raised"] else "ignored"
                    f = Failure(f"{tag}@{sb}:{how}-instead-of-{m.state}", case, f"op#{i} {ops[i]}: state {r}, raised {box['raised']}", f"state {m.state}")
                else:
                    f = Failure(f"{tag}@{sb}:state-{r}-instead-of-{m.state}", case, f"op#{i} {ops[i]}: state {r}, raised {box['raised']}", f"state {m.state}" + ("" if allowed else " (request not allowed: nothing changes)"))
                if f.bucket in tolerate and r in SVNUM:
                    stats["known"][f.bucket] = stats["known"].get(f.bucket, 0) + 1
                    m.state, m.sub = r, sub_before
                    expected = []
                else:
                    return f
            f = check_events(tag, sb, i, evs, expected)
            if f:
                return f
            if other:
                return fail(f"{tag}@{sb}:unexpected-message-S{other[0]['stream']}F{other[0]['function']}", i, [(o["stream"], o["function"]) for o in other], "no message but the S6F11 of the transition")
            return None

        def do_flips(seq, i):
            """Several operator LOCAL/REMOTE switches in a row; the host acknowledges the S6F11 of all of them only afterwards."""
            sb = m.state
            if sb not in ONLINE_STATES:
                return None
            expected = []
            for what in seq:
                t, box = operator_call(what)
                if t.state != "DONE":
                    return fail(f"operator-flips@{sb}:operator-call-blocks", i, sim.blocked_report(), "call returns (event reports do not hold up the operator)")
                s0 = m.state
                allowed, exp = m.operator(what)
                expected.extend(exp)
                if allowed:
                    stats["trans"].add(f"{what}@{s0}")
            stats["flips"] = stats.get("flips", 0) + 1
            evs, other = answer_events()
            r = real()
            if r != m.state:
                return fail(f"operator-flips@{sb}:state-{r}-instead-of-{m.state}", i, r, m.state)
            f = check_events("operator-flips", sb, i, evs, expected, check_values=False)
            if f:
                return f
            if other:
                return fail(f"operator-flips@{sb}:unexpected-message-S{other[0]['stream']}F{other[0]['function']}", i, [(o["stream"], o["function"]) for o in other], "no message but the S6F11 of the transitions")
            return None

        def do_host(k, tag, i):
            sb = m.state
            if k == "s1f15":
                mine, evs, rest = host_request(1, 15, None)
                ack, expected = m.s1f15()
                want_f = 16
            else:
                mine, evs, rest = host_request(1, 17, None)
                ack, expected = m.s1f17()
                want_f = 18
            if m.state != sb:
                stats["trans"].add(f"{k}@{sb}")
            f = check_state(tag, sb, i)
            if f:
                return f
            if len(mine) != 1:
                return fail(f"{tag}@{sb}:replies-{len(mine)}", i, [(x["stream"], x["function"]) for x in mine], f"one S1F{want_f}")
            r = mine[0]
            if k == "s1f15" and sb not in ONLINE_STATES and (r["stream"], r["function"]) == (1, 0):
                pass  # OFF-LINE: S1F0 accepted
            else:
                body = dec(r["body"]) if (r["stream"], r["function"]) == (1, want_f) else None
                val = _intval(body)
                if val != ack:
                    return fail(f"{tag}@{sb}:ack-{val}-instead-of-{ack}", i, f"S{r['stream']}F{r['function']} {body}", f"S1F{want_f} with {'OFLACK' if k == 's1f15' else 'ONLACK'} {ack}")
            f = check_events(tag, sb, i, evs, expected)
            if f:
                return f
            if rest:
                return fail(f"{tag}@{sb}:unexpected-message-S{rest[0]['stream']}F{rest[0]['function']}", i, [(o["stream"], o["function"]) for o in rest], "no message but reply and S6F11 of the transition")
            return None

        def do_online(op, i, probe_frame=None):
            """allowed operator online (3) incl. the probe (4 / 5 + 7); probe_frame given = already in ATTEMPT_ONLINE (init)."""
            sb = EO if probe_frame is None else AO
            tag = "operator-online" if probe_frame is None else "initial-attempt-online"
            t = None
            if probe_frame is None:
                t, box = operator_call("online")
                m.operator("online")
                stats["trans"].add("online@" + sb)
                fr = rig.data_out()
                r = real()
                probes = [f for f in fr if (f["stream"], f["function"], f["w"]) == (1, 1, 1)]
                if r != AO:  # (whether the call blocks during the probe or returns at once is not pinned)
                    how = "refused" if box.get("raised") else f"state-{r}"
                    return fail(f"{tag}@{sb}:{how}-instead-of-ATTEMPT_ONLINE", i, f"state {r}, call {'returned' if t.state == 'DONE' else 'pending'}, raised {box.get('raised')}, sent {[(f['stream'], f['function']) for f in fr]}", "ATTEMPT_ONLINE, waiting for the answer to S1F1")
                if len(probes) != 1 or len(fr) != 1:
                    return fail(f"{tag}@{sb}:probe-S1F1-not-sent", i, [(f["stream"], f["function"], f["w"]) for f in fr], "exactly one S1F1 W")
                probe_frame = probes[0]
            f = check_sv(tag, AO, i)
            if f:
                return f
            queued = []
            for d in op.get("during", ()):
                if d in ("offline", "local", "remote") and queued:
                    stats["during_skipped"] += 1  # a second request behind a waiting one: order of effect not defined
                    continue
                stats["during"] += 1
                if d in ("s1f15", "s1f17"):
                    f = do_host(d, "host-" + d.upper(), i)
                elif d == "s1f3":
                    f = check_sv("host-S1F3", AO, i)
                else:
                    f = do_operator(d, "operator-" + d, i, queue=queued)
                if f:
                    return f
                f = check_state("during-" + d, AO, i)
                if f:
                    return f
            if op["probe"] == "s1f2":
                rig.send_sf(1, 2, 0, (L, []), system=probe_frame["system"])
            elif op["probe"] == "s1f0":
                rig.send_sf(1, 0, 0, None, system=probe_frame["system"])
            else:
                sim.advance(T3 + 1)
            evs, other = answer_events()
            tag2 = f"{tag}-{op['probe']}"
            if t is not None and t.state != "DONE":
                return fail(f"{tag}@{AO}:operator-call-hangs-after-{op['probe']}", i, sim.blocked_report(), "control_switch_online returns")
            for what, tq, _ in queued:
                if tq.state != "DONE":
                    return fail(f"operator-{what}@{AO}:waiting-call-hangs-after-{op['probe']}", i, sim.blocked_report(), "call returns once the probe is complete")
            stats["trans"].add("probe-" + op["probe"])
            # candidate outcomes: 5+7 | 4 to either fail state; then the request that waited, evaluated in the state reached
            cands = []
            if op["probe"] == "s1f2":
                c = m.clone()
                cands.append((c, c.probe_answered()))
            else:
                for fs in (EO, HO):
                    c = m.clone()
                    c.state = fs
                    cands.append((c, []))
                stats["unconstrained"] += 1
            for what, _, boxq in queued:
                for c, exp in cands:
                    sq = c.state
                    allowed, e2 = c.operator(what)
                    if not allowed and what in ("local", "remote") and sq not in ONLINE_STATES and boxq["raised"] is None:
                        c.sub = what.upper()
                    exp.extend(e2)
            r = real()
            match = [(c, exp) for c, exp in cands if c.state == r]
            if not match:
                want = "fail-state" if (op["probe"] != "s1f2" and not queued) else "-or-".join(sorted({c.state for c, _ in cands}))
                return fail(f"{tag2}@{AO}:state-{r}-instead-of-{want}", i, r, " or ".join(sorted({c.state for c, _ in cands})) + (f" (then operator {queued[0][0]})" if queued else ""))
            chosen = next(((c, exp) for c, exp in match if events_mismatch(evs, exp) is None), match[0])
            m.state, m.sub = chosen[0].state, chosen[0].sub
            # with a request that waited, a report may be built after the second transition: values not compared then
            f = check_events(tag2 + ("+" + queued[0][0] if queued else ""), AO, i, evs, chosen[1], check_values=not queued)
            if f:
                return f
            other = [o for o in other if not ((o["stream"], o["function"]) == (9, 9))]
            if other:
                return fail(f"{tag2}@{AO}:unexpected-message-S{other[0]['stream']}F{other[0]['function']}", i, [(o["stream"], o["function"]) for o in other], "no message but the S6F11 of the transition")
            return None

        def step(i, op):
            k = op["op"]
            sb = m.state
            if k == "online":
                if sb == EO:
                    return do_online(op, i)
                return do_operator("online", "operator-online", i)
            if k in ("offline", "local", "remote"):
                return do_operator(k, "operator-" + k, i)
            if k == "flips":
                return do_flips(op["seq"], i)
            if k in ("s1f15", "s1f17"):
                return do_host(k, "host-" + k.upper(), i)
            if k == "s1f3":
                return check_sv("host-S1F3", sb, i)
            if k == "s2f37":
                mine, evs, rest = host_request(2, 37, (L, [(BOOL, [bool(op["ceed"])]), (L, [(U4, [c]) for c in op["ceids"]])]))
                if len(mine) == 1 and (mine[0]["stream"], mine[0]["function"]) == (2, 0) and sb not in ONLINE_STATES:
                    return None  # OFF-LINE: abort accepted, nothing applied
                if len(mine) != 1 or (mine[0]["stream"], mine[0]["function"]) != (2, 38) or _intval(dec(mine[0]["body"])) != 0:
                    raise RuntimeError(f"S2F37 not accepted: {[(f['stream'], f['function'], f['body'].hex() if isinstance(f['body'], bytes) else f['body']) for f in mine]}")
                ids = op["ceids"] or [CE_OFFLINE, CE_LOCAL, CE_REMOTE]
                if op["ceed"]:
                    m.enabled |= set(ids)
                else:
                    m.enabled -= set(ids)
                if evs or rest:
                    return fail(f"host-S2F37@{sb}:unexpected-message", i, (evs, [(o["stream"], o["function"]) for o in rest]), "only S2F38")
                return None
            raise ValueError(k)

        def guarded(fn, *a):
            try:
                return fn(*a)
            except _Tolerated:
                return None

        # ---- initial state check
        r0 = real()
        f = None
        if cfg["initial"] == "ATTEMPT_ONLINE":
            if r0 == AO:
                # the implementation deferred the probe until communication is up: answer it per configuration
                probes = [x for x in rig.frames_out if x["stype"] == 0 and (x["stream"], x["function"], x["w"]) == (1, 1, 1)]
                if len(probes) != 1:
                    f = Failure("initial-attempt-online:probe-S1F1-not-sent", case, f"{len(probes)} S1F1", "one S1F1 W")
                else:
                    f = guarded(do_online, {"op": "online", "probe": cfg["probe"]}, -1, probes[-1])
            elif r0 in (EO, HO):
                m.state = r0
                stats["unconstrained"] += 1
            else:
                f = Failure(f"initial-ATTEMPT_ONLINE:state-{r0}-without-S1F2", case, r0, "EQUIPMENT_OFFLINE or HOST_OFFLINE (no S1F2 received: communication not established)")
        elif r0 != m.state:
            f = Failure(f"initial-{cfg['initial']}-{cfg['online']}:state-{r0}-instead-of-{m.state}", case, r0, m.state)
        if f is None:
            stats["visited"].add(m.state)
            # ---- setup: report 1 = [ControlState], linked to CEIDs 1..3, enabled per case
            setup = [
                (2, 33, (L, [(U4, [1]), (L, [(L, [(U4, [RPTID]), (L, [(U4, [SVID_CONTROL])])])])]), 34),
                (2, 35, (L, [(U4, [1]), (L, [(L, [(U4, [c]), (L, [(U4, [RPTID])])]) for c in (CE_OFFLINE, CE_LOCAL, CE_REMOTE)])]), 36),
                (2, 37, (L, [(BOOL, [False]), (L, [])]), 38),
            ]
            if case["enabled0"]:
                setup.append((2, 37, (L, [(BOOL, [True]), (L, [(U4, [c]) for c in case["enabled0"]])]), 38))
            for s_, f_, item, rf in setup:
                mine, evs, rest = host_request(s_, f_, item)
                if len(mine) != 1 or (mine[0]["stream"], mine[0]["function"]) != (s_, rf) or _intval(dec(mine[0]["body"])) != 0 or evs or rest:
                    raise RuntimeError(f"setup S{s_}F{f_} not accepted: {[(x['stream'], x['function'], x['body']) for x in mine]} {evs} {rest}")
            m.enabled = set(case["enabled0"])
            f = guarded(check_sv, "initial", m.state, -1)

        # ---- the history
        if f is None:
            in_online = m.state in ONLINE_STATES
            switched = left = False
            for i, op in enumerate(ops):
                before = m.state
                f = guarded(step, i, op)
                if f is not None:
                    break
                stats["events"] += 1
                stats["visited"].add(m.state)
                if op["op"] == "online" and before == EO:
                    stats["visited"].add(AO)
                if before in ONLINE_STATES and m.state in ONLINE_STATES and before != m.state:
                    switched, left = True, False
                now_online = m.state in ONLINE_STATES
                if in_online and not now_online and switched:
                    left = True
                if now_online and not in_online and switched and left:
                    stats["remembered_cycle"] = True
                in_online = now_online
                if op["op"] not in ("s1f3",):
                    f = guarded(check_sv, "after-" + op["op"], m.state, i)
                    if f is not None:
                        break
        first_failure[0] = f
    if observe is not None:
        observe.update(stats)
    return first_failure[0]


def nontrivial(stats):
    return bool(stats.get("events", 0) >= 6 and len(stats.get("visited", ())) >= 3 and stats.get("remembered_cycle"))


def _classes(case, obs):
    cls = [f"init:{case['cfg']['initial']}", f"sub:{case['cfg']['online']}", f"probe:{case['cfg']['probe']}"]
    for s in sorted(obs.get("visited", ())):
        cls.append("visited:" + s)
    for t in sorted(obs.get("trans", ())):
        cls.append("transition:" + t)
    if obs.get("unconstrained"):
        cls.append("unconstrained-choice")
    if obs.get("remembered_cycle"):
        cls.append("remembered-substate-cycle")
    if obs.get("refused"):
        cls.append("not-allowed-operator-request")
    if obs.get("flips"):
        cls.append("operator-flips-with-unacknowledged-reports")
    if obs.get("during"):
        cls.append("request-while-ATTEMPT_ONLINE")
    if obs.get("queued"):
        cls.append("operator-request-waited-for-probe")
    if obs.get("ce_checked"):
        cls.append("S6F11-checked")
    if case.get("sched", {}).get("seed"):
        cls.append("random-schedule")
    if case["enabled0"] != [1, 2, 3]:
        cls.append("partially-enabled-events")
    return cls


def _record(case, ctx, tolerate):
    obs = {}
    f = run_case(case, obs, tolerate=tolerate)
    for b, n in obs.get("known", {}).items():
        ctx.known_hits[b] += n
    ctx.case(case, nontrivial(obs) or f is not None, _classes(case, obs))
    ctx.count("ops_executed", obs.get("events", 0))
    ctx.count("unconstrained_choices", obs.get("unconstrained", 0))
    return f


def _moving_sequences(state, sub, probe, maxlen):
    """every op sequence of length 1..maxlen in which each op causes a transition of the reference model."""
    out = []

    def walk(st_, sub_, seq):
        if seq:
            out.append(list(seq))
        if len(seq) == maxlen:
            return
        for k in moving_ops(st_):
            op = {"op": k, "probe": probe} if k == "online" else {"op": k}
            nst, nsub = predict(st_, sub_, op)
            walk(nst, nsub, seq + [op])

    walk(state, sub, [])
    return out


def enum_cases(cfg, length, prefix_len, moving_len):
    """Deterministic part: (a) every history up to `length` over the basic alphabet and every transition-causing history up
    to `prefix_len` followed by any op of the basic alphabet (every op in every state reached), (b) every
    transition-causing history up to `moving_len`, all events enabled, (c) the same up to length 3 with no / some events
    enabled, (d) every request kind arriving while ATTEMPT_ONLINE."""
    probe = cfg["probe"]
    init = {"EQUIPMENT_OFFLINE": EO, "ATTEMPT_ONLINE": HO, "HOST_OFFLINE": HO, "ONLINE": OL if cfg["online"] == "LOCAL" else OR}[cfg["initial"]]

    def mk(ops, enabled0=(1, 2, 3)):
        return {"cfg": dict(cfg), "enabled0": list(enabled0), "ops": ops, "sched": {"seed": 0}}

    seen = set()
    for n in range(1, length + 1):
        for seq in itertools.product(BASIC_OPS, repeat=n):
            ops = [{"op": k, "probe": probe} if k == "online" else {"op": k} for k in seq]
            seen.add(repr(ops))
            yield mk(ops)
    for pre in _moving_sequences(init, cfg["online"], probe, prefix_len):
        for k in BASIC_OPS:
            ops = pre + [{"op": k, "probe": probe} if k == "online" else {"op": k}]
            if repr(ops) not in seen:
                seen.add(repr(ops))
                yield mk(ops)
    for ops in _moving_sequences(init, cfg["online"], probe, moving_len):
        if repr(ops) not in seen:
            yield mk(ops)
    for j, ops in enumerate(_moving_sequences(init, cfg["online"], probe, 3)):
        yield mk(ops, ((), (1,), (2, 3))[j % 3] if j else ())
    to_eo = [] if init == EO else [{"op": "offline"}]
    for d in DURING:
        yield mk(to_eo + [{"op": "online", "probe": probe, "during": [d]}, {"op": "s1f17"}])
    yield mk(to_eo + [{"op": "online", "probe": probe, "during": list(DURING)}, {"op": "s1f17"}])


def plan(tier, seed):
    quick = tier == "quick"
    tasks = []
    shards = 2 if quick else 4
    for c in reversed(range(len(CONFIGS))):  # the ONLINE configurations have the most enumerated histories: first
        for sh in range(shards):
            tasks.append(("enum", {"cfg": c, "length": 1 if quick else 2, "prefix": 1 if quick else 3, "moving": 4 if quick else 6, "shard": sh, "of": shards}))
        for sh in range(1 if quick else 2):
            tasks.append(("gen", {"cfg": c, "n": 10 if quick else 90, "max_ops": 20 if quick else 60, "shard": sh}))
    return tasks


def run_task(name, kw, ctx):
    cfg = CONFIGS[kw["cfg"]]
    tolerate = frozenset(ctx.known_keys)
    if name == "enum":
        for j, case in enumerate(enum_cases(cfg, kw["length"], kw["prefix"], kw["moving"])):
            if j % kw["of"] != kw["shard"]:
                continue
            if ctx.out_of_time():
                return
            ctx.report(_record(case, ctx, tolerate))
        return
    ctx.hyp(case_strategy(cfg, kw["max_ops"]), lambda case: _record(case, ctx, tolerate), kw["n"], seed_offset=kw["cfg"] * 4 + kw["shard"])


def replay(case, ctx):
    return run_case(case)
