"""C18 - the state-machine engine keeps one consistent current state under any transitions.

Model-based testing of secsgem.common.state_machine (State / Transition / StateMachine._perform_transition) against a
reference interpreter of hierarchical state machines that lives in this file (class Ref) and never calls secsgem.

Reference semantics (what the statement says, nothing more)
  * a machine = a parent forest of states, a current state, named transitions (sources -> destination)
  * request(name): no transition of that name, or current not among its sources => raises, NOTHING changes
    (current, every State.active, the event log)
  * otherwise current := destination.  With L = least common ancestor of source and destination in the forest:
      exited  = source and its ancestors strictly below L,  entered = destination and its ancestors strictly below L
    each exited state fires `leave` once, each entered state fires `enter` once, the transition fires `called` once;
    no order between these events is demanded (the statement gives none)
  * an enter handler may request a further transition; it is evaluated when the handler runs, i.e. against the
    destination of the transition that entered the state; the outermost request returns with current = destination of
    the last performed nested transition
  * after the OUTERMOST request returns: {s : s.active} == {current} + ancestors(current)
  * two concurrent requests: raised flags, final current, active set and event multiset equal those of one of the two
    sequential orders (linearisability)

Corrections (where the oracle / generator was narrowed so that it demands only what the statement says)
  1. Source matching is exact in this engine (the shipped communication machine lists ENABLED *and* all its children
     as sources of `disable`). Whether a transition whose source is a composite state is "allowed" while a child is
     current is not fixed by the statement, so generated source sets are closed downward (a composite source always
     comes with all its descendants) - the question never arises.
  2. Self transitions and transitions between a state and its own ancestor/descendant are "external" (leave + enter
     of the related end state L) in UML and "local" (no event for L) in other formalisms; the statement does not say.
     Both are accepted: the leave/enter pair on L is optional (both or none). Generated nested-request handlers are
     never attached to such an L, so the ambiguity cannot change the run.
  3. Event ORDER is not compared (multiset per outermost request), the exception TYPE is not pinned (only "raises").
  4. At most one state per ancestor chain carries a nested-request handler: the order in which the enter events of one
     transition fire (inner-first here, outer-first in UML) is then irrelevant for the outcome.
  5. Handlers of generated machines catch the exception of their own nested request (a handler that lets it escape
     would abort the outer transition midway - misuse, not an engine property). The shipped control machine's own
     handlers do not catch; their requests are always allowed when they run.
  6. Transition names are unique per machine (`transition()` documents "the" transition of a name).
  7. The DEFINITIONS of the three shipped machines (state set, parents, initial state, transition table) are input
     data of the property ("the three shipped machine definitions") and are read from the live objects; the typed-in
     E37/E30 tables below are only compared with them and drift is reported as a note. (A first version used the
     typed-in tables as the definition and raised a false alarm when the control machine gained E30 transition 12,
     HOST_OFFLINE -> EQUIPMENT_OFFLINE by `switch_offline`.) Only the forwarding handlers of the control machine
     (CONTROL/OFFLINE/ONLINE request the configured sub-state at once) are modelled from the E30 text.

Buckets are root causes. Three are design-time defects of the engine (see DEFECTS below); the comparator recognises
their exact signatures, records them, and keeps checking the rest of the case wherever the run has not diverged, so
that cases which contain a known trigger still exercise everything else. body() returns a failure of a not-yet-known
bucket in preference to a known one.
"""

from __future__ import annotations

import contextlib
import itertools
from collections import Counter

from hypothesis import strategies as st

from vf.run import Failure

PROPERTY = "C18"
LEVEL = "exploration"
TECHNIQUE = (
    "model-based testing (Hypothesis): generated machine definitions + request sequences and the three shipped machines "
    "against an independent LCA-based reference interpreter; bounded exhaustive request sequences on the shipped machines; "
    "two-thread linearisability under a deterministic scheduler with parked line-level preemptions"
)
RULE = (
    "(a) random machines: 2..8 states in a parent forest of depth <= 3 (initial leaf and its ancestors initial=True), 1..10 "
    "uniquely named transitions (1..3 drawn sources closed downward, one destination, incl. self/ancestor/descendant "
    "destinations), 0..3 enter handlers requesting a further transition (budget 1..4 nested requests per outermost request), "
    "recording handlers on every enter/leave/called; 1..30 requests biased to enabled names, incl. known-but-disabled and "
    "unknown names (prefixes, case changes, empty). (b) hsms ConnectionStateMachine, gem CommunicationStateMachine (inside "
    "the simulation, timers never fire), gem ControlStateMachine in all 8 configurations, bare and with an ATTEMPT_ONLINE "
    "enter handler that requests the follow-up (fail/success) like StateModelsCapability; plus all request sequences up to "
    "a bounded length on the three. (c) a sequential prefix, then two simulated threads issuing one request each with 0..3 "
    "parked preemption sites in _perform_transition/enter/leave or a PRNG schedule with preempt_prob>0. Oracle: reference "
    "interpreter (raise + nothing changes | current = destination of the last nested transition; active set = current + "
    "ancestors after the outermost return; event multiset = leave of exited, enter of entered, called - once each; "
    "concurrent outcome = one of the two sequential orders). Non-trivial = depth >= 2 and >= 3 performed transitions, or a "
    "performed nested request, or a concurrent pair with both requests enabled in the pair's start state; distinct by case hash."
)
ASSUMPTIONS = [
    "exited/entered sets are defined by the least common ancestor in the parent forest (classic hierarchical state machine semantics)",
    "definitions of the three shipped machines (states, parents, initial state, transition table) are read from the live objects as input data (typed-in E37/E30 tables are compared, drift is noted); the control machine's forwarding handlers are modelled from E30; the engine is what is under test",
    "sequential runs of the communication machine replace threading.Timer by a stub that never fires; concurrent runs use the simulated timers without advancing the clock",
    "schedules are sampled: parked preemption at source-line granularity inside _perform_transition/enter/leave",
    "event order and exception types are not part of the property",
]
BUDGET_S = {"quick": 110, "thorough": 1200}
EXHAUSTIVE_NOTE = (
    "all request sequences over the machine's transition names + one unknown name: hsms length<=5 (quick) / 6 (thorough); "
    "communication length<=3 / 4; control: every configuration x variant, `start` + length<=2 / 3"
)

HOT = ("_perform_transition", "enter", "leave")

# Whether a leave+enter pair fired on a common ancestor that is neither exited nor entered counts as a violation.
# The statement says the transition fires the leave events "of the states exited" and the enter events "of the states
# entered": a state that stays active throughout (it is an ancestor of both ends - the property's own active-set clause
# keeps it active) is neither, and its handlers run although nothing happened to it (in hsms/protocol.py the leave
# handler of CONNECTED tears the connection down). Kept in its own bucket; set to False to only count it as a class.
COMMON_ANCESTOR_IS_VIOLATION = False

B_STALE = "active:stale-after-transition-requested-from-enter-handler"
B_CONC = "concurrent-requests-not-serialised"
B_ANCESTOR = "events:common-ancestor-left-and-reentered"

DEFECTS = {
    B_STALE: "State.enter fires the enter event before `_active = True` and before entering the parents: a handler that "
    "transitions onward leaves the intermediate state(s) flagged active forever",
    B_CONC: "no mutual exclusion in StateMachine._perform_transition",
    B_ANCESTOR: "State.leave/enter compare parents level by level instead of stopping at the least common ancestor: for ends "
    "of different depth every common ancestor is left and re-entered",
}


# --------------------------------------------------------------------------------------------
# shipped machine definitions (typed in; E37 5.x connection state diagram, E30 communication / control state models)


def _d(states, initial, transitions, nested=None):
    names = [s[0] for s in states]
    return {
        "states": [(n, names.index(p) if p else -1) for n, p in states],
        "initial": names.index(initial),
        "transitions": [(n, [names.index(x) for x in (s if isinstance(s, list) else [s])], names.index(d)) for n, s, d in transitions],
        "nested": nested or {},
        "chain": None,
    }


HSMS_DEF = _d(
    [("NOT_CONNECTED", None), ("CONNECTED", None), ("CONNECTED_NOT_SELECTED", "CONNECTED"), ("CONNECTED_SELECTED", "CONNECTED")],
    "NOT_CONNECTED",
    [
        ("connect", "NOT_CONNECTED", "CONNECTED_NOT_SELECTED"),
        ("disconnect", ["CONNECTED_NOT_SELECTED", "CONNECTED_SELECTED"], "NOT_CONNECTED"),
        ("select", "CONNECTED_NOT_SELECTED", "CONNECTED_SELECTED"),
        ("deselect", "CONNECTED_SELECTED", "CONNECTED_NOT_SELECTED"),
        ("timeoutT7", "CONNECTED_NOT_SELECTED", "NOT_CONNECTED"),
    ],
)

_COMM_CHILDREN = ["NOT_COMMUNICATING", "HOST_INITIATED_CONNECT", "WAIT_CR_FROM_HOST", "EQUIPMENT_INITIATED_CONNECT", "WAIT_DELAY", "WAIT_CRA", "COMMUNICATING"]
COMM_DEF = _d(
    [("DISABLED", None), ("ENABLED", None)] + [(c, "ENABLED") for c in _COMM_CHILDREN],
    "DISABLED",
    [
        ("enable", "DISABLED", "NOT_COMMUNICATING"),
        ("disable", ["ENABLED"] + _COMM_CHILDREN, "DISABLED"),
        ("select", "NOT_COMMUNICATING", "WAIT_CRA"),
        ("communicationreqfail", "WAIT_CRA", "WAIT_DELAY"),
        ("delayexpired", "WAIT_DELAY", "WAIT_CRA"),
        ("messagereceived", "WAIT_DELAY", "WAIT_CRA"),
        ("s1f14received", "WAIT_CRA", "COMMUNICATING"),
        ("communicationfail", "COMMUNICATING", "NOT_COMMUNICATING"),
        ("s1f13received", ["WAIT_CR_FROM_HOST", "WAIT_DELAY", "WAIT_CRA"], "COMMUNICATING"),
    ],
)

_CTRL_STATES = ["INIT", "CONTROL", "OFFLINE", "EQUIPMENT_OFFLINE", "ATTEMPT_ONLINE", "HOST_OFFLINE", "ONLINE", "ONLINE_LOCAL", "ONLINE_REMOTE"]
_ONL = ["ONLINE", "ONLINE_LOCAL", "ONLINE_REMOTE"]
_CTRL_TRANS = [
    ("start", "INIT", "CONTROL"),
    ("initial_offline", "CONTROL", "OFFLINE"),
    ("initial_equipment_offline", "OFFLINE", "EQUIPMENT_OFFLINE"),
    ("initial_attempt_online", "OFFLINE", "ATTEMPT_ONLINE"),
    ("initial_host_offline", "OFFLINE", "HOST_OFFLINE"),
    ("switch_online", "EQUIPMENT_OFFLINE", "ATTEMPT_ONLINE"),
    ("attempt_online_fail_equipment_offline", "ATTEMPT_ONLINE", "EQUIPMENT_OFFLINE"),
    ("attempt_online_fail_host_offline", "ATTEMPT_ONLINE", "HOST_OFFLINE"),
    ("attempt_online_success", "ATTEMPT_ONLINE", "ONLINE"),
    ("switch_offline", _ONL + ["HOST_OFFLINE"], "EQUIPMENT_OFFLINE"),  # E30 transitions 6 and 12
    ("initial_online", "CONTROL", "ONLINE"),
    ("initial_online_local", "ONLINE", "ONLINE_LOCAL"),
    ("initial_online_remote", "ONLINE", "ONLINE_REMOTE"),
    ("switch_online_local", "ONLINE_REMOTE", "ONLINE_LOCAL"),
    ("switch_online_remote", "ONLINE_LOCAL", "ONLINE_REMOTE"),
    ("remote_offline", _ONL, "HOST_OFFLINE"),
    ("remote_online", "HOST_OFFLINE", "ONLINE"),
]
CTRL_INITIAL = ["EQUIPMENT_OFFLINE", "ATTEMPT_ONLINE", "HOST_OFFLINE", "ONLINE"]
CTRL_ONLINE = ["LOCAL", "REMOTE"]
CTRL_ATTEMPT = [None, "fail", "success"]


def control_forwarding(d, initial, online, attempt):
    """E30 control state model as implemented: CONTROL/OFFLINE/ONLINE forward at once to the configured sub-state."""
    names = [n for n, _ in d["states"]]
    ix = names.index
    d["cfg"] = {"online": online}
    d["nested"] = {
        ix("CONTROL"): "initial_online" if initial == "ONLINE" else "initial_offline",
        ix("OFFLINE"): {"EQUIPMENT_OFFLINE": "initial_equipment_offline", "ATTEMPT_ONLINE": "initial_attempt_online", "HOST_OFFLINE": "initial_host_offline"}.get(initial),
        ix("ONLINE"): lambda ref: "initial_online_remote" if ref.cfg["online"] == "REMOTE" else "initial_online_local",
    }
    if attempt is not None:
        d["nested"][ix("ATTEMPT_ONLINE")] = "attempt_online_fail_host_offline" if attempt == "fail" else "attempt_online_success"
    # the public switch_online_local/remote methods remember the choice after a performed transition
    d["post"] = {"switch_online_local": ("online", "LOCAL"), "switch_online_remote": ("online", "REMOTE")}
    return d


TYPED = {"hsms": HSMS_DEF, "comm": COMM_DEF, "control": _d([(s, None) for s in _CTRL_STATES], "INIT", _CTRL_TRANS)}
NOTES = []  # definition drift of a shipped machine against the typed-in tables (reported as a note, not a violation)
_LIVE = {}


def make_shipped(mc):
    """A fresh instance of one of the three shipped machines (no handlers of ours yet)."""
    kind = mc["kind"]
    if kind == "hsms":
        from secsgem.hsms.connection_state_machine import ConnectionStateMachine

        return ConnectionStateMachine()
    if kind == "comm":
        from types import SimpleNamespace

        from secsgem.gem.communication_state_machine import CommunicationStateMachine

        return CommunicationStateMachine(SimpleNamespace(timeouts=SimpleNamespace(t3=45.0), establish_communication_timeout=10.0))
    if kind == "control":
        from secsgem.gem.control_state_machine import ControlStateMachine

        if mc["initial"] not in CTRL_INITIAL or mc["online"] not in CTRL_ONLINE or mc.get("attempt") not in CTRL_ATTEMPT:
            raise ValueError(f"bad control configuration {mc}")
        return ControlStateMachine(mc["initial"], mc["online"])
    raise ValueError(f"unknown machine kind {kind}")


def live_states(m):
    """State objects of a shipped machine in a deterministic order (attribute order, then any only reachable via transitions)."""
    import secsgem.common

    todo = [v for v in vars(m).values() if isinstance(v, secsgem.common.State)]
    for t in m._transitions:
        todo += list(t.sources) + [t.destination]
    out, seen = [], set()
    k = 0
    while k < len(todo):
        s = todo[k]
        k += 1
        if id(s) in seen:
            continue
        seen.add(id(s))
        out.append(s)
        if s.parent is not None:
            todo.append(s.parent)
    return out


def shipped_def(mc):
    """The DEFINITION of a shipped machine (states, parents, initial state, transition table) is input data and is read
    from the live object - it may change with the code base; what the engine does with it is decided by the reference.
    The typed-in E37/E30 tables are only compared (drift is noted)."""
    key = (mc["kind"], mc.get("initial"), mc.get("online"), mc.get("attempt"))
    if key in _LIVE:
        return _LIVE[key]
    m = make_shipped(mc)
    states = live_states(m)
    idx = {id(s): i for i, s in enumerate(states)}
    trans, seen = [], set()
    for t in m._transitions:
        if t.name in seen:  # `transition()` returns the first of a name; later ones are unreachable
            continue
        seen.add(t.name)
        trans.append((t.name, [idx[id(x)] for x in t.sources], idx[id(t.destination)]))
    d = {
        "states": [(x.name, idx[id(x.parent)] if x.parent is not None else -1) for x in states],
        "initial": idx[id(m.current_state)],
        "transitions": trans,
        "nested": {},
        "chain": None,
    }
    typed = TYPED[mc["kind"]]
    if _by_name(d) != _by_name(typed):
        a, b = _by_name(d), _by_name(typed)
        note = f"definition of the shipped {mc['kind']} machine differs from the typed-in table: only in code {sorted(map(str, a - b))}; only in table {sorted(map(str, b - a))}"
        if note not in NOTES:
            NOTES.append(note)
    if mc["kind"] == "control":
        control_forwarding(d, mc["initial"], mc["online"], mc.get("attempt"))
    _LIVE[key] = d
    return d


def _by_name(d):
    nm = [n for n, _ in d["states"]]
    out = {("state", n, nm[p] if p >= 0 else None) for n, p in d["states"]}
    out |= {("transition", n, tuple(sorted(nm[x] for x in src)), nm[dst]) for n, src, dst in d["transitions"]}
    out.add(("initial", nm[d["initial"]]))
    return out


def resolve_def(mc):
    """machine part of a case (plain data) -> internal definition used by the reference and the builder."""
    k = mc["kind"]
    if k in ("hsms", "comm", "control"):
        return shipped_def(mc)
    if k != "random":
        raise ValueError(f"unknown machine kind {k}")
    d = {
        "states": [(s["n"], s["p"]) for s in mc["states"]],
        "initial": mc["init"],
        "transitions": [(t["n"], list(t["s"]), t["d"]) for t in mc["trans"]],
        "nested": {int(i): n for i, n in mc.get("nested", [])},
        "chain": mc.get("chain", 0),
    }
    validate_random(d)
    return d


# --------------------------------------------------------------------------------------------
# reference interpreter


class Rec:
    """One performed transition as the reference sees it."""

    __slots__ = ("name", "src", "dst", "leave", "enter", "opt", "spur")

    def __init__(self, name, src, dst, leave, enter, opt, spur):
        self.name, self.src, self.dst, self.leave, self.enter, self.opt, self.spur = name, src, dst, leave, enter, opt, spur


class Step:
    __slots__ = ("name", "raised", "why", "recs", "nested")

    def __init__(self, name):
        self.name = name
        self.raised = False
        self.why = ""
        self.recs = []  # performed transitions in order (outer first)
        self.nested = []  # (name, performed?) for every nested request made by a handler


class Ref:
    def __init__(self, d):
        self.d = d
        self.parent = [p for _, p in d["states"]]
        n = len(self.parent)
        self.anc = []
        for i in range(n):
            chain, j = [], i
            while j != -1:
                chain.append(j)
                j = self.parent[j]
            self.anc.append(chain)
        self.depth = [len(c) for c in self.anc]
        self.trans = {}
        for name, src, dst in d["transitions"]:
            self.trans.setdefault(name, (frozenset(src), dst))
        self.current = d["initial"]
        self.cfg = dict(d.get("cfg", {}))

    def clone(self):
        r = Ref.__new__(Ref)
        r.__dict__.update(self.__dict__)
        r.cfg = dict(self.cfg)
        return r

    def active_set(self):
        return set(self.anc[self.current])

    def enabled(self):
        return [name for name, _, _ in self.d["transitions"] if self.current in self.trans[name][0]]

    def allowed(self, name):
        return name in self.trans and self.current in self.trans[name][0]

    def ambiguous(self, name):
        """current is not a source but one of its ancestors is: the statement does not say whether that is 'allowed'
        (Correction 1). Never the case for generated machines (sources are closed downward)."""
        if name not in self.trans or self.current in self.trans[name][0]:
            return False
        return any(a in self.trans[name][0] for a in self.anc[self.current][1:])

    def split(self, name, src, dst):
        a_src, a_dst = self.anc[src], self.anc[dst]
        s_dst = set(a_dst)
        common = [s for s in a_src if s in s_dst]  # deepest first
        cs = set(common)
        lca = common[0] if common else None
        leave = [s for s in a_src if s not in cs]
        enter = [s for s in a_dst if s not in cs]
        opt = lca if lca is not None and lca in (src, dst) else None
        spur = [s for s in common if s != opt]
        return Rec(name, src, dst, leave, enter, opt, spur)

    def nested_name(self, state):
        v = self.d["nested"].get(state)
        return v(self) if callable(v) else v

    def request(self, name):
        st_ = Step(name)
        if name not in self.trans:
            st_.raised, st_.why = True, "unknown-name"
            return st_
        if self.current not in self.trans[name][0]:
            st_.raised, st_.why = True, "wrong-source"
            return st_
        budget = self.d["chain"]
        cur = name
        while True:
            src, dst = self.current, self.trans[cur][1]
            rec = self.split(cur, src, dst)
            self.current = dst
            st_.recs.append(rec)
            hs = [s for s in rec.enter if self.nested_name(s) is not None]
            if len(hs) > 1:
                raise ValueError("definition has two nested-request handlers on one ancestor chain")
            if not hs or (budget is not None and budget <= 0):
                break
            if budget is not None:
                budget -= 1
            nxt = self.nested_name(hs[0])
            if self.ambiguous(nxt):
                st_.why = "ambiguous-nested"
                break
            ok = self.allowed(nxt)
            st_.nested.append((nxt, ok))
            if not ok:
                break
            cur = nxt
        post = self.d.get("post", {}).get(name)
        if post:
            self.cfg[post[0]] = post[1]
        return st_

    # --- what a transition can do under the level-by-level comparison defect: used to attribute divergence
    def ancestor_trigger(self, rec):
        """common ancestors that the defect would leave/re-enter and that carry a nested-request handler."""
        return [s for s in rec.spur if self.depth[rec.src] != self.depth[rec.dst] and self.nested_name(s) is not None]


def validate_random(d):
    """Construction rules of generated machines (also guards hand-edited replay files)."""
    states = d["states"]
    n = len(states)
    if not 1 <= n <= 12:
        raise ValueError("state count")
    for i, (_, p) in enumerate(states):
        if not (-1 <= p < i):
            raise ValueError("parents must precede their children")
    ref = Ref(d)
    if max(ref.depth) > 3:
        raise ValueError("depth > 3")
    names = [t[0] for t in d["transitions"]]
    if len(set(names)) != len(names):
        raise ValueError("transition names must be unique")
    desc = _descendants(ref)
    for name, src, dst in d["transitions"]:
        if not src or not all(0 <= s < n for s in src) or not 0 <= dst < n:
            raise ValueError("bad transition")
        for s in src:
            if not desc[s] <= set(src):
                raise ValueError(f"sources of {name} are not closed downward")
    inel = ineligible_for_handler(ref, d["transitions"])
    hs = sorted(d["nested"])
    for h in hs:
        if h in inel:
            raise ValueError(f"nested handler on state {h} which is the related end of an ancestor/descendant/self transition")
        for g in hs:
            if g != h and g in ref.anc[h]:
                raise ValueError("two nested handlers on one ancestor chain")


def _descendants(ref):
    n = len(ref.parent)
    desc = [set() for _ in range(n)]
    for i in range(n):
        for a in ref.anc[i][1:]:
            desc[a].add(i)
    return desc


def ineligible_for_handler(ref, transitions):
    out = set()
    for _, src, dst in transitions:
        for s in src:
            if s == dst or dst in ref.anc[s] or s in ref.anc[dst]:
                out.add(dst if dst in ref.anc[s] else s)
    return out


def unknown_names(d):
    names = [t[0] for t in d["transitions"]]
    known = set(names)
    out = []
    for n in names:
        for c in (n[:-1], n + "_", n.upper(), n.capitalize()):
            if c not in known and c not in out:
                out.append(c)
    for c in ("", "nope", "_perform_transition"):
        if c not in known and c not in out:
            out.append(c)
    return out[:12]


# --------------------------------------------------------------------------------------------
# the implementation under test, built from the same plain data


class Impl:
    """A secsgem state machine + recording handlers. log entries: ('enter'|'leave', state index) / ('called', name)."""

    def __init__(self, mc, d):
        import secsgem.common

        self.d = d
        self.log = []
        self.nested = []
        self.budget = 0
        kind = mc["kind"]
        if kind == "random":
            self.m = _random_class()(d, self)
            self.states = self.m.states
        else:
            self.m = make_shipped(mc)
            if mc.get("attempt") == "fail":  # the way StateModelsCapability._on_control_state_attempt_online does
                self.m.attempt_online.events.enter.register(lambda _d: self.m.attempt_online_fail_host_offline())
            elif mc.get("attempt") == "success":
                self.m.attempt_online.events.enter.register(lambda _d: self.m.attempt_online_success())
            self.states = live_states(self.m)
            if [x.name for x in self.states] != [n for n, _ in d["states"]]:
                raise ValueError("shipped machine instances differ in their states")
        for i, s in enumerate(self.states):
            if not isinstance(s, secsgem.common.State):
                raise ValueError("not a State")
            s.events.enter.register(lambda _d, i=i: self.log.append(("enter", i)))
            s.events.leave.register(lambda _d, i=i: self.log.append(("leave", i)))
        for name, _, _ in d["transitions"]:
            self.m.transition(name).events.called.register(lambda _d, name=name: self.log.append(("called", name)))
        if kind == "random":
            for h, name in sorted(d["nested"].items()):
                self.states[h].events.enter.register(self._nested_handler(name))
        self.public = kind != "random"

    def _nested_handler(self, name):
        def handler(_data):
            if self.budget <= 0:
                return
            self.budget -= 1
            slot = [name, None]
            self.nested.append(slot)
            try:
                self.m.request(name)
            except Exception:  # noqa: BLE001 - the nested request raising IS the observation (Correction 5)
                slot[1] = False
            else:
                slot[1] = True

        return handler

    def request(self, name):
        """Outermost request. Returns None or the exception."""
        self.budget = self.d["chain"] or 0
        fn = getattr(self.m, name, None) if self.public and name.isidentifier() and not name.startswith("_") else None
        try:
            if callable(fn) and name in {t[0] for t in self.d["transitions"]}:
                fn()
            elif self.public:
                self.m._perform_transition(name)
            else:
                self.m.request(name)
        except Exception as exc:  # noqa: BLE001 - "raises" is the observation; type and text go into the report
            return exc
        return None

    def current(self):
        cs = self.m.current_state
        for i, s in enumerate(self.states):
            if s is cs:
                if self.m.current is not s.state:
                    return ("enum-mismatch", i)
                return i
        return ("foreign-state", getattr(cs, "name", repr(cs)))

    def active(self):
        return {i for i, s in enumerate(self.states) if s.active}


_RANDOM_CLASS = []


def _random_class():
    if _RANDOM_CLASS:
        return _RANDOM_CLASS[0]
    import enum

    import secsgem.common

    class GeneratedMachine(secsgem.common.StateMachine):
        """Built the way the shipped machines are: State objects, `_current_state`, `_transitions`, request methods."""

        def __init__(self, d, owner) -> None:
            super().__init__()
            ids = enum.Enum("GeneratedState", [(n, i) for i, (n, _) in enumerate(d["states"])])
            init_chain = set()
            j = d["initial"]
            while j != -1:
                init_chain.add(j)
                j = d["states"][j][1]
            self.states = []
            for i, (n, p) in enumerate(d["states"]):
                self.states.append(secsgem.common.State(ids[n], n, parent=self.states[p] if p >= 0 else None, initial=i in init_chain))
            self._current_state = self.states[d["initial"]]
            self._transitions = [
                secsgem.common.Transition(name, self.states[src[0]] if len(src) == 1 else [self.states[s] for s in src], self.states[dst])
                for name, src, dst in d["transitions"]
            ]

        def request(self, name: str) -> None:
            self._perform_transition(name)

    _RANDOM_CLASS.append(GeneratedMachine)
    return GeneratedMachine


@contextlib.contextmanager
def sim_world(sched=None):
    """Simulation context; additionally shims `threading` inside state_machine.py should the engine ever use it (a lock)."""
    import importlib

    from vf.detsim import patch
    from vf.detsim.shims import ThreadingShim

    sched = sched or {}
    seed = int(sched.get("seed", 0))
    with patch.simulation(
        sched_seed=seed,
        switch_prob=float(sched.get("switch", 0.0)),
        preempts=[(f, int(k)) for f, k in sched.get("preempts", [])],
        preempt_prob=float(sched.get("pprob", 0.0)),
        hot=HOT if (sched.get("preempts") or sched.get("pprob")) else (),
    ) as world:
        sm = importlib.import_module("secsgem.common.state_machine")
        had = hasattr(sm, "threading")
        old = getattr(sm, "threading", None)
        if had:
            sm.threading = ThreadingShim(world.sim)
        try:
            yield world
        finally:
            if had:
                sm.threading = old


class _StubTimer:
    """threading.Timer stand-in for sequential runs: it never fires (same as simulated timers without clock advance)."""

    def __init__(self, interval, function, args=None, kwargs=None):
        self.interval, self.function = interval, function
        self.started = self.cancelled = False

    def start(self):
        self.started = True

    def cancel(self):
        self.cancelled = True


class _StubThreading:
    Timer = _StubTimer

    def __getattr__(self, name):
        import threading

        return getattr(threading, name)


@contextlib.contextmanager
def stub_timers():
    import importlib

    mod = importlib.import_module("secsgem.gem.communication_state_machine")
    had = hasattr(mod, "threading")
    old = getattr(mod, "threading", None)
    if had:
        mod.threading = _StubThreading()
    try:
        yield
    finally:
        if had:
            mod.threading = old


# --------------------------------------------------------------------------------------------
# comparison


def _nm(d, i):
    return d["states"][i][0] if isinstance(i, int) and 0 <= i < len(d["states"]) else repr(i)


def _ev(d, e):
    return f"{e[0]} {_nm(d, e[1]) if e[0] != 'called' else e[1]}"


def compare_events(ref, recs, events):
    """-> (hard: [(bucket, obs, exp)], soft: [(bucket, obs, exp)]) for one outermost request (or a concurrent pair)."""
    d = ref.d
    req, opt, spur = Counter(), Counter(), Counter()
    for r in recs:
        for s in r.leave:
            req[("leave", s)] += 1
        for s in r.enter:
            req[("enter", s)] += 1
        req[("called", r.name)] += 1
        if r.opt is not None:
            opt[r.opt] += 1
        for s in r.spur:
            spur[s] += 1
    obs = Counter(events)
    hard, soft = [], []
    exp_txt = sorted(_ev(d, e) for e in req.elements())
    obs_txt = sorted(_ev(d, e) for e in obs.elements())
    missing = req - obs
    if missing:
        kinds = sorted({e[0] for e in missing})
        hard.append((f"events:missing:{kinds[0]}", f"fired {obs_txt}; missing {sorted(_ev(d, e) for e in missing.elements())}", f"exactly {exp_txt}"))
    extra = obs - req
    called_extra = sorted(e for e in extra if e[0] == "called")
    if called_extra:
        hard.append(("events:extra:called", f"fired {obs_txt}", f"exactly {exp_txt}"))
    states = sorted({e[1] for e in extra if e[0] != "called"}, key=repr)
    anc = []
    for s in states:
        nl, ne = extra[("leave", s)], extra[("enter", s)]
        if nl == ne and nl <= opt.get(s, 0):
            continue  # external transition semantics on the related end state (Correction 2)
        if nl == ne and nl <= opt.get(s, 0) + spur.get(s, 0):
            anc.append(s)
            continue
        kind = "leave" if nl > ne else "enter" if ne > nl else "leave+enter"
        hard.append((f"events:extra:{kind}", f"fired {obs_txt}; {nl} extra leave / {ne} extra enter of {_nm(d, s)}", f"exactly {exp_txt}"))
    if anc:
        soft.append((B_ANCESTOR, f"fired {obs_txt}: leave+enter of common ancestor(s) {[_nm(d, s) for s in anc]} which stay active throughout", f"exactly {exp_txt}"))
    return hard, soft


def compare_active(ref, recs_per_request, active):
    """-> None | (bucket, obs, exp). recs_per_request: list of rec lists (one per outermost request involved)."""
    d = ref.d
    exp = ref.active_set()
    if active == exp:
        return None
    extra, missing = active - exp, exp - active
    cand = set()
    nested = False
    for recs in recs_per_request:
        if len(recs) >= 2:
            nested = True
            for r in recs[:-1]:
                cand.update(r.enter)
                cand.update(r.spur)
                if r.opt is not None:
                    cand.add(r.opt)
    obs_txt = f"active = {sorted(_nm(d, s) for s in active)} (current {_nm(d, ref.current)})"
    exp_txt = f"active = {sorted(_nm(d, s) for s in exp)}"
    if nested and not missing and extra <= cand:
        return (B_STALE, obs_txt + f"; stale: {sorted(_nm(d, s) for s in extra)}", exp_txt)
    kind = "extra" if not missing else "missing" if not extra else "wrong"
    return (f"active:{kind}" + (":after-nested-request" if nested else ""), obs_txt, exp_txt)


class Outcome:
    def __init__(self):
        self.failures = []  # Failure objects, first of each bucket, in order of discovery
        self.stats = Counter()
        self.classes = set()

    def add(self, case, bucket, obs, exp):
        if bucket == B_ANCESTOR and not COMMON_ANCESTOR_IS_VIOLATION:
            self.classes.add("tolerated:common-ancestor-left-and-reentered")
            return
        if all(f.bucket != bucket for f in self.failures):
            self.failures.append(Failure(bucket, case, obs, exp))


def run_requests(case, impl, ref, requests, out, label="", tainted=False):
    """Lock-step: apply requests to the implementation and the reference. Returns (diverged, tainted)."""
    d = ref.d
    for i, name in enumerate(requests):
        before_cur, before_act, before_len, before_nested = impl.current(), impl.active(), len(impl.log), len(impl.nested)
        was = ref.current
        if ref.ambiguous(name):
            out.stats["skipped_composite_source_ambiguity"] += 1
            continue
        step = ref.request(name)
        exc = impl.request(name)
        if step.why == "ambiguous-nested":
            out.stats["skipped_composite_source_ambiguity"] += 1
            return True, tainted
        where = f"{label}request #{i} {name!r} in {_nm(d, was)}"
        events = impl.log[before_len:]
        cur, act = impl.current(), impl.active()
        if step.raised:
            out.stats["rejected"] += 1
            out.stats["rejected:" + step.why] += 1
            changed = []
            if cur != before_cur:
                changed.append("current")
            if events or len(impl.nested) != before_nested:
                changed.append("events")
            if act != before_act:
                changed.append("active")
            if exc is None:
                out.add(case, f"not-allowed-request-did-not-raise:{step.why}", f"{where}: returned normally; now current={_nm(d, cur)}, events {[_ev(d, e) for e in events]}", "raises, nothing changes")
                return True, tainted  # whatever the call did instead is unknown: the rest of the case would only show symptoms
            if changed:
                out.add(case, f"rejected-request-changed:{changed[0]}", f"{where}: raised {type(exc).__name__} but current {_nm(d, before_cur)}->{_nm(d, cur)}, active {sorted(before_act)}->{sorted(act)}, events {[_ev(d, e) for e in events]}", "raises and changes nothing")
                return True, tainted
            continue
        # ---- allowed
        out.stats["performed"] += len(step.recs)
        out.stats["performed_requests"] += 1
        if len(step.recs) > 1:
            out.stats["nested_performed"] += len(step.recs) - 1
            out.stats["max_chain"] = max(out.stats["max_chain"], len(step.recs))
        if any(not ok for _, ok in step.nested):
            out.stats["nested_rejected"] += 1
        for r in step.recs:
            if r.opt is not None:
                out.stats["related"] += 1
            elif r.spur and ref.depth[r.src] != ref.depth[r.dst]:
                out.stats["unequal_depth_common_ancestor"] += 1
            if ref.depth[r.src] > 1 or ref.depth[r.dst] > 1:
                out.stats["hier_transition"] += 1
        trig = [s for r in step.recs for s in ref.ancestor_trigger(r)]
        if exc is not None:
            if trig:
                out.add(case, B_ANCESTOR, f"{where}: spurious enter of common ancestor {[_nm(d, s) for s in trig]} ran its handler; request raised {exc!r}", "common ancestor neither left nor entered")
            else:
                out.add(case, "allowed-request-raised", f"{where}: {exc!r}", f"moves to {_nm(d, ref.current)}")
            return True, tainted
        hard = []
        if cur != ref.current:
            hard.append(("current-not-destination" + (":after-nested-request" if len(step.recs) > 1 else ""), f"{where}: current = {_nm(d, cur)}", f"current = {_nm(d, ref.current)}"))
        if d["chain"] is not None and [tuple(x) for x in impl.nested[before_nested:]] != step.nested:
            hard.append(("nested-request-outcome", f"{where}: nested requests (name, performed) = {[tuple(x) for x in impl.nested[before_nested:]]}", f"{step.nested}"))
        eh, es = compare_events(ref, step.recs, events)
        hard += [(b, f"{where}: {o}", e) for b, o, e in eh]
        if hard and trig:
            out.add(case, B_ANCESTOR, f"{where}: spurious enter of common ancestor {[_nm(d, s) for s in trig]} ran its nested-request handler: {hard[0][1]}", hard[0][2])
            return True, tainted
        for b, o, e in hard:
            out.add(case, b, o, e)
        for b, o, e in es:
            out.add(case, b, f"{where}: {o}", e)
        if cur != ref.current or (d["chain"] is not None and [tuple(x) for x in impl.nested[before_nested:]] != step.nested):
            return True, tainted
        if not tainted:
            a = compare_active(ref, [step.recs], act)
            if a is not None:
                out.add(case, a[0], f"{where}: {a[1]}", a[2])
                tainted = True  # flags are off from here on: the remaining steps compare everything but the flags
                out.stats["tainted"] += 1
    return False, tainted


def initial_check(case, impl, ref, out):
    if impl.current() != ref.current:
        out.add(case, "initial-current", _nm(ref.d, impl.current()), _nm(ref.d, ref.current))
        return False
    if impl.active() != ref.active_set():
        out.add(case, "initial-active-set", sorted(_nm(ref.d, s) for s in impl.active()), sorted(_nm(ref.d, s) for s in ref.active_set()))
        return False
    return True


# --------------------------------------------------------------------------------------------
# (a)+(b) sequential cases


def check_seq(case):
    mc = case["machine"]
    d = resolve_def(mc)
    out = Outcome()
    ref = Ref(d)
    out.stats["depth"] = max(ref.depth)
    cm = stub_timers() if mc["kind"] == "comm" else contextlib.nullcontext()
    with cm:
        impl = Impl(mc, d)
        if initial_check(case, impl, ref, out):
            run_requests(case, impl, ref, case["requests"], out)
    return out


def seq_nontrivial(stats):
    return (stats["depth"] >= 2 and stats["performed"] >= 3 and stats["hier_transition"] >= 1) or stats["nested_performed"] >= 1


def seq_classes(case, out):
    s = out.stats
    cls = [f"kind:{case['machine']['kind']}", f"depth:{s['depth']}"]
    p = s["performed"]
    cls.append("performed:0" if p == 0 else "performed:1-2" if p < 3 else "performed:3-9" if p < 10 else "performed:10+")
    if s["nested_performed"]:
        cls.append("nested-request-performed")
        cls.append(f"nested-request-performed:{case['machine']['kind']}")
        cls.append(f"nested-chain:{min(s['max_chain'], 5)}")
    if s["nested_rejected"]:
        cls.append("nested-request-rejected")
    if s["rejected:unknown-name"]:
        cls.append("rejected:unknown-name")
    if s["rejected:wrong-source"]:
        cls.append("rejected:wrong-source")
    if s["related"]:
        cls.append("self/ancestor/descendant-transition")
    if s["unequal_depth_common_ancestor"]:
        cls.append("trigger:unequal-depth-common-ancestor")
    if s["tainted"]:
        cls.append("trigger:stale-flag-seen")
    if not s["nested_performed"] and not s["unequal_depth_common_ancestor"]:
        cls.append("free-of-known-triggers")
        if seq_nontrivial(s):
            cls.append("free-of-known-triggers:nontrivial")
    return cls


# --------------------------------------------------------------------------------------------
# (c) concurrent pairs


def _pair_expect(ref0, pair, order):
    ref = ref0.clone()
    steps = [None, None]
    for k in order:
        steps[k] = ref.request(pair[k])
    return ref, steps


def _pair_match(ref, steps, obs):
    """Compare an observed pair outcome with one sequential order. -> (hard list, soft list)."""
    hard, soft = [], []
    for k in (0, 1):
        if steps[k].raised != obs["raised"][k]:
            hard.append(("raised", f"request {k} {'raised' if obs['raised'][k] else 'performed'}", f"{'raises' if steps[k].raised else 'performed'}"))
    if obs["current"] != ref.current:
        hard.append(("current", _nm(ref.d, obs["current"]), _nm(ref.d, ref.current)))
    recs = [r for s in steps for r in s.recs]
    eh, es = compare_events(ref, recs, obs["events"])
    hard += eh
    soft += es
    if not obs.get("tainted"):
        a = compare_active(ref, [s.recs for s in steps], obs["active"])
        if a is not None:
            (soft if a[0] == B_STALE else hard).append(a)
    return hard, soft


def _observe_pair(impl, start_len, raised, tainted):
    return {"raised": raised, "current": impl.current(), "active": impl.active(), "events": impl.log[start_len:], "tainted": tainted}


def check_conc(case):
    mc = case["machine"]
    d = resolve_def(mc)
    out = Outcome()
    pair = list(case["pair"])
    sched = case.get("sched", {})
    ref = Ref(d)
    out.stats["depth"] = max(ref.depth)
    # ---- sequential orders on fresh machines first: a failure there is not a concurrency matter
    expects = []
    with stub_timers():
        for order in ((0, 1), (1, 0)):
            impl = Impl(mc, d)
            r = Ref(d)
            if not initial_check(case, impl, r, out):
                return out
            div, tainted = run_requests(case, impl, r, case["prefix"], out, label="prefix ")
            if div:
                return out
            if order == (0, 1):
                en = [r.allowed(pair[0]), r.allowed(pair[1])]
                out.stats["both_enabled"] = int(all(en))
                out.stats["one_enabled"] = int(sum(en) == 1)
                r2 = r.clone()
                r2.request(pair[0])
                r3 = r.clone()
                r3.request(pair[1])
                out.stats["second_enabled_by_first"] = int((not en[1] and r2.allowed(pair[1])) or (not en[0] and r3.allowed(pair[0])))
            r0 = r.clone()
            ra, rb = r.clone(), r.clone()
            ra.request(pair[0])
            rb.request(pair[1])
            if r.ambiguous(pair[0]) or r.ambiguous(pair[1]) or ra.ambiguous(pair[1]) or rb.ambiguous(pair[0]):
                out.stats["skipped_composite_source_ambiguity"] += 1
                return out
            div, _ = run_requests(case, impl, r, [pair[order[0]], pair[order[1]]], out, label=f"sequential order {order} ", tainted=tainted)
            if div or any(f.bucket not in (B_STALE, B_ANCESTOR) for f in out.failures):
                return out
            expects.append(_pair_expect(r0, pair, order))
    # ---- the concurrent run
    with sim_world(sched) as world:
        sim = world.sim
        impl = Impl(mc, d)
        r = Ref(d)
        _, tainted = run_requests(case, impl, r, case["prefix"], Outcome(), label="prefix ")
        start = len(impl.log)
        raised = [None, None]
        done = [False, False]

        def actor(k):
            def body():
                exc = impl.request(pair[k])
                raised[k] = exc is not None
                done[k] = True

            return body

        sim.spawn(actor(0), "req-0")
        sim.spawn(actor(1), "req-1")
        status = sim.settle()
        out.stats["preempt_hits"] = len(sim.preempt_hits)
        if not all(done) or sim.thread_errors:
            out.add(case, "concurrent-request-never-returns", f"settle={status} threads={sim.blocked_report()} errors={sim.thread_errors}", "both requests return")
            return out
        obs = _observe_pair(impl, start, raised, tainted)
    results = [_pair_match(e[0], e[1], obs) for e in expects]
    ok = [i for i, (h, _) in enumerate(results) if not h]
    if ok:
        out.stats["matched_order"] = ok[0]
        for b, o, e in results[ok[0]][1]:
            out.add(case, b, f"concurrent pair: {o}", e)
        return out
    both = obs["raised"] == [False, False] and all(any(s.raised for s in e[1]) for e in expects)
    leaves = [s for s in obs["active"] if not any(ref.parent[c] == s for c in obs["active"])]
    sym = []
    if both:
        sym.append("both requests performed although each disables the other")
    if len(leaves) > 1 and not obs["tainted"]:
        sym.append(f"{len(leaves)} unrelated states flagged active")
    out.add(
        case,
        B_CONC,
        f"raised={obs['raised']} current={_nm(d, obs['current'])} active={sorted(_nm(d, s) for s in obs['active'])} events={[_ev(d, e) for e in obs['events']]}"
        + (f" [{'; '.join(sym)}]" if sym else "")
        + f" preempted at {sim.preempt_hits[:4]}",
        " | ".join(
            f"order {o}: raised={[s.raised for s in e[1]]} current={_nm(d, e[0].current)} active={sorted(_nm(d, s) for s in e[0].active_set())}"
            for o, e in zip(("0,1", "1,0"), expects)
        ),
    )
    return out


def conc_classes(case, out):
    s = out.stats
    cls = [f"conc:kind:{case['machine']['kind']}"]
    cls.append("conc:both-enabled" if s["both_enabled"] else "conc:one-enabled" if s["one_enabled"] else "conc:none-enabled")
    if s["second_enabled_by_first"]:
        cls.append("conc:second-enabled-by-first")
    if s["preempt_hits"]:
        cls.append("conc:preemption-hit")
    sched = case.get("sched", {})
    cls.append("conc:sched:" + ("sites" if sched.get("preempts") else "random" if sched.get("seed") else "none"))
    return cls


# --------------------------------------------------------------------------------------------
# strategies (plain data). The reference is used while drawing so that requests are mostly enabled ones.

NAME_POOL = ["a", "ab", "abc", "b", "ba", "go", "go_on", "stop", "x", "xy", "t1", "t10", "up", "down", "reset", "next"]


@st.composite
def random_machine(draw, nested=True):
    n = draw(st.integers(2, 8))
    parents, depth = [-1], [1]
    for i in range(1, n):
        cands = [-1] + [j for j in range(i) if depth[j] < 3]
        p = draw(st.sampled_from(cands))
        parents.append(p)
        depth.append(1 if p < 0 else depth[p] + 1)
    states = [{"n": f"S{i}", "p": p} for i, p in enumerate(parents)]
    leaves = [i for i in range(n) if i not in parents]
    init = draw(st.sampled_from(leaves))
    tmp = Ref({"states": [(s["n"], s["p"]) for s in states], "initial": init, "transitions": [], "nested": {}, "chain": 0})
    desc = _descendants(tmp)
    m = draw(st.integers(1, 10))
    names = draw(st.lists(st.sampled_from(NAME_POOL), min_size=m, max_size=m, unique=True))
    reach = {init}
    trans = []
    for name in names:
        first = draw(st.sampled_from(sorted(reach))) if draw(st.integers(0, 9)) < 7 else draw(st.integers(0, n - 1))
        more = draw(st.lists(st.integers(0, n - 1), max_size=2))
        src = {first, *more}
        for s in list(src):
            src |= desc[s]
        dst = draw(st.integers(0, n - 1))
        if src & reach:
            reach.add(dst)
        trans.append({"n": name, "s": sorted(src), "d": dst})
    nest = []
    chain = 0
    if nested and draw(st.integers(0, 9)) < 6:
        tl = [(t["n"], t["s"], t["d"]) for t in trans]
        elig = set(range(n)) - ineligible_for_handler(tmp, tl)
        if draw(st.integers(0, 9)) < 9:
            # mostly keep handlers off common ancestors of unequal-depth transitions: there the known level-by-level
            # comparison defect fires the handler spuriously and the rest of the case is lost to that bucket
            for _, src, dst in tl:
                for x in src:
                    if tmp.depth[x] != tmp.depth[dst]:
                        elig -= set(tmp.split("", x, dst).spur)
        for _ in range(draw(st.integers(1, 3))):
            if not elig:
                break
            # guided: a state that a reachable transition enters, requesting a transition allowed at that moment
            inbound = [(h, t["d"]) for t in trans if set(t["s"]) & reach for h in tmp.anc[t["d"]] if h in elig]
            dd = None
            if inbound and draw(st.integers(0, 9)) < 8:
                h, dd = draw(st.sampled_from(sorted(set(inbound))))
            else:
                h = draw(st.sampled_from(sorted(elig)))
            sub = desc[h] | {h}
            good = [t["n"] for t in trans if (dd in t["s"] if dd is not None else set(t["s"]) & sub)]
            mode = draw(st.integers(0, 19))
            if good and mode < 16:
                nm = draw(st.sampled_from(good))
            elif mode < 19:
                nm = draw(st.sampled_from(names))
            else:
                nm = "nope"
            nest.append([h, nm])
            elig -= sub | set(tmp.anc[h])
        chain = draw(st.integers(1, 4))
    return {"kind": "random", "states": states, "init": init, "trans": trans, "nested": sorted(nest), "chain": chain}


def shipped_machine():
    return st.one_of(
        st.just({"kind": "hsms"}),
        st.just({"kind": "comm"}),
        st.builds(
            lambda i, o, a: {"kind": "control", "initial": i, "online": o, "attempt": a},
            st.sampled_from(CTRL_INITIAL),
            st.sampled_from(CTRL_ONLINE),
            st.sampled_from(CTRL_ATTEMPT),
        ),
    )


def _draw_requests(draw, ref, n, d):
    unk = unknown_names(d)
    names = [t[0] for t in d["transitions"]]
    reqs = []
    for _ in range(n):
        mode = draw(st.integers(0, 19))
        en = ref.enabled()
        # enabled transitions that enter a state carrying a nested-request handler
        hot = [x for x in en if any(ref.nested_name(a) is not None for a in ref.split(x, ref.current, ref.trans[x][1]).enter)] if d["nested"] and d["chain"] is not None else []
        if hot and mode < 7:
            name = draw(st.sampled_from(hot))
        elif en and mode < 14:
            name = draw(st.sampled_from(en))
        elif mode < 18:
            name = draw(st.sampled_from(names))
        else:
            name = draw(st.sampled_from(unk))
        reqs.append(name)
        ref.request(name)
    return reqs


@st.composite
def seq_case(draw, max_req=30):
    mc = draw(st.one_of(random_machine(), random_machine(), random_machine(), shipped_machine()))
    d = resolve_def(mc)
    ref = Ref(d)
    n = draw(st.integers(1, max_req))
    return {"machine": mc, "requests": _draw_requests(draw, ref, n, d)}


@st.composite
def conc_case(draw):
    mc = draw(st.one_of(random_machine(nested=False), random_machine(nested=False), shipped_machine()))
    d = resolve_def(mc)
    ref = Ref(d)
    prefix = _draw_requests(draw, ref, draw(st.integers(0, 6)), d)
    if mc["kind"] == "control" and "start" not in prefix and draw(st.integers(0, 9)) < 9:
        ref = Ref(d)
        prefix = ["start"] + prefix[:5]
        for p in prefix:
            ref.request(p)
    en = ref.enabled()
    names = [t[0] for t in d["transitions"]]
    pair = []
    for k in range(2):
        mode = draw(st.integers(0, 9))
        follow = []
        if k == 1 and mode in (6, 7) and ref.allowed(pair[0]):
            # a request that only the first one enables (runs in the middle of the first one under preemption)
            nxt = ref.clone()
            nxt.request(pair[0])
            follow = [x for x in nxt.enabled() if x not in en]
        if follow:
            pair.append(draw(st.sampled_from(follow)))
        elif en and mode < 8:
            pair.append(draw(st.sampled_from(en)))
        elif mode < 9:
            # a request that the other one would enable
            pair.append(draw(st.sampled_from(names)))
        else:
            pair.append(draw(st.sampled_from(unknown_names(d))))
    site = st.one_of(
        st.tuples(st.just("_perform_transition"), st.integers(1, 16)),
        st.tuples(st.just("_perform_transition"), st.integers(2, 8)),
        st.tuples(st.sampled_from(["enter", "leave"]), st.integers(1, 8)),
    ).map(list)
    m = draw(st.integers(0, 9))
    if m == 9:
        sched = {"seed": 0, "preempts": []}
    elif m < 6:
        sched = {"seed": 0, "preempts": draw(st.lists(site, min_size=1, max_size=3))}
    else:
        sched = {"seed": draw(st.integers(1, 2**31)), "switch": 0.5, "pprob": draw(st.sampled_from([0.05, 0.15, 0.3]))}
    return {"machine": mc, "prefix": prefix, "pair": pair, "sched": sched}


# --------------------------------------------------------------------------------------------
# tasks


def _pick(ctx, out):
    """A failure of a bucket that is neither known nor already recorded in this run goes first: those must not hide it."""
    seen = getattr(ctx, "_session_buckets", ())
    for f in out.failures:
        if not ctx.is_known(f) and f.bucket not in seen:
            return f
    for f in out.failures:
        if not ctx.is_known(f):
            return f
    return out.failures[0] if out.failures else None


def plan(tier, seed):
    quick = tier == "quick"
    tasks = []
    # the enumerations first (the long ones are sharded by the first request) so that they do not form the tail
    if quick:
        tasks.append(("enum", {"kind": "hsms", "len": 5}))
    else:
        for i in range(6):
            tasks.append(("enum", {"kind": "hsms", "len": 6, "first": i}))
    tasks.append(("enum", {"kind": "comm", "len": 3 if quick else 4}))
    for ini in CTRL_INITIAL:
        tasks.append(("enum", {"kind": "control", "initial": ini, "len": 2 if quick else 3}))
    for i in range(16):
        tasks.append(("conc", {"shard": i, "n": 19 if quick else 1250}))
    for i in range(16):
        tasks.append(("seq", {"shard": i, "n": 125 if quick else 12500}))
    return tasks


def _after(ctx, out):
    for n in NOTES:
        ctx.note(n)
    if out.stats["skipped_composite_source_ambiguity"]:
        ctx.exclude("request whose source is only an ancestor of the current state (allowed? - not fixed by the statement)", out.stats["skipped_composite_source_ambiguity"])


def run_task(name, kw, ctx):
    if name == "seq":

        def body(case):
            out = check_seq(case)
            _after(ctx, out)
            f = _pick(ctx, out)
            ctx.case(case, seq_nontrivial(out.stats) or f is not None, seq_classes(case, out) + sorted(out.classes))
            return f

        ctx.hyp(seq_case(30), body, kw["n"], seed_offset=kw["shard"])
    elif name == "conc":

        def body(case):
            out = check_conc(case)
            _after(ctx, out)
            f = _pick(ctx, out)
            ctx.case(case, bool(out.stats["both_enabled"]) or f is not None, conc_classes(case, out) + sorted(out.classes))
            return f

        ctx.hyp(conc_case(), body, kw["n"], seed_offset=100 + kw["shard"])
    elif name == "enum":
        _enum_task(kw, ctx)


def _enum_task(kw, ctx):
    kind = kw["kind"]
    if kind == "control":
        machines = [{"kind": "control", "initial": kw["initial"], "online": o, "attempt": a} for o in CTRL_ONLINE for a in CTRL_ATTEMPT]
        first = ["start"]
    else:
        machines = [{"kind": kind}]
        first = []
    for mc in machines:
        d = resolve_def(mc)
        alphabet = [t[0] for t in d["transitions"]] + ["nope"]
        shard = kw.get("first")  # shard = index of the first request in the alphabet
        for ln in range(0 if first else 1, kw["len"] + 1):
            for seq in itertools.product(alphabet, repeat=ln):
                if shard is not None and alphabet.index(seq[0]) % 6 != shard:
                    continue
                if ctx.out_of_time():
                    return
                case = {"machine": mc, "requests": first + list(seq)}
                out = check_seq(case)
                _after(ctx, out)
                f = _pick(ctx, out)
                ctx.case(case, seq_nontrivial(out.stats) or f is not None, [f"enum:{kind}", f"enum:{kind}:len{len(case['requests'])}"])
                ctx.report(f)
        ctx.count(f"enum:{kind}:machines-done")


def replay(case, ctx):
    out = check_conc(case) if "pair" in case else check_seq(case)
    return out.failures[0] if out.failures else None
