"""C05 - HSMS session follows the E37 connect/select state model for every history.

Model-based testing: generated op histories are applied to the real HsmsProtocol (+ real TCP connection classes on
simulated sockets, deterministic scheduler) and to a reference E37 session model in lock-step.

Model (SEMI E37 section 5/7, T7 not driven - the library has no T7 timer and the property's alphabet has no timer):
  NOT_CONNECTED --tcp connect--> NOT_SELECTED --select completed--> SELECTED --deselect/separate--> NOT_SELECTED
  any connected state --tcp close / disable--> NOT_CONNECTED
  * Select.req: answered by exactly one Select.rsp with the request's system bytes; NOT_SELECTED -> SELECTED
  * Deselect.req: exactly one Deselect.rsp; SELECTED -> NOT_SELECTED
  * Linktest.req: exactly one Linktest.rsp
  * Separate.req: SELECTED -> NOT_SELECTED (NOT_CONNECTED also accepted: implementations may drop the link); no response
  * Select.rsp / Deselect.rsp change the state only if they complete an open transaction of this endpoint with status 0
  * Reject.req: no state change, no response
  * data message: SELECTED -> delivered exactly once, no control response; otherwise not delivered and answered by exactly
    one Reject.req (reason 4 = entity not selected) carrying its system bytes
"""

from __future__ import annotations

from hypothesis import strategies as st

from vf import hsmsrig
from vf.checks import c04
from vf.ref import e37
from vf.run import Failure

PROPERTY = "C05"
LEVEL = "exploration"
TECHNIQUE = "model-based stateful testing (generated op histories vs an E37 reference session model) under a deterministic scheduler with generated schedules and parked preemptions"
RULE = (
    "Histories of 1..40 ops over {connect, connect with a Select.req already in flight, peer close, disable, enable, "
    "Select.req, Select.rsp (status 0/1..3; matching|stale|unsolicited), Deselect.req, Deselect.rsp, Linktest.req, "
    "Linktest.rsp, Separate.req, Reject.req, data message (W / no W), application request, 1..3 Select/Deselect/Linktest "
    "requests racing the peer's close} in passive and active mode, a quarter of them a focused family (connect, [select], "
    "requests racing close; repeated); with PRNG schedules and parked preemptions in _on_connected, the dispatcher, "
    "the state transition, the disconnect handler and _process_send_queue; after every op the "
    "implementation's state, the frames it sent and the messages it delivered are compared with the model. "
    "Non-trivial = history with >=1 reconnect, or >=2 select/deselect cycles, or data messages in all three states, or the "
    "in-flight-select schedule, or a request racing the close; distinct by op sequence + schedule."
)
ASSUMPTIONS = [
    "E37 reference model typed in from the standard's state table; T7 and linktest-timeout disconnects are outside the event alphabet",
    "schedules sampled (PRNG switch points at shim operations + line-level parked preemptions in the hot set)",
    "data messages use catalogued S/F with valid bodies (undecodable bodies are C08's subject)",
]
BUDGET_S = {"quick": 110, "thorough": 1200}

HOT = ("_on_connected", "_dispatcher_thread_function", "_on_connection_message_received", "_perform_transition", "_on_disconnected", "_process_send_queue")

OPS = [
    "connect", "connect_inflight_select", "peer_close", "disable", "enable",
    "select_req", "select_rsp", "deselect_req", "deselect_rsp", "linktest_req", "linktest_rsp",
    "separate_req", "reject_req", "data", "data", "app_request", "answer_select", "app_request_open", "reply_open", "reply_open", "select_req_racing_close", "req_racing_close",
]


@st.composite
def case_strategy(draw, max_ops=25):
    n = draw(st.integers(1, max_ops))
    ops = []
    for i in range(n):
        k = draw(st.sampled_from(OPS))
        op = {"op": k}
        if k in ("select_rsp", "answer_select"):
            op["status"] = draw(st.sampled_from([0, 0, 1, 2, 3]))
        if k == "answer_select":
            op["then_data"] = draw(st.booleans())
        if k in ("select_rsp", "deselect_rsp", "linktest_rsp"):
            op["sys"] = draw(st.sampled_from(["unsolicited", "stale"]))
        if k == "data":
            op["w"] = draw(st.integers(0, 1))
            op["kind"] = draw(st.sampled_from(["S1F1", "S6F12", "S10F3", "S7F3"]))
        if k == "req_racing_close":
            op["kind"] = draw(st.sampled_from(["select", "linktest", "deselect"]))
            op["count"] = draw(st.sampled_from([1, 1, 2, 3]))
        ops.append(op)
    active = draw(st.booleans())
    if draw(st.integers(0, 3)) == 0:
        # focused family: connect, (select), request racing the peer's close - repeated, under a random schedule
        ops = []
        for _ in range(draw(st.integers(1, 3))):
            ops.append({"op": "connect"})
            if draw(st.booleans()):
                ops.append({"op": "select_req"})
            if draw(st.integers(0, 2)) == 0:
                ops.append({"op": "data", "w": draw(st.integers(0, 1)), "kind": "S1F1"})
            ops.append({"op": "req_racing_close", "kind": draw(st.sampled_from(["select", "linktest", "deselect"])), "count": draw(st.sampled_from([1, 1, 2, 3]))})
        return {
            "ops": ops,
            "active": active,
            "sysbase": draw(st.sampled_from([0x40000, 0xFFFFFFFE])),
            "sched": {"seed": draw(st.integers(1, 2**31)), "switch": draw(st.sampled_from([0.1, 0.5])), "pprob": draw(st.sampled_from([0.02, 0.1])), "hot": list(HOT)},
        }
    sched = draw(
        st.one_of(
            st.just({"seed": 0}),
            st.builds(
                lambda s, p, pp: {"seed": s, "switch": p, "pprob": pp, "hot": list(HOT)},
                st.integers(1, 2**31),
                st.sampled_from([0.1, 0.5]),
                st.sampled_from([0.0, 0.02, 0.1]),
            ),
            st.builds(
                lambda k: {"seed": 0, "preempts": [["_on_connected", k]], "hot": list(HOT)},
                st.integers(1, 6),
            ),
        )
    )
    return {"ops": ops, "active": active, "sched": sched, "sysbase": draw(st.sampled_from([0x40000, 0x40000, 0xFFFFFFFD, 0xFFFFFFFF, 0x7FFFFFFE]))}


class Model:
    def __init__(self, active):
        self.active = active
        self.enabled = True
        self.state = e37.NOT_CONNECTED
        self.open_select = set()  # system bytes of Select.req this endpoint has outstanding (active mode)


def run_case(case, observe=None):
    active = bool(case["active"])
    ops = case["ops"]
    m = Model(active)
    stats = {"reconnects": 0, "selects": 0, "deselects": 0, "data_states": set(), "inflight": 0}
    with hsmsrig.make_world(case.get("sched", {})) as w:
        sim = w.sim
        rig = hsmsrig.Rig(w, active=active, t6=5, t5=1000 if active else 10)
        st_, _ = rig.enable()
        if st_ != "done":
            return Failure("setup-failed", case, st_, "enabled")
        sysc = [case.get("sysbase", 0x40000)]  # the peer's system bytes; a base just below 2^32 makes them pass 0xFFFFFFFF and 0
        delivered = 0
        connected_once = False
        open_req = {}  # an application request left outstanding: {"sys", "box"}

        def nxt():
            sysc[0] = (sysc[0] + 1) & 0xFFFFFFFF
            return sysc[0]

        def fail(bucket, i, obs, exp):
            return Failure(bucket, case, f"op#{i} {ops[i]}: {obs}", exp)

        def collect():
            """Frames sent by the endpoint since the last call; answers the endpoint's own Linktest.req."""
            fr = rig.drain() if rig.peer is not None and not rig.peer.closed else []
            out = []
            for f in fr:
                if f["stype"] == e37.LINKTEST_REQ:
                    if rig.peer is not None and not rig.peer.closed:
                        rig.peer.send(e37.control_frame(e37.LINKTEST_RSP, f["system"]))
                        sim.settle()
                    continue
                if f["stype"] == e37.SELECT_REQ and active:
                    m.open_select.add(f["system"])
                    continue
                out.append(f)
            return out

        for i, op in enumerate(ops):
            k = op["op"]
            peer_up = rig.peer is not None and not rig.peer.closed and m.state != e37.NOT_CONNECTED
            n_recv = len(rig.received)
            expect_frames = []  # list of (stype, system, byte2, byte3 or None)
            expect_delivered = 0
            if k in ("connect", "connect_inflight_select"):
                if peer_up or not m.enabled:
                    continue
                inflight = k == "connect_inflight_select" and not active
                if active:
                    if not rig.connect_peer():
                        return fail("connect-failed", i, sim.blocked_report(), "endpoint connects")
                else:
                    try:
                        rig.peer = w.net.connect(hsmsrig.ADDR, hsmsrig.PORT)
                    except ConnectionRefusedError:
                        # the listening socket is re-opened by the server thread after the previous close handling
                        sim.advance(1.0)
                        try:
                            rig.peer = w.net.connect(hsmsrig.ADDR, hsmsrig.PORT)
                        except ConnectionRefusedError:
                            return fail("connect-refused", i, f"{sim.blocked_report()} {sim.thread_errors[-1:]}", "passive endpoint listens")
                    rig.rxbuf = b""
                    rig._rx_total = 0
                    if inflight:
                        s = nxt()
                        rig.peer.send(e37.control_frame(e37.SELECT_REQ, s))
                        expect_frames.append((e37.SELECT_RSP, s))
                        stats["inflight"] += 1
                    sim.settle()
                if connected_once:
                    stats["reconnects"] += 1
                connected_once = True
                m.state = e37.NOT_SELECTED
                m.open_select = set()
                open_req.clear()
                if inflight:
                    m.state = e37.SELECTED
                    stats["selects"] += 1
            elif k in ("select_req_racing_close", "req_racing_close"):
                # a request is still being dispatched (its response still queued) when the peer closes: whatever the
                # interleaving, the endpoint must end NOT CONNECTED (the response may or may not make it onto the dying link)
                kind = op.get("kind", "select")
                if not peer_up or (kind == "select" and m.state != e37.NOT_SELECTED) or (kind == "deselect" and m.state != e37.SELECTED):
                    continue
                collect()
                stype = {"select": e37.SELECT_REQ, "linktest": e37.LINKTEST_REQ, "deselect": e37.DESELECT_REQ}[kind]
                for _ in range(op.get("count", 1)):
                    rig.peer.send(e37.control_frame(stype, nxt()))
                rig.peer.close()
                sim.advance(3.0)
                m.state = e37.NOT_CONNECTED
                stats["select_racing_close"] = stats.get("select_racing_close", 0) + 1
            elif k == "peer_close":
                if not peer_up:
                    continue
                collect()
                rig.peer.close()
                sim.advance(3.0)
                m.state = e37.NOT_CONNECTED
            elif k == "disable":
                if not m.enabled:
                    continue
                collect()
                st_, _ = rig.disable(horizon=120)
                if st_ != "done":
                    return fail("disable-hangs", i, f"{st_} {sim.blocked_report()}", "disable() returns")
                m.enabled = False
                m.state = e37.NOT_CONNECTED
                if rig.peer is not None and not rig.peer.closed:
                    rig.peer.close()
                if active:
                    while rig.listener.accept_nowait() is not None:
                        pass
            elif k == "enable":
                if m.enabled:
                    continue
                st_, _ = rig.enable()
                if st_ != "done":
                    return fail("enable-hangs", i, st_, "enable() returns")
                m.enabled = True
                if active:
                    # an active endpoint connects at once (the listener is up): enable implies connect
                    if not rig.connect_peer():
                        return fail("connect-failed", i, sim.blocked_report(), "endpoint connects")
                    stats["reconnects"] += 1 if connected_once else 0
                    connected_once = True
                    m.state = e37.NOT_SELECTED
                    m.open_select = set()
            elif not peer_up:
                continue
            elif k == "select_req":
                s = nxt()
                rig.feed(e37.control_frame(e37.SELECT_REQ, s))
                expect_frames.append((e37.SELECT_RSP, s))
                if m.state == e37.NOT_SELECTED:
                    m.state = e37.SELECTED
                    stats["selects"] += 1
            elif k == "answer_select":
                # answer the endpoint's own outstanding Select.req (active mode)
                if not m.open_select:
                    continue
                s = sorted(m.open_select)[0]
                m.open_select.discard(s)
                rsp = e37.frame(0xFFFF, 0, op["status"], 0, e37.SELECT_RSP, s)
                if op["status"] == 0 and m.state == e37.NOT_SELECTED:
                    m.state = e37.SELECTED
                    stats["selects"] += 1
                if op.get("then_data"):
                    # the peer's first data message travels in the same segment as its Select.rsp: judged in the state the
                    # response leaves the session in
                    ds = nxt()
                    rsp += e37.data_frame(0, 1, 1, 1, ds, b"")
                    stats["data_states"].add(m.state)
                    stats["data_behind_select_rsp"] = stats.get("data_behind_select_rsp", 0) + 1
                    if m.state == e37.SELECTED:
                        expect_delivered = 1
                    else:
                        expect_frames.append((e37.REJECT_REQ, ds, 4))
                rig.feed(rsp)
            elif k == "select_rsp":
                s = nxt() if op["sys"] == "unsolicited" else 0x3FFFF
                rig.feed(e37.frame(0xFFFF, 0, op["status"], 0, e37.SELECT_RSP, s))
            elif k == "deselect_req":
                s = nxt()
                rig.feed(e37.control_frame(e37.DESELECT_REQ, s))
                expect_frames.append((e37.DESELECT_RSP, s))
                if m.state == e37.SELECTED:
                    m.state = e37.NOT_SELECTED
                    stats["deselects"] += 1
            elif k == "deselect_rsp":
                s = nxt() if op["sys"] == "unsolicited" else 0x3FFFE
                rig.feed(e37.control_frame(e37.DESELECT_RSP, s))
            elif k == "linktest_req":
                s = nxt()
                rig.feed(e37.control_frame(e37.LINKTEST_REQ, s))
                expect_frames.append((e37.LINKTEST_RSP, s))
            elif k == "linktest_rsp":
                rig.feed(e37.control_frame(e37.LINKTEST_RSP, nxt()))
            elif k == "separate_req":
                rig.feed(e37.control_frame(e37.SEPARATE_REQ, nxt()))
                if m.state == e37.SELECTED:
                    m.state = "SEPARATED"  # NOT_SELECTED or NOT_CONNECTED accepted
                    stats["deselects"] += 1
            elif k == "reject_req":
                rig.feed(e37.frame(0xFFFF, 0, 4, 0, e37.REJECT_REQ, nxt()))
            elif k == "data":
                s = nxt()
                fr = {"k": op["kind"], "sys": s, "n": 5, "fill": i}
                sfw = c04.KINDS[op["kind"]]
                body = c04._body(op["kind"], 5, i)
                rig.feed(e37.data_frame(0, sfw[0], sfw[1], op["w"], s, body))
                stats["data_states"].add(m.state)
                if m.state == e37.SELECTED:
                    expect_delivered = 1
                elif m.state == e37.NOT_SELECTED:
                    expect_frames.append((e37.REJECT_REQ, s, 4))
                # after Separate.req either outcome of the two states is acceptable: checked below
            elif k == "app_request_open":
                # the application opens a transaction and keeps waiting (answered later by reply_open, in whatever state)
                if m.state != e37.SELECTED or open_req:
                    continue
                import secsgem.secs

                obox = {}

                def oreq(obox=obox):
                    obox["r"] = rig.p.send_and_waitfor_response(secsgem.secs.functions.SecsS01F01())
                    obox["done"] = True

                sim.spawn(oreq, "app-request-open")
                sim.settle()
                out = [f for f in collect() if f["stype"] == e37.DATA]
                if len(out) != 1 or (out[0]["stream"], out[0]["function"], out[0]["w"]) != (1, 1, 1):
                    return fail("app-request-not-sent", i, out, "one S1F1 W on the wire")
                open_req.update({"sys": out[0]["system"], "box": obox})
                stats["open_requests"] = stats.get("open_requests", 0) + 1
            elif k == "reply_open":
                # the peer answers the outstanding transaction: delivered to the caller only in SELECTED
                if not open_req or open_req["box"].get("done"):
                    continue
                s = open_req["sys"]
                rig.feed(e37.data_frame(0, 1, 2, 0, s, bytes.fromhex("0100")))
                sim.settle()
                stats["data_states"].add(m.state)
                if m.state == e37.SELECTED:
                    r = open_req["box"].get("r")
                    if r is None or r.header.system != s:
                        return fail("open-request-reply-lost", i, r, "reply returned to the caller")
                    open_req.clear()
                else:
                    expect_frames.append((e37.REJECT_REQ, s, 4))
                    if open_req["box"].get("r") is not None:
                        return fail("delivery:reply_open:delivered-while-not-selected", i, "reply handed to the waiting caller in NOT SELECTED", "Reject.req, not delivered")
                    stats["reply_while_not_selected"] = stats.get("reply_while_not_selected", 0) + 1
            elif k == "app_request":
                # the application sends a primary and the peer answers it: the reply must not be delivered as unsolicited
                if m.state != e37.SELECTED:
                    continue
                import secsgem.secs

                box = {}

                def req():
                    box["r"] = rig.p.send_and_waitfor_response(secsgem.secs.functions.SecsS01F01())

                t = sim.spawn(req, "app-request")
                sim.settle()
                out = [f for f in collect() if f["stype"] == e37.DATA]
                if len(out) != 1 or (out[0]["stream"], out[0]["function"], out[0]["w"]) != (1, 1, 1):
                    return fail("app-request-not-sent", i, out, "one S1F1 W on the wire")
                rig.feed(e37.data_frame(0, 1, 2, 0, out[0]["system"], bytes.fromhex("0100")))
                sim.settle()
                r = box.get("r")
                if r is None or r.header.system != out[0]["system"]:
                    return fail("app-request-reply-lost", i, r, "reply returned to the caller")
            sim.settle()
            frames = collect()
            # ---- compare
            if m.state == "SEPARATED":
                real = rig.state()
                if real == "CONNECTED_SELECTED":
                    return fail("separate-req-ignored", i, real, "NOT_SELECTED or NOT_CONNECTED after Separate.req")
                m.state = e37.NOT_CONNECTED if real == "NOT_CONNECTED" else e37.NOT_SELECTED
                if m.state == e37.NOT_CONNECTED:
                    sim.advance(1.0)
            want = {e37.NOT_CONNECTED: "NOT_CONNECTED", e37.NOT_SELECTED: "CONNECTED_NOT_SELECTED", e37.SELECTED: "CONNECTED_SELECTED"}[m.state]
            real = rig.state()
            if real != want:
                return fail(f"state:{k}:{real}-instead-of-{want}", i, real, want)
            got = [(f["stype"], f["system"]) + ((f["byte3"],) if f["stype"] == e37.REJECT_REQ else ()) for f in frames if f["stype"] != e37.SEPARATE_REQ]
            exp = [tuple(x) for x in expect_frames]
            if got != exp:
                kind = "missing" if len(got) < len(exp) else "extra" if len(got) > len(exp) else "wrong"
                return fail(f"response:{k}:{kind}", i, [(e37.NAMES.get(g[0]), hex(g[1])) + tuple(g[2:]) for g in got], [(e37.NAMES.get(g[0]), hex(g[1])) + tuple(g[2:]) for g in exp])
            for f in frames:
                if f["stype"] == e37.REJECT_REQ and f["byte2"] != 0:
                    return fail("reject-header", i, f"byte2={f['byte2']}", "byte2 = SType of the rejected data message (0)")
            newly = len(rig.received) - n_recv
            if newly != expect_delivered:
                return fail(f"delivery:{k}:{'not-delivered' if newly < expect_delivered else 'delivered-while-not-selected' if expect_delivered == 0 else 'duplicated'}", i, newly, expect_delivered)
        if observe is not None:
            observe.update(stats)
            observe["preempt_hits"] = len(sim.preempt_hits)
    return None


def nontrivial(stats):
    return bool(
        stats.get("reconnects", 0) >= 1
        or min(stats.get("selects", 0), stats.get("deselects", 0) + 1) >= 2
        or len(stats.get("data_states", ())) >= 2
        or stats.get("inflight", 0)
        or stats.get("select_racing_close", 0)
    )


def plan(tier, seed):
    quick = tier == "quick"
    return [("gen", {"shard": i, "n": 150 if quick else 1500, "max_ops": 25 if quick else 40}) for i in range(16)]


def run_task(name, kw, ctx):
    def body(case):
        obs = {}
        f = run_case(case, obs)
        cls = ["active" if case["active"] else "passive"]
        if obs.get("reconnects"):
            cls.append("reconnect")
        if obs.get("inflight"):
            cls.append("inflight-select")
        if obs.get("select_racing_close"):
            cls.append("select-req-racing-close")
        if obs.get("data_behind_select_rsp"):
            cls.append("data-in-the-segment-of-select-rsp")
        if obs.get("reply_while_not_selected"):
            cls.append("reply-to-open-transaction-while-not-selected")
        if obs.get("preempt_hits"):
            cls.append("preemption-hit")
        if case["sched"].get("seed"):
            cls.append("random-schedule")
        for s in obs.get("data_states", ()):
            cls.append(f"data-in:{s}")
        ctx.case(case, nontrivial(obs) or f is not None, cls)
        return f

    ctx.hyp(case_strategy(kw["max_ops"]), body, kw["n"], seed_offset=kw["shard"])


def replay(case, ctx):
    return run_case(case)
