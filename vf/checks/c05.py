"""C05 - HSMS session follows the E37 connect/select state model for every history.

Model-based testing: generated op histories are applied to the real HsmsProtocol (+ real TCP connection classes on
simulated sockets, deterministic scheduler) and to a reference E37 session model in lock-step.

Model (SEMI E37 section 5/7, T7 not driven - the library has no T7 timer and the property's alphabet has no timer):
  NOT_CONNECTED --tcp connect--> NOT_SELECTED --select completed--> SELECTED --deselect/separate--> NOT_SELECTED
  any connected state --tcp close / disable--> NOT_CONNECTED
  * Select.req: answered by exactly one Select.rsp with the request's system bytes; NOT_SELECTED -> SELECTED
  * Deselect.req: exactly one Deselect.rsp; SELECTED -> NOT_SELECTED
  * Linktest.req: exactly one Linktest.rsp
  * Separate.req: SELECTED -> NOT_SELECTED (NOT_CONNECTED also accepted: implementations may drop the link); no response
  * Select.rsp / Deselect.rsp change the state only if they complete an open transaction of this endpoint with status 0
  * Reject.req: no state change, no response
  * data message: SELECTED -> delivered exactly once, no control response; otherwise not delivered and answered by exactly
    one Reject.req (reason 4 = entity not selected) carrying its system bytes
  * the byte stream of a connection is ordered: a message is judged in the state the messages in front of it leave the
    session in (a data message right behind a Select.req / the Select.rsp arrives in SELECTED, right behind a Deselect.req
    in NOT_SELECTED), however the messages are cut into segments; a delivered message is the one received (system bytes,
    S/F, W, body); the order of delivery among several data messages is not this property's subject and not compared

Data messages: "well-formed" is a matter of the HSMS frame. The body is SECS-II and its conformance to the GEM structure of
the stream/function is the business of the layer above, so the generator covers, for catalogued and uncatalogued S/F: the
documented structure, lists with more / fewer elements than documented, items of another format, no body at all, a body
where none is documented, valid SECS-II of an unrelated shape. The oracle is the same for all of them (gate by state).
Bodies that are not valid SECS-II are left out (whether those are "well-formed" is not pinned by the statement).
"""

from __future__ import annotations

from hypothesis import strategies as st

from vf import hsmsrig
from vf.checks import c04
from vf.gen import items as gen_items
from vf.ref import e5, e37
from vf.run import Failure

PROPERTY = "C05"
LEVEL = "exploration"
TECHNIQUE = "model-based stateful testing (generated op histories vs an E37 reference session model) under a deterministic scheduler with generated schedules and parked preemptions"
RULE = (
    "Histories of 1..40 ops over {connect, connect with a Select.req already in flight, peer close, disable, enable, "
    "Select.req, Select.rsp (status 0/1..3; matching|stale|unsolicited), Deselect.req, Deselect.rsp, Linktest.req, "
    "Linktest.rsp, Separate.req, Reject.req, data message (W / no W; catalogued or uncatalogued S/F; body = documented "
    "structure | over-long list | too-short list | other item format | none | unrelated valid SECS-II), application request, "
    "1..3 Select/Deselect/Linktest requests racing the peer's close, Select.req/Deselect.req with 1..2 data messages right "
    "behind it (same segment | back to back | the moment the response is on the wire), in-flight Select.req with a data "
    "message behind it} in passive and active mode, a quarter of them a focused family (connect, [select], "
    "requests racing close; repeated), another quarter the family (connect, Select.req+data / Select.rsp+data, further "
    "ops, close or disable/enable; 2..3 connections) under PRNG schedules with parked preemptions that include the "
    "control-message handlers; with PRNG schedules and parked preemptions in _on_connected, the dispatcher, "
    "the state transition, the disconnect handler and _process_send_queue; after every op the "
    "implementation's state, the frames it sent and the messages it delivered are compared with the model. "
    "Non-trivial = history with >=1 reconnect, or >=2 select/deselect cycles, or data messages in all three states, or the "
    "in-flight-select schedule, or a request racing the close; distinct by op sequence + schedule."
)
ASSUMPTIONS = [
    "E37 reference model typed in from the standard's state table; T7 and linktest-timeout disconnects are outside the event alphabet",
    "schedules sampled (PRNG switch points at shim operations + line-level parked preemptions in the hot set)",
    "data message bodies are valid SECS-II or absent (catalogued and uncatalogued S/F, conforming or not to the documented structure); bodies that are not SECS-II at all are not generated",
]
BUDGET_S = {"quick": 110, "thorough": 1200}

HOT = ("_on_connected", "_dispatcher_thread_function", "_on_connection_message_received", "_perform_transition", "_on_disconnected", "_process_send_queue")

# the family "control request with data messages right behind it" also parks inside the control-message handlers (co_names
# of the private methods are the unmangled names)
HOT_REQ = HOT + ("__handle_hsms_requests", "__handle_hsms_requests_select_req", "__handle_hsms_requests_deselect_req", "__handle_hsms_requests_select_rsp")

OPS = [
    "connect", "connect_inflight_select", "peer_close", "disable", "enable",
    "select_req", "select_rsp", "deselect_req", "deselect_rsp", "linktest_req", "linktest_rsp",
    "separate_req", "reject_req", "data", "data", "app_request", "answer_select", "app_request_open", "reply_open", "reply_open", "select_req_racing_close", "req_racing_close",
    "req_then_data",
]

# ---- data message bodies -------------------------------------------------------------------------------------------
# Message structures typed in from SEMI E5 (section 10, message detail), as ref.e5 item trees with sample values; None =
# header-only message. They only steer the generator (which body classes exist relative to the documented structure);
# the oracle does not look at the body: at the HSMS layer every data message in a well-formed frame counts.
_A = lambda t: ("A", t.encode())  # noqa: E731
STRUCTS = {
    (1, 1): None,
    (1, 2): ("L", [_A("MDLN"), _A("1.0")]),
    (1, 3): ("L", [("U4", [1]), ("U4", [2])]),
    (1, 13): ("L", [_A("MDLN"), _A("1.0")]),
    (1, 14): ("L", [("B", b"\x00"), ("L", [_A("MDLN"), _A("1.0")])]),
    (2, 17): None,
    (2, 33): ("L", [("U4", [1]), ("L", [("L", [("U4", [10]), ("L", [("U4", [100]), ("U4", [101])])])])]),
    (2, 41): ("L", [_A("START"), ("L", [("L", [_A("PPID"), _A("recipe")])])]),
    (5, 1): ("L", [("B", b"\x81"), ("U4", [7]), _A("alarm text")]),
    (6, 11): ("L", [("U4", [1]), ("U4", [20]), ("L", [("L", [("U4", [10]), ("L", [("U4", [5]), _A("v")])])])]),
    (6, 12): ("B", b"\x00"),
    (7, 3): ("L", [_A("pp"), ("B", b"\x01\x02\x03")]),
    (9, 13): ("L", [_A("S01F02"), _A("edid")]),
    (10, 3): ("L", [("B", b"\x00"), _A("hello")]),
}
CATALOGUED = sorted(STRUCTS)
UNCATALOGUED = [(1, 99), (3, 17), (6, 3), (64, 1), (99, 7), (127, 255)]  # neither in E5's GEM subset nor in the library's catalogue
EXTRA = [("U1", [1]), _A("x"), ("L", []), ("B", b"\x00"), ("L", [("U4", [7])]), ("U4", [1, 2])]
OTHER = [("U4", [1]), _A("zz"), ("B", b"\x01"), ("BOOLEAN", [True]), ("F8", [0x3FF0000000000000]), ("L", []), ("I2", [-1]), ("J", b"\xb1"), ("U1", [])]
BODY_CLASSES = ("conforming", "overlong", "short", "wrongtype", "empty", "unrelated")


def _paths(t, lists):
    out = []

    def rec(node, path):
        if node[0] == "L":
            if lists:
                out.append(path)
            for j, c in enumerate(node[1]):
                rec(c, path + (j,))
        elif not lists:
            out.append(path)

    rec(t, ())
    return out


def _replace(t, path, fn):
    if not path:
        return fn(t)
    sub = list(t[1])
    sub[path[0]] = _replace(sub[path[0]], path[1:], fn)
    return ("L", sub)


@st.composite
def body_strategy(draw):
    """-> {"sf": [stream, function], "bclass": label, "body": hex}: a valid SECS-II body (or none) for a catalogued or an
    uncatalogued stream/function, in one of the classes relative to the documented structure of that function."""
    if draw(st.integers(0, 4)) == 0:
        sf = draw(st.sampled_from(UNCATALOGUED))
        struct = None
        cls = draw(st.sampled_from(["empty", "unrelated"]))
    else:
        sf = draw(st.sampled_from(CATALOGUED))
        struct = STRUCTS[sf]
        cls = draw(st.sampled_from(BODY_CLASSES))
    if struct is None and cls in ("overlong", "short", "wrongtype"):
        cls = "unrelated"  # a body where the function has none
    if struct is None and cls == "conforming":
        cls = "empty"
    if struct is not None and struct[0] != "L" and cls in ("overlong", "short"):
        cls = "wrongtype"
    if cls == "conforming":
        tree = struct
    elif cls == "empty":
        tree = None
    elif cls == "overlong":
        path = draw(st.sampled_from(_paths(struct, True)))
        extra = draw(st.lists(st.sampled_from(EXTRA), min_size=1, max_size=3))
        tree = _replace(struct, path, lambda n: ("L", list(n[1]) + extra))
    elif cls == "short":
        path = draw(st.sampled_from(_paths(struct, True)))
        keep = draw(st.integers(0, 3))
        tree = _replace(struct, path, lambda n: ("L", list(n[1])[: min(keep, max(len(n[1]) - 1, 0))]))
    elif cls == "wrongtype":
        paths = _paths(struct, False) + _paths(struct, True)
        path = draw(st.sampled_from(paths))
        k = draw(st.integers(0, len(OTHER) - 1))
        tree = _replace(struct, path, lambda n: next(o for o in OTHER[k:] + OTHER[:k] if o[0] != n[0]))
    else:
        if draw(st.booleans()):
            tree = gen_items.to_ref(draw(gen_items.tree(max_depth=3, max_width=3, leaves=gen_items.leaf(max_n=4))))
        else:
            others = [v for k_, v in sorted(STRUCTS.items()) if v is not None and k_ != tuple(sf)]
            tree = draw(st.sampled_from(others))
    return {"sf": list(sf), "bclass": cls, "body": e5.encode(tree).hex() if tree is not None else ""}


@st.composite
def data_strategy(draw):
    d = {"w": draw(st.integers(0, 1))}
    if draw(st.integers(0, 3)) == 0:
        d["kind"] = draw(st.sampled_from(["S1F1", "S6F12", "S10F3", "S7F3"]))
    else:
        d.update(draw(body_strategy()))
    return d


def data_parts(d, i):
    """(stream, function, body bytes, body class) of a generated data message descriptor."""
    if "sf" in d:
        return d["sf"][0], d["sf"][1], bytes.fromhex(d["body"]), d.get("bclass", "conforming")
    sfw = c04.KINDS[d.get("kind", "S1F1")]
    return sfw[0], sfw[1], c04._body(d.get("kind", "S1F1"), 5, i), "conforming"


@st.composite
def req_then_data_fields(draw, kind=None):
    """Select.req / Deselect.req with 1..2 data messages right behind it: in the same segment, as separate back-to-back
    sends, or sent the moment the response is on the wire."""
    return {
        "kind": kind or draw(st.sampled_from(["select", "select", "deselect"])),
        "mode": draw(st.sampled_from(["segment", "back_to_back", "on_rsp"])),
        "data": draw(st.lists(data_strategy(), min_size=1, max_size=2)),
    }


@st.composite
def case_strategy(draw, max_ops=25):
    n = draw(st.integers(1, max_ops))
    ops = []
    for i in range(n):
        k = draw(st.sampled_from(OPS))
        op = {"op": k}
        if k in ("select_rsp", "answer_select"):
            op["status"] = draw(st.sampled_from([0, 0, 1, 2, 3]))
        if k == "answer_select":
            op["then_data"] = draw(st.booleans())
        if k in ("select_rsp", "deselect_rsp", "linktest_rsp"):
            op["sys"] = draw(st.sampled_from(["unsolicited", "stale"]))
        if k == "data":
            op.update(draw(data_strategy()))
        if k == "connect_inflight_select" and draw(st.integers(0, 2)) == 0:
            op["data"] = [draw(data_strategy())]
        if k == "req_then_data":
            op.update(draw(req_then_data_fields()))
        if k == "req_racing_close":
            op["kind"] = draw(st.sampled_from(["select", "linktest", "deselect"]))
            op["count"] = draw(st.sampled_from([1, 1, 2, 3]))
        ops.append(op)
    active = draw(st.booleans())
    fam = draw(st.integers(0, 7))
    if fam in (2, 3):
        # focused family: a previous connection (so that whatever a connection leaves behind is there), then on the new
        # connection a Select.req (passive) / the Select.rsp (active) with the peer's data message(s) right behind it,
        # under a random schedule with parked preemptions in the handlers, the dispatcher and the state transition
        ops = []
        for r in range(draw(st.integers(2, 3))):
            ops.append({"op": "connect"})
            if active and draw(st.integers(0, 2)) > 0:
                ops.append({"op": "answer_select", "status": 0, "then_data": True})
            else:
                op = {"op": "req_then_data"}
                op.update(draw(req_then_data_fields(kind="select")))
                ops.append(op)
            for _ in range(draw(st.integers(0, 2))):
                k = draw(st.sampled_from(["data", "req_then_data", "deselect_req", "linktest_req", "select_req"]))
                op = {"op": k}
                if k == "data":
                    op.update(draw(data_strategy()))
                if k == "req_then_data":
                    op.update(draw(req_then_data_fields()))
                ops.append(op)
            # an active endpoint reconnects after T5 only (raised, see the rig set-up): its connection is mostly ended by
            # disable, enable connects at once
            closers = [{"op": "disable"}] * 5 + [{"op": "peer_close"}] if active else [{"op": "peer_close"}, {"op": "peer_close"}, {"op": "req_racing_close", "kind": "linktest", "count": 1}, {"op": "disable"}]
            ops.append(dict(draw(st.sampled_from(closers))))
            if ops[-1]["op"] == "disable":
                ops.append({"op": "enable"})
        return {
            "ops": ops,
            "active": active,
            "sysbase": draw(st.sampled_from([0x40000, 0xFFFFFFFE])),
            "sched": {"seed": draw(st.integers(1, 2**31)), "switch": draw(st.sampled_from([0.1, 0.5])), "pprob": draw(st.sampled_from([0.02, 0.1])), "hot": list(HOT_REQ)},
        }
    if fam in (0, 1):
        # focused family: connect, (select), request racing the peer's close - repeated, under a random schedule
        ops = []
        for _ in range(draw(st.integers(1, 3))):
            ops.append({"op": "connect"})
            if draw(st.booleans()):
                ops.append({"op": "select_req"})
            if draw(st.integers(0, 2)) == 0:
                op = {"op": "data"}
                op.update(draw(data_strategy()))
                ops.append(op)
            ops.append({"op": "req_racing_close", "kind": draw(st.sampled_from(["select", "linktest", "deselect"])), "count": draw(st.sampled_from([1, 1, 2, 3]))})
        return {
            "ops": ops,
            "active": active,
            "sysbase": draw(st.sampled_from([0x40000, 0xFFFFFFFE])),
            "sched": {"seed": draw(st.integers(1, 2**31)), "switch": draw(st.sampled_from([0.1, 0.5])), "pprob": draw(st.sampled_from([0.02, 0.1])), "hot": list(HOT)},
        }
    sched = draw(
        st.one_of(
            st.just({"seed": 0}),
            st.builds(
                lambda s, p, pp: {"seed": s, "switch": p, "pprob": pp, "hot": list(HOT)},
                st.integers(1, 2**31),
                st.sampled_from([0.1, 0.5]),
                st.sampled_from([0.0, 0.02, 0.1]),
            ),
            st.builds(
                lambda k: {"seed": 0, "preempts": [["_on_connected", k]], "hot": list(HOT)},
                st.integers(1, 6),
            ),
        )
    )
    return {"ops": ops, "active": active, "sched": sched, "sysbase": draw(st.sampled_from([0x40000, 0x40000, 0xFFFFFFFD, 0xFFFFFFFF, 0x7FFFFFFE]))}


class Model:
    def __init__(self, active):
        self.active = active
        self.enabled = True
        self.state = e37.NOT_CONNECTED
        self.open_select = set()  # system bytes of Select.req this endpoint has outstanding (active mode)


def run_case(case, observe=None):
    active = bool(case["active"])
    ops = case["ops"]
    m = Model(active)
    stats = {"reconnects": 0, "selects": 0, "deselects": 0, "data_states": set(), "inflight": 0, "bodies": set()}
    with hsmsrig.make_world(case.get("sched", {})) as w:
        sim = w.sim
        rig = hsmsrig.Rig(w, active=active, t6=5, t5=1000 if active else 10)
        st_, _ = rig.enable()
        if st_ != "done":
            return Failure("setup-failed", case, st_, "enabled")
        sysc = [case.get("sysbase", 0x40000)]  # the peer's system bytes; a base just below 2^32 makes them pass 0xFFFFFFFF and 0
        delivered = 0
        connected_once = False
        open_req = {}  # an application request left outstanding: {"sys", "box"}

        def nxt():
            sysc[0] = (sysc[0] + 1) & 0xFFFFFFFF
            return sysc[0]

        def fail(bucket, i, obs, exp):
            return Failure(bucket, case, f"op#{i} {ops[i]}: {obs}", exp)

        def data_msgs(descs, i):
            """Frames of the generated data messages + what the model expects for them in the state m.state."""
            raw = b""
            for d in descs:
                ds = nxt()
                stream, function, body, bcls = data_parts(d, i)
                raw += e37.data_frame(0, stream, function, d["w"], ds, body)
                stats["data_states"].add(m.state)
                stats["bodies"].add(f"{bcls}@{m.state}")
                if (stream, function) in UNCATALOGUED:
                    stats["bodies"].add(f"uncatalogued-sf@{m.state}")
                if m.state == e37.SELECTED:
                    expect_msgs.append((ds, stream, function, d["w"], body.hex()))
                elif m.state == e37.NOT_SELECTED:
                    expect_frames.append((e37.REJECT_REQ, ds, 4))
            return raw

        def collect():
            """Frames sent by the endpoint since the last call; answers the endpoint's own Linktest.req."""
            fr = rig.drain() if rig.peer is not None and not rig.peer.closed else []
            out = []
            for f in fr:
                if f["stype"] == e37.LINKTEST_REQ:
                    if rig.peer is not None and not rig.peer.closed:
                        rig.peer.send(e37.control_frame(e37.LINKTEST_RSP, f["system"]))
                        sim.settle()
                    continue
                if f["stype"] == e37.SELECT_REQ and active:
                    m.open_select.add(f["system"])
                    continue
                out.append(f)
            return out

        for i, op in enumerate(ops):
            k = op["op"]
            peer_up = rig.peer is not None and not rig.peer.closed and m.state != e37.NOT_CONNECTED
            n_recv = len(rig.received)
            expect_frames = []  # list of (stype, system, byte2, byte3 or None)
            expect_delivered = 0
            expect_msgs = []  # data messages that have to be delivered by this op: (system, stream, function, w, body hex)
            if k in ("connect", "connect_inflight_select"):
                if peer_up or not m.enabled:
                    continue
                inflight = k == "connect_inflight_select" and not active
                if active:
                    if not rig.connect_peer():
                        return fail("connect-failed", i, sim.blocked_report(), "endpoint connects")
                else:
                    try:
                        rig.peer = w.net.connect(hsmsrig.ADDR, hsmsrig.PORT)
                    except ConnectionRefusedError:
                        # the listening socket is re-opened by the server thread after the previous close handling
                        sim.advance(1.0)
                        try:
                            rig.peer = w.net.connect(hsmsrig.ADDR, hsmsrig.PORT)
                        except ConnectionRefusedError:
                            return fail("connect-refused", i, f"{sim.blocked_report()} {sim.thread_errors[-1:]}", "passive endpoint listens")
                    rig.rxbuf = b""
                    rig._rx_total = 0
                    if inflight:
                        s = nxt()
                        rig.peer.send(e37.control_frame(e37.SELECT_REQ, s))
                        expect_frames.append((e37.SELECT_RSP, s))
                        stats["inflight"] += 1
                        if op.get("data"):
                            # the peer's first data message is in flight right behind its Select.req: it arrives in SELECTED
                            m.state = e37.SELECTED
                            rig.peer.send(data_msgs(op["data"], i))
                            stats["data_behind_select_req"] = stats.get("data_behind_select_req", 0) + (1 if connected_once else 0)
                    sim.settle()
                if connected_once:
                    stats["reconnects"] += 1
                connected_once = True
                m.state = e37.NOT_SELECTED
                m.open_select = set()
                open_req.clear()
                if inflight:
                    m.state = e37.SELECTED
                    stats["selects"] += 1
            elif k in ("select_req_racing_close", "req_racing_close"):
                # a request is still being dispatched (its response still queued) when the peer closes: whatever the
                # interleaving, the endpoint must end NOT CONNECTED (the response may or may not make it onto the dying link)
                kind = op.get("kind", "select")
                if not peer_up or (kind == "select" and m.state != e37.NOT_SELECTED) or (kind == "deselect" and m.state != e37.SELECTED):
                    continue
                collect()
                stype = {"select": e37.SELECT_REQ, "linktest": e37.LINKTEST_REQ, "deselect": e37.DESELECT_REQ}[kind]
                for _ in range(op.get("count", 1)):
                    rig.peer.send(e37.control_frame(stype, nxt()))
                rig.peer.close()
                sim.advance(3.0)
                m.state = e37.NOT_CONNECTED
                stats["select_racing_close"] = stats.get("select_racing_close", 0) + 1
            elif k == "peer_close":
                if not peer_up:
                    continue
                collect()
                rig.peer.close()
                sim.advance(3.0)
                m.state = e37.NOT_CONNECTED
            elif k == "disable":
                if not m.enabled:
                    continue
                collect()
                st_, _ = rig.disable(horizon=120)
                if st_ != "done":
                    return fail("disable-hangs", i, f"{st_} {sim.blocked_report()}", "disable() returns")
                m.enabled = False
                m.state = e37.NOT_CONNECTED
                if rig.peer is not None and not rig.peer.closed:
                    rig.peer.close()
                if active:
                    while rig.listener.accept_nowait() is not None:
                        pass
            elif k == "enable":
                if m.enabled:
                    continue
                st_, _ = rig.enable()
                if st_ != "done":
                    return fail("enable-hangs", i, st_, "enable() returns")
                m.enabled = True
                if active:
                    # an active endpoint connects at once (the listener is up): enable implies connect
                    if not rig.connect_peer():
                        return fail("connect-failed", i, sim.blocked_report(), "endpoint connects")
                    stats["reconnects"] += 1 if connected_once else 0
                    connected_once = True
                    m.state = e37.NOT_SELECTED
                    m.open_select = set()
            elif not peer_up:
                continue
            elif k == "select_req":
                s = nxt()
                rig.feed(e37.control_frame(e37.SELECT_REQ, s))
                expect_frames.append((e37.SELECT_RSP, s))
                if m.state == e37.NOT_SELECTED:
                    m.state = e37.SELECTED
                    stats["selects"] += 1
            elif k == "answer_select":
                # answer the endpoint's own outstanding Select.req (active mode)
                if not m.open_select:
                    continue
                s = sorted(m.open_select)[0]
                m.open_select.discard(s)
                rsp = e37.frame(0xFFFF, 0, op["status"], 0, e37.SELECT_RSP, s)
                if op["status"] == 0 and m.state == e37.NOT_SELECTED:
                    m.state = e37.SELECTED
                    stats["selects"] += 1
                if op.get("then_data"):
                    # the peer's first data message travels in the same segment as its Select.rsp: judged in the state the
                    # response leaves the session in
                    ds = nxt()
                    rsp += e37.data_frame(0, 1, 1, 1, ds, b"")
                    stats["data_states"].add(m.state)
                    stats["data_behind_select_rsp"] = stats.get("data_behind_select_rsp", 0) + 1
                    stats["bodies"].add(f"empty@{m.state}")
                    if m.state == e37.SELECTED:
                        expect_msgs.append((ds, 1, 1, 1, ""))
                    else:
                        expect_frames.append((e37.REJECT_REQ, ds, 4))
                rig.feed(rsp)
            elif k == "select_rsp":
                s = nxt() if op["sys"] == "unsolicited" else 0x3FFFF
                rig.feed(e37.frame(0xFFFF, 0, op["status"], 0, e37.SELECT_RSP, s))
            elif k == "deselect_req":
                s = nxt()
                rig.feed(e37.control_frame(e37.DESELECT_REQ, s))
                expect_frames.append((e37.DESELECT_RSP, s))
                if m.state == e37.SELECTED:
                    m.state = e37.NOT_SELECTED
                    stats["deselects"] += 1
            elif k == "deselect_rsp":
                s = nxt() if op["sys"] == "unsolicited" else 0x3FFFE
                rig.feed(e37.control_frame(e37.DESELECT_RSP, s))
            elif k == "linktest_req":
                s = nxt()
                rig.feed(e37.control_frame(e37.LINKTEST_REQ, s))
                expect_frames.append((e37.LINKTEST_RSP, s))
            elif k == "linktest_rsp":
                rig.feed(e37.control_frame(e37.LINKTEST_RSP, nxt()))
            elif k == "separate_req":
                rig.feed(e37.control_frame(e37.SEPARATE_REQ, nxt()))
                if m.state == e37.SELECTED:
                    m.state = "SEPARATED"  # NOT_SELECTED or NOT_CONNECTED accepted
                    stats["deselects"] += 1
            elif k == "reject_req":
                rig.feed(e37.frame(0xFFFF, 0, 4, 0, e37.REJECT_REQ, nxt()))
            elif k == "data":
                rig.feed(data_msgs([op], i))
                # after Separate.req either outcome of the two states is acceptable: checked below
            elif k == "req_then_data":
                # a Select.req / Deselect.req and the peer's next data message(s) right behind it: the byte stream is ordered,
                # so the request takes effect first and the data messages are judged in the state it leaves the session in
                s = nxt()
                sel = op["kind"] == "select"
                req = e37.control_frame(e37.SELECT_REQ if sel else e37.DESELECT_REQ, s)
                expect_frames.append((e37.SELECT_RSP if sel else e37.DESELECT_RSP, s))
                if sel and m.state == e37.NOT_SELECTED:
                    m.state = e37.SELECTED
                    stats["selects"] += 1
                    stats["data_behind_select_req"] = stats.get("data_behind_select_req", 0) + (1 if stats["reconnects"] else 0)
                elif not sel and m.state == e37.SELECTED:
                    m.state = e37.NOT_SELECTED
                    stats["deselects"] += 1
                    stats["data_behind_deselect_req"] = stats.get("data_behind_deselect_req", 0) + 1
                raw = data_msgs(op["data"], i)
                if op["mode"] == "segment":
                    rig.feed(req + raw)
                elif op["mode"] == "back_to_back":
                    rig.feed(req, settle=False)
                    rig.feed(raw)
                else:
                    # the peer sends its data the moment the response is on the wire
                    rig.feed(req, settle=False)
                    sim.pump(stop=lambda: len(rig.peer.rx) >= 14)
                    rig.feed(raw)
            elif k == "app_request_open":
                # the application opens a transaction and keeps waiting (answered later by reply_open, in whatever state)
                if m.state != e37.SELECTED or open_req:
                    continue
                import secsgem.secs

                obox = {}

                def oreq(obox=obox):
                    obox["r"] = rig.p.send_and_waitfor_response(secsgem.secs.functions.SecsS01F01())
                    obox["done"] = True

                sim.spawn(oreq, "app-request-open")
                sim.settle()
                out = [f for f in collect() if f["stype"] == e37.DATA]
                if len(out) != 1 or (out[0]["stream"], out[0]["function"], out[0]["w"]) != (1, 1, 1):
                    return fail("app-request-not-sent", i, out, "one S1F1 W on the wire")
                open_req.update({"sys": out[0]["system"], "box": obox})
                stats["open_requests"] = stats.get("open_requests", 0) + 1
            elif k == "reply_open":
                # the peer answers the outstanding transaction: delivered to the caller only in SELECTED
                if not open_req or open_req["box"].get("done"):
                    continue
                s = open_req["sys"]
                rig.feed(e37.data_frame(0, 1, 2, 0, s, bytes.fromhex("0100")))
                sim.settle()
                stats["data_states"].add(m.state)
                if m.state == e37.SELECTED:
                    r = open_req["box"].get("r")
                    if r is None or r.header.system != s:
                        return fail("open-request-reply-lost", i, r, "reply returned to the caller")
                    open_req.clear()
                else:
                    expect_frames.append((e37.REJECT_REQ, s, 4))
                    if open_req["box"].get("r") is not None:
                        return fail("delivery:reply_open:delivered-while-not-selected", i, "reply handed to the waiting caller in NOT SELECTED", "Reject.req, not delivered")
                    stats["reply_while_not_selected"] = stats.get("reply_while_not_selected", 0) + 1
            elif k == "app_request":
                # the application sends a primary and the peer answers it: the reply must not be delivered as unsolicited
                if m.state != e37.SELECTED:
                    continue
                import secsgem.secs

                box = {}

                def req():
                    box["r"] = rig.p.send_and_waitfor_response(secsgem.secs.functions.SecsS01F01())

                t = sim.spawn(req, "app-request")
                sim.settle()
                out = [f for f in collect() if f["stype"] == e37.DATA]
                if len(out) != 1 or (out[0]["stream"], out[0]["function"], out[0]["w"]) != (1, 1, 1):
                    return fail("app-request-not-sent", i, out, "one S1F1 W on the wire")
                rig.feed(e37.data_frame(0, 1, 2, 0, out[0]["system"], bytes.fromhex("0100")))
                sim.settle()
                r = box.get("r")
                if r is None or r.header.system != out[0]["system"]:
                    return fail("app-request-reply-lost", i, r, "reply returned to the caller")
            sim.settle()
            frames = collect()
            # ---- compare
            if m.state == "SEPARATED":
                real = rig.state()
                if real == "CONNECTED_SELECTED":
                    return fail("separate-req-ignored", i, real, "NOT_SELECTED or NOT_CONNECTED after Separate.req")
                m.state = e37.NOT_CONNECTED if real == "NOT_CONNECTED" else e37.NOT_SELECTED
                if m.state == e37.NOT_CONNECTED:
                    sim.advance(1.0)
            want = {e37.NOT_CONNECTED: "NOT_CONNECTED", e37.NOT_SELECTED: "CONNECTED_NOT_SELECTED", e37.SELECTED: "CONNECTED_SELECTED"}[m.state]
            real = rig.state()
            if real != want:
                return fail(f"state:{k}:{real}-instead-of-{want}", i, real, want)
            got = [(f["stype"], f["system"]) + ((f["byte3"],) if f["stype"] == e37.REJECT_REQ else ()) for f in frames if f["stype"] != e37.SEPARATE_REQ]
            exp = [tuple(x) for x in expect_frames]
            if got != exp:
                kind = "missing" if len(got) < len(exp) else "extra" if len(got) > len(exp) else "wrong"
                return fail(f"response:{k}:{kind}", i, [(e37.NAMES.get(g[0]), hex(g[1])) + tuple(g[2:]) for g in got], [(e37.NAMES.get(g[0]), hex(g[1])) + tuple(g[2:]) for g in exp])
            for f in frames:
                if f["stype"] == e37.REJECT_REQ and f["byte2"] != 0:
                    return fail("reject-header", i, f"byte2={f['byte2']}", "byte2 = SType of the rejected data message (0)")
            expect_delivered += len(expect_msgs)
            newly = len(rig.received) - n_recv
            if newly != expect_delivered:
                return fail(f"delivery:{k}:{'not-delivered' if newly < expect_delivered else 'delivered-while-not-selected' if expect_delivered == 0 else 'duplicated'}", i, newly, expect_delivered)
            if expect_msgs:
                got_msgs = [(r["system"], r["stream"], r["function"], r["w"], r["body"]) for r in rig.received[n_recv:]]
                if sorted(got_msgs) != sorted(expect_msgs):
                    return fail(f"delivery:{k}:other-message-than-received", i, got_msgs, expect_msgs)
        if observe is not None:
            observe.update(stats)
            observe["preempt_hits"] = len(sim.preempt_hits)
    return None


def nontrivial(stats):
    return bool(
        stats.get("reconnects", 0) >= 1
        or min(stats.get("selects", 0), stats.get("deselects", 0) + 1) >= 2
        or len(stats.get("data_states", ())) >= 2
        or stats.get("inflight", 0)
        or stats.get("select_racing_close", 0)
    )


def plan(tier, seed):
    quick = tier == "quick"
    return [("gen", {"shard": i, "n": 150 if quick else 1500, "max_ops": 25 if quick else 40}) for i in range(16)]


def run_task(name, kw, ctx):
    def body(case):
        obs = {}
        f = run_case(case, obs)
        cls = ["active" if case["active"] else "passive"]
        if obs.get("reconnects"):
            cls.append("reconnect")
        if obs.get("inflight"):
            cls.append("inflight-select")
        if obs.get("select_racing_close"):
            cls.append("select-req-racing-close")
        if obs.get("data_behind_select_rsp"):
            cls.append("data-in-the-segment-of-select-rsp")
        if obs.get("data_behind_select_req"):
            cls.append("data-behind-select-req-after-reconnect")
        if obs.get("data_behind_deselect_req"):
            cls.append("data-behind-deselect-req")
        for b in sorted(obs.get("bodies", ())):
            cls.append(f"body:{b}")
        if obs.get("reply_while_not_selected"):
            cls.append("reply-to-open-transaction-while-not-selected")
        if obs.get("preempt_hits"):
            cls.append("preemption-hit")
        if case["sched"].get("seed"):
            cls.append("random-schedule")
        for s in sorted(obs.get("data_states", ())):
            cls.append(f"data-in:{s}")
        ctx.case(case, nontrivial(obs) or f is not None, cls)
        return f

    ctx.hyp(case_strategy(kw["max_ops"]), body, kw["n"], seed_offset=kw["shard"])


def replay(case, ctx):
    return run_case(case)
