"""C17 - SECS-I line protocol delivers accepted messages intact, once; NAKs bad blocks.

Substrate: two real `SecsIProtocol` endpoints (host and equipment) on the real TcpClientConnection /
TcpServerConnection classes (SECS-I over TCP, `SecsITcpSettings`), simulated sockets, deterministic scheduler
(vf.detsim); a quarter of the generated cases runs both endpoints on the real `SerialConnection`
(secsgem/common/serial_connection.py, `SecsISettings`) over simulated serial ports (vf.detsim.serialsim, vf.serialrig) instead. A controller-driven LINE ACTOR (vf.secsirig.Line) carries every byte between the two endpoints, keeps the
line transcript, re-chunks every block by a generated plan (uniform chunk size down to single bytes, explicit cuts after
the length byte / inside the header / before and between the checksum bytes, virtual delays, a generated number of
scheduling steps granted to the endpoints between two chunks) and applies the fault plan: ONE byte of ONE block
replaced while it is carried.  Sends are serialised (one `send_message` / `send_stream_function` at a time, on a
simulated thread), nothing replies (no handler is registered on the protocol objects), so only one side transmits at a
time - the statement's precondition.

Schedules: seed 0 = run-to-block; PRNG schedules {"seed","switch"} (thread switches at shim operations); PRNG schedules
with PARKED LINE-LEVEL PREEMPTIONS {"pprob","hot"}: inside the hand-over code (secsgem/common/block_send_info.py:
resolve/wait between the protocol receiver thread and the sending application thread; ProtocolDispatcher.queue_block /
_dispatcher_thread_function between the protocol receiver thread and the dispatcher thread; the handshake functions
_process_send_queue / _process_received_data) a thread loses the processor before a source line with probability pprob
and gets it back only when every other thread has blocked, so that e.g. the waiter of a send result can overtake the
thread that publishes it. The corruption cases (generated and the systematic sweep) run under all three schedule
classes.

Back-to-back family ("rush"): ONE application thread issues 2-4 sends right behind each other (still serialised, one
side transmits); the line is carried by `carry_holding`, which - unlike Line.transfer, which lets every thread run until
it blocks between two line events - keeps a thread that was parked by a line-level preemption parked for up to `hold`
consecutive line rounds while the line makes progress without it (a descheduled dispatcher thread does not get the
processor back because a byte crosses the line) and releases it at once when the line stalls. Preemptions come from
the PRNG and/or from explicit sites {"sites": [[function, k]]} = before the k-th line executed in that function. A
systematic part enumerates EVERY single site k of the six hand-over functions for two message shapes x two hold
lengths. Oracle there: every send returns; all True => transcript is ENQ/EOT/reference block/ACK per block and
nothing else; each send that returned True => exactly one identical message_received at the peer once the line is
quiet (nothing is sent afterwards that could flush a stranded block).

Oracle (independent: frames from vf.ref.secs1, bodies from vf.ref.e5, handshake characters from SEMI E4):
  * per block of every message whose line was not yet disturbed: ENQ (sender) -> EOT (receiver) -> exactly the
    reference block bytes (sender, after EOT) -> ACK (receiver), in the emitted transcript;
  * every send call that returned True: exactly one `message_received` at the peer with identical device id, R, W,
    stream, function, system bytes and body;
  * the corrupted block: first byte the receiver answers with is NAK, no `message_received` for that message, the
    sender's call returns False;
  * no send call hangs (sender blocked, nothing in flight on the line, 3 virtual seconds without any activity).

Corrections (what the oracle deliberately does NOT demand, see RULE):
  * A send that reports failure on an undisturbed line is not forbidden by the statement: counted
    (class `clean-send-reported-failure`), not reported.
  * After the NAK the statement demands nothing more about the line. Bytes emitted after the NAK (length byte corrupted
    downwards: the receiver keeps the tail of the block in its buffer, reads it as a new ENQ and answers EOT; the sender
    reads that EOT as an ENQ ... both sides end up waiting for block bytes) and a following message whose send call
    never returns or returns False are OBSERVATIONS (classes `after-fault:*`), not violations: the implementation has
    no T1/T2 timers that would flush the line (DESIGN section 6). Only "send reported success => delivered once, intact"
    is still demanded of messages sent after the fault, in buckets of their own (`after-fault:...`).
  * A length byte corrupted UPWARDS is excluded by construction (counted): the receiver waits for bytes that never
    come; a block that never arrives is outside "a block that arrives with a wrong checksum". A length byte corrupted
    downwards is in scope only if the shortened frame (new length + 3 bytes) really has a wrong checksum (ref.secs1).
  * Raw bodies of arbitrary size ride on catalogued header-only functions (S1F1, S2F17, ...): the protocol decodes the
    body through the function catalogue before firing `message_received` (C08's subject) and header-only functions
    ignore the body, so that delivery does not depend on SECS-II validity; S2F25 <B> and S7F3 <L <A> <B>> carry valid
    bodies.
  * A message sent successfully twice with the same system bytes (retry) is expected to arrive twice; deliveries of
    sends that reported failure or never returned (other than the corrupted one) are unconstrained.

Findings on the unchanged tree (bucket keys):
  * `corrupt-block-not-answered-with-nak:length<10` - a length byte corrupted to a value below 10: SecsIBlock.decode
    raises struct.error (negative data length), the receiver thread swallows it, no NAK is sent; the tail of the block is
    then read as an ENQ and answered with EOT (the sender's call still returns False because EOT != ACK).
  * `after-fault:retry-delivered-with-stale-blocks-of-the-failed-attempt-prepended` - after a NAK in block k >= 2 of a
    multi-block message the receiver keeps blocks 1..k-1 in `_incomplete_messages`; a retry with the same system bytes
    reports success and is delivered with those stale blocks in front of its body.
"""

from __future__ import annotations

from hypothesis import strategies as st

from vf import secsirig
from vf.detsim import kernel as _kernel
from vf.detsim.patch import simulation
from vf.ref import e5, secs1
from vf.run import Failure

PROPERTY = "C17"
LEVEL = "exploration"
TECHNIQUE = (
    "property-based testing of the real SECS-I protocol threads on a simulated line under a deterministic scheduler: "
    "generated message sequences, line chunkings, thread schedules and single-byte corruptions against an independent "
    "E4 block model and line grammar"
)
RULE = (
    "Case = host/equipment assignment, 1..5 serialised sends (both directions; send_message with generated header "
    "fields or send_stream_function; body sizes 0, 1, 243, 244, 245, 488, 489, ~700, 2440 and random 0..760 bytes, i.e. "
    "1..10 blocks), per message a line plan (whole blocks | single bytes | uniform chunks | cuts after the length byte, "
    "inside the header, at the header/data boundary, before and between the checksum bytes | random cuts; virtual delays "
    "0..1.2 s; 0..30 scheduling steps between chunks or full settle), a thread schedule (run-to-block | PRNG switches at "
    "shim operations | PRNG switches + parked line-level preemptions with probability 0.1/0.25/0.5 per line inside the "
    "send-result hand-over (block_send_info.py), the dispatcher hand-over (queue_block, _dispatcher_thread_function) and "
    "the handshake functions), and at most one "
    "fault: one byte of one block replaced (length byte only downwards; header, data, checksum positions with a "
    "generated xor), optionally followed by fresh messages or a retry of the same message. Oracle: line transcript per "
    "block ENQ/EOT/reference block/ACK; send True => exactly one identical message_received at the peer; corrupted block "
    "=> first answer byte NAK, nothing delivered, send False; no send call hangs. After the fault only 'success => "
    "delivered once, intact' is demanded. Non-trivial = a multi-block message, or a plan that splits a block, or a "
    "corruption; distinct by case hash. Plus a systematic sweep: every byte position of every block (two xor values; the "
    "length byte with every smaller value) of one message with a 0- and a 2-byte body (quick) and a 244- and 245-byte "
    "body (thorough), each followed by a fresh message in the other or the same direction (a quarter of the sweep under "
    "parked preemptions in the send-result hand-over). Back-to-back family: one application thread sends 2-4 messages "
    "(0..489 bytes) right behind each other, whole bursts or uniform chunks, 0-3 explicit preemption sites (function, "
    "k-th executed line) and/or PRNG preemptions, parked threads held parked for up to 0/3/6/12/40/100 line rounds "
    "while the line progresses; plus the enumeration of every single site k of _dispatcher_thread_function, queue_block, "
    "resolve, wait, _process_received_data, _process_send_queue x 2 message shapes (two single-block messages | one "
    "two-block message; thorough: + three messages) x hold 100 (and 4 for the dispatcher function; thorough: all). Oracle there: all sends return; all True => "
    "reference transcript; True => delivered exactly once, identical, with no later traffic."
)
EXHAUSTIVE_NOTE = (
    "single-preemption sweep: every executed line k of the six hand-over functions as the one parked preemption site, x 2 "
    "message shapes (x 2 hold lengths for the dispatcher thread), run-to-block otherwise. "
    "fault sweep: all 12/14 header+data+checksum positions x 2 xor values and all 10/12 smaller length values of the 13- and "
    "15-byte blocks (quick); additionally all positions and all smaller length values of the blocks of a 244-byte and a "
    "245-byte message (thorough). Everything else is sampled."
)
ASSUMPTIONS = [
    "SECS-I over TCP (SecsITcpSettings) runs the same SecsIProtocol line code as the serial connection class, which is not executable here (no serial device); both call on_connected/on_data/on_disconnected the same way",
    "vf/ref/secs1.py block layout and checksum typed in from SEMI E4; handshake characters ENQ 05, EOT 04, ACK 06, NAK 15",
    "the line is causal and loses nothing: every byte an endpoint emits is delivered to the other, in order; chunking and delays are generated; only one byte of one block is ever altered",
    "thread interleavings are sampled at shim operations (lock/event/queue/socket calls), by a generated number of scheduling steps between chunks and by parked line-level preemptions inside the hand-over functions; only single preemption sites are enumerated",
    "a thread that lost the processor at a source line may stay descheduled while bytes cross the line (rush family: up to `hold` line rounds); code whose correctness relies on two source lines never being separated by a thread switch is treated as racy (DESIGN 3.3)",
    "hang verdict: sender thread not finished, nothing in flight, no emission during 3 virtual seconds (the line protocol has no timers)",
]
BUDGET_S = {"quick": 100, "thorough": 900}

ENQ, EOT, ACK, NAK = secsirig.ENQ, secsirig.EOT, secsirig.ACK, secsirig.NAK
RAW_SF = [(1, 1), (1, 15), (2, 17), (5, 7), (7, 19), (14, 0), (0, 0), (12, 0)]  # catalogued header-only functions
SIZES = [245, 244, 489, 1, 488, 243, 0, 700]  # hypothesis favours the front of a sampled_from list
CHUNK_CAP = 300  # chunks per message (cost bound, by construction)
UPWARD = "length byte corrupted upwards (block never arrives; no T1/T2 timers)"
# The statement does not say that the line must be usable after a NAK (see "Corrections"); flip this to turn the
# observation "send call never returns after the fault" into a failure bucket of its own.
AFTERMATH_HANG_IS_VIOLATION = False
COINCIDENCE = "length byte corrupted downwards but the shortened frame has a matching checksum"


# ---------------------------------------------------------------------------------------------- world / schedules

# hot sets for parked line-level preemptions (function names or "path/suffix.py" = every function of that file): the
# send-result hand-over between the protocol receiver thread and the application thread, the hand-over of accepted
# blocks from the protocol receiver thread to the dispatcher thread, the line handshake functions themselves
HOT_RESULT = ["common/block_send_info.py"]
HOT_DISPATCH = ["_dispatcher_thread_function", "queue_block"]
HOT_SETS = [
    HOT_RESULT,
    HOT_RESULT + HOT_DISPATCH,
    HOT_RESULT + ["_process_send_queue", "_process_received_data", "send_message"],
    HOT_DISPATCH + ["_process_received_data", "_receiver_thread_function"],
]


def make_world(sched):
    """The simulated world of one case: PRNG schedule {"seed","switch"}, parked line-level preemptions drawn by the PRNG
    {"pprob","hot"} and/or at explicit sites {"sites": [[function name, k-th traced line of that function], ...]}."""
    return simulation(
        sched_seed=sched.get("seed", 0),
        switch_prob=sched.get("switch", 0.0),
        preempts=tuple((n, k) for n, k in sched.get("sites", ())),
        preempt_prob=sched.get("pprob", 0.0),
        hot=tuple(sched.get("hot", ())),
        system_counter=sched.get("syscnt", 1000),
    )


def sched_strategy():
    return st.one_of(
        st.just({"seed": 0}),
        st.builds(lambda s, p: {"seed": s, "switch": p}, st.integers(1, 2**31), st.sampled_from([0.05, 0.3, 0.7])),
        st.builds(
            lambda s, p, q, h: {"seed": s, "switch": p, "pprob": q, "hot": list(h)},
            st.integers(1, 2**31),
            st.sampled_from([0.0, 0.05, 0.3]),
            st.sampled_from([0.1, 0.25, 0.5]),
            st.sampled_from(HOT_SETS),
        ),
    )


# ---------------------------------------------------------------------------------------------- case -> reference


def payload(n, fill):
    return bytes((fill + i * 7 + (i >> 8) * 13) & 0xFF for i in range(n))


def msg_body(m):
    k = m["kind"]
    data = payload(m["n"], m["fill"])
    if k == "raw":
        return data
    if k == "S1F1":
        return b""
    if k == "S2F25":
        return e5.encode(("B", data))
    if k == "S7F3":
        return e5.encode(("L", [("A", b"pp"), ("B", data)]))
    raise ValueError(k)


def msg_sf(m):
    k = m["kind"]
    if k == "raw":
        return tuple(m["sf"])
    return {"S1F1": (1, 1), "S2F25": (2, 25), "S7F3": (7, 3)}[k]


def resolve(case):
    """Messages with reference header fields and body; retries resolved; the function path's system bytes modelled."""
    syscnt = case.get("sched", {}).get("syscnt", 1000)
    sent_fn = {"A": 0, "B": 0}
    out = []
    for m0 in case["msgs"]:
        if "retry_of" in m0:
            base = dict(out[m0["retry_of"]]["m"])
            base["plan"] = m0.get("plan", {})
            m = base
            retry = m0["retry_of"]
        else:
            m = m0
            retry = None
        s, f = msg_sf(m)
        sender = m["from"]
        sender_is_host = case["a_host"] == (sender == "A")
        if m["via"] == "function":
            sent_fn[sender] += 1
            fields = {
                "dev": case["dev"][0 if sender == "A" else 1],
                "r": 0 if sender_is_host else 1,
                "w": 1,  # S1F1 and S2F25 are primaries with a mandatory reply (SEMI E5)
                "s": s,
                "f": f,
                "sys": (syscnt + sent_fn[sender]) & 0xFFFFFFFF,
            }
        else:
            fields = {"dev": m["dev"], "r": m["r"], "w": m["w"], "s": s, "f": f, "sys": m["sys"]}
        body = msg_body(m)
        out.append({"m": m, "fields": fields, "body": body, "frames": secs1.message_frames(fields, body), "retry_of": retry})
    return out


def n_from_size(kind, size):
    if kind in ("raw",):
        return size
    if kind == "S1F1":
        return 0
    over = 2 if kind == "S2F25" else 8
    n = size - over
    if n > 255:
        n -= 1
    return max(0, n)


# ---------------------------------------------------------------------------------------------- strategies

SPECIAL_CUTS = [1, 2, 5, 10, 11, 12, -3, -2, -1]
MODES = ["whole", "whole", "special", "special", "special", "cuts", "cuts", "mixed", "mixed", "every", "every", "bytes", "one-block-bytes"]


@st.composite
def plan_strategy(draw, lens):
    total = sum(lens)
    mode = draw(st.sampled_from(MODES))
    plan = {}
    if mode == "bytes":
        plan["every"] = 1
    elif mode == "every":
        plan["every"] = draw(st.sampled_from([2, 3, 7, 16, 64, 100, 255, 256]))
    elif mode == "one-block-bytes":
        plan["every"] = 1
        plan["only"] = [draw(st.integers(0, len(lens) - 1))]
    if mode in ("cuts", "mixed"):
        plan["cuts"] = draw(st.lists(st.lists(st.integers(1, 256), max_size=5), min_size=1, max_size=min(3, len(lens))))
    if mode in ("special", "mixed"):
        sp = draw(st.lists(st.lists(st.sampled_from(SPECIAL_CUTS), min_size=1, max_size=4), min_size=1, max_size=min(3, len(lens))))
        if "cuts" in plan:
            plan["cuts"] = [sorted(set(a) | set(b), key=lambda c: (c < 0, c)) for a, b in zip(plan["cuts"], sp + [[]] * len(plan["cuts"]))]
        else:
            plan["cuts"] = sp
    if plan.get("every") and "only" not in plan and total // plan["every"] > CHUNK_CAP:
        plan["every"] = -(-total // CHUNK_CAP)
    if mode != "whole":
        steps = draw(st.lists(st.sampled_from([-1, -1, 0, 1, 2, 3, 5, 8, 13, 30]), max_size=4))
        if steps:
            plan["steps"] = steps
        delays = draw(st.lists(st.integers(0, 4), max_size=3))
        if any(delays):
            plan["delays"] = delays
    hs = draw(st.lists(st.integers(0, 4), max_size=3))
    if any(hs):
        plan["hs"] = hs
    if draw(st.booleans()):
        plan["prio"] = 1
    return plan


@st.composite
def message_strategy(draw, idx, allow_big):
    via = draw(st.sampled_from(["message", "message", "message", "function"]))
    pool = SIZES + ([2440] if allow_big else [])
    size = draw(st.one_of(st.sampled_from(pool), st.integers(0, 760)))
    if via == "function":
        kind = draw(st.sampled_from(["S1F1", "S2F25", "S2F25"]))
    else:
        kind = draw(st.sampled_from(["raw", "raw", "S2F25", "S7F3"]))
    m = {"from": draw(st.sampled_from(["A", "B"])), "via": via, "kind": kind, "n": n_from_size(kind, size), "fill": draw(st.integers(0, 255))}
    if kind == "raw":
        m["sf"] = list(draw(st.sampled_from(RAW_SF)))
    if via == "message":
        m["dev"] = draw(st.one_of(st.sampled_from([0, 1, 0x7FFF, 0x1234]), st.integers(0, 0x7FFF)))
        m["r"] = draw(st.integers(0, 1))
        m["w"] = draw(st.integers(0, 1))
        hi = draw(st.one_of(st.sampled_from([0x10, 0x7FFFFFF, 0x8000000, 0xFFFFFEF]), st.integers(0x10, 0xFFFFFEF)))
        m["sys"] = (hi << 4) | idx
    return m


@st.composite
def case_strategy(draw):
    a_host = draw(st.booleans())
    dev = [draw(st.sampled_from([0, 1, 0x7FFF, 300])), draw(st.sampled_from([0, 1, 0x7FFF, 300]))]
    sched = draw(sched_strategy())
    if draw(st.integers(0, 5)) == 0:
        sched = dict(sched, syscnt=0xFFFFFFFE)
    with_fault = draw(st.integers(0, 8)) < 5
    n_before = draw(st.integers(0, 2)) if with_fault else draw(st.integers(1, 4))
    big_at = draw(st.integers(0, 11))  # at most one 10-block message per case, in a quarter of the cases
    msgs = [draw(message_strategy(i, allow_big=(i == big_at))) for i in range(n_before + (1 if with_fault else 0))]
    case = {"a_host": a_host, "dev": dev, "sched": sched, "msgs": msgs}
    if draw(st.integers(0, 3)) == 0:
        case["serial"] = 1  # both endpoints on the real SerialConnection (simulated serial ports) instead of SECS-I over TCP
    ref = resolve(case)
    for m, r in zip(msgs, ref):
        m["plan"] = draw(plan_strategy([len(fr) for fr in r["frames"]]))
    if with_fault:
        fi = len(msgs) - 1
        frames = ref[fi]["frames"]
        blk = draw(st.sampled_from(sorted({0, len(frames) - 1, len(frames) // 2})))
        frame = frames[blk]
        ln = frame[0]
        cls = draw(st.sampled_from(["data", "checksum", "header", "length"]))
        if cls == "data" and ln == 10:
            cls = "header"
        if cls == "length" and ln == 10 and draw(st.integers(0, 3)):
            cls = "checksum"  # every shortening of a header-only block is < 10 (one known bucket): keep that share small
        fault = {"msg": fi, "blk": blk}
        if cls == "length":
            fault["pos"] = 0
            fault["newlen"] = min(ln - 1, draw(st.one_of(st.sampled_from([100, 252, 11, 10, 253, 12, 9]), st.integers(0, 253), st.integers(10, 253))))
            if draw(st.booleans()):
                msgs[fi]["plan"].setdefault("extra", []).append([blk, fault["newlen"] + 3])
        else:
            if cls == "header":
                fault["pos"] = draw(st.integers(1, 10))
            elif cls == "data":
                fault["pos"] = draw(st.one_of(st.sampled_from([11, ln]), st.integers(11, ln)))
            else:
                fault["pos"] = ln + draw(st.integers(1, 2))
            fault["xor"] = draw(st.one_of(st.sampled_from([1, 2, 0x80, 0xFF]), st.integers(1, 255)))
        case["fault"] = fault
        n_after = draw(st.integers(0, 2))
        for k in range(n_after):
            idx = len(msgs)
            if msgs[fi]["via"] == "message" and not any("retry_of" in x for x in msgs) and draw(st.integers(0, 2)) == 0:
                m = {"retry_of": fi}
                lens = [len(fr) for fr in frames]
            else:
                m = draw(message_strategy(idx, allow_big=False))
                lens = [len(fr) for fr in resolve({**case, "msgs": msgs + [m]})[-1]["frames"]]
            m["plan"] = draw(plan_strategy(lens))
            msgs.append(m)
    return case


# ---------------------------------------------------------------------------------------------- execution + oracle


def position_class(fault, frame):
    if fault["pos"] == 0:
        return "length<10" if fault["newlen"] < 10 else "length>=10"
    pc = secs1.position_class(fault["pos"], len(frame))
    return "header" if pc.startswith("header") else pc


def fault_scope(fault, frame):
    """'in' | reason it is excluded. Decided with the reference model only."""
    if fault["pos"] != 0:
        if not 0 < fault["pos"] < len(frame) or not 0 < fault.get("xor", 0) < 256:
            return "fault position/xor outside the block"
        return "in"
    new = fault["newlen"]
    if new >= frame[0]:
        return UPWARD
    carried = bytes([new]) + frame[1:]
    short = secs1.frame_at_receiver(carried)
    if short is None:
        return UPWARD
    if secs1.checksum(short[1 : 1 + new]) == ((short[-2] << 8) | short[-1]):
        return COINCIDENCE
    if secs1.parse(short) is not None:
        return COINCIDENCE
    return "in"


def _merge(emitted):
    out = []
    for side, data in emitted:
        if out and out[-1][0] == side:
            out[-1] = (side, out[-1][1] + data)
        else:
            out.append((side, data))
    return out


def _show(ev):
    return [(s, d.hex() if len(d) <= 4 else f"{d[:3].hex()}..({len(d)} bytes)") for s, d in ev]


def _line_cls(case):
    """Substrate of a case: SECS-I over TCP (default) or the real SerialConnection on simulated serial ports."""
    if case.get("serial"):
        from vf import serialrig

        return serialrig.SerialLine
    return secsirig.Line


def _build_call(ep, r):
    import secsgem.secs.functions
    import secsgem.secsi.header
    import secsgem.secsi.message

    m, f = r["m"], r["fields"]
    if m["via"] == "function":
        if m["kind"] == "S1F1":
            fn_obj = secsgem.secs.functions.SecsS01F01()
        else:
            fn_obj = secsgem.secs.functions.SecsS02F25(payload(m["n"], m["fill"]))
        return lambda: ep.p.send_stream_function(fn_obj)
    hdr = secsgem.secsi.header.SecsIHeader(f["sys"], f["dev"], f["s"], f["f"], require_response=bool(f["w"]), from_equipment=bool(f["r"]))
    msg = secsgem.secsi.message.SecsIMessage(hdr, r["body"])
    return lambda: ep.p.send_message(msg)


def run_case(case, obs=None):
    obs = obs if obs is not None else {}
    cls = obs.setdefault("classes", [])
    ref = resolve(case)
    fault = case.get("fault")
    if fault is not None:
        frame = ref[fault["msg"]]["frames"][fault["blk"]]
        scope = fault_scope(fault, frame)
        if scope != "in":
            obs["excluded"] = scope
            return None
        pcls = position_class(fault, frame)
        cls.append(f"fault:{pcls}")
        nb = len(ref[fault["msg"]]["frames"])
        cls.append("fault-in:" + ("only-block" if nb == 1 else "first-block" if fault["blk"] == 0 else "last-block" if fault["blk"] == nb - 1 else "middle-block"))
        if fault["pos"] == 0:
            obs["upward_alternatives"] = 255 - frame[0]
    with make_world(case.get("sched", {})) as w:
        line = _line_cls(case)(w, a_is_host=bool(case["a_host"]), dev_a=case["dev"][0], dev_b=case["dev"][1])
        if not line.connect():
            return Failure("setup-failed", case, w.sim.blocked_report(), "both endpoints connected to the line")
        disturbed = False  # True from the faulted message's NAK on
        expected = []  # (receiver side, fields, body hex, phase, index)
        failed_sys = {}  # system bytes of the corrupted message -> receiver side (must not be delivered by that send)
        unconstrained = {"A": set(), "B": set()}  # system bytes of sends that reported failure / never returned without
        # being the corrupted one: the statement says nothing about their delivery
        for idx, r in enumerate(ref):
            m = r["m"]
            sender = m["from"]
            recv = line.other(sender)
            ep = line.ep(sender)
            here = fault is not None and fault["msg"] == idx
            phase = "after-fault:" if disturbed else ""
            lf = None
            if here:
                lf = {"burst": fault["blk"], "pos": fault["pos"]}
                if fault["pos"] == 0:
                    lf["newlen"] = fault["newlen"]
                else:
                    lf["xor"] = fault["xor"]
            n_before = {s: len(line.ep(s).received) for s in ("A", "B")}
            info = line.transfer(_build_call(ep, r), sender, m.get("plan", {}), lf)
            post = line.quiesce()
            obs["split"] = obs.get("split", 0) + info["split"]
            obs["chunks"] = obs.get("chunks", 0) + info["chunks"]
            kind = "retry" if r["retry_of"] is not None else "fresh"
            if info["status"] not in ("done", "hang"):
                return Failure(f"{phase}line-{info['status']}", case, info.get("error"), "line stays open")
            # ---- messages after the fault: only 'success => delivered once, intact' is demanded
            if disturbed:
                if info["status"] == "hang":
                    cls.append(f"after-fault:{kind}:send-never-returns")
                    cls.append(f"after-fault:send-never-returns:after-fault-in-{pcls}")
                    unconstrained[recv].add(r["fields"]["sys"])
                    if AFTERMATH_HANG_IS_VIOLATION:
                        return Failure(f"after-fault:send-never-returns:after-fault-in-{pcls}", case, {"line": _show(_merge(info["emitted"])[-4:]), "blocked": info["blocked"]}, "send call returns")
                    break
                if info["result"] is True:
                    cls.append(f"after-fault:{kind}:send-succeeded")
                    expected.append((recv, r["fields"], r["body"], "after-fault:", idx))
                else:
                    cls.append(f"after-fault:{kind}:send-reported-failure")
                    unconstrained[recv].add(r["fields"]["sys"])
                continue
            # ---- transcript grammar (undisturbed line, up to and including the answer to the corrupted block)
            exp = []
            for j, fr in enumerate(r["frames"]):
                bad = here and j == fault["blk"]
                exp += [(sender, bytes([ENQ]), "enq"), (recv, bytes([EOT]), "eot"), (sender, fr, "block"), (recv, bytes([NAK if bad else ACK]), "nak" if bad else "ack")]
                if bad:
                    break
            got = _merge(info["emitted"])
            for k, (side, data, label) in enumerate(exp):
                if k >= len(got):
                    if info["status"] == "hang":
                        return Failure(f"send-hangs:awaiting-{label}" + (f":{pcls}" if here and label == "nak" else ""), case, {"line": _show(got), "blocked": info["blocked"]}, "send call returns")
                    return Failure(f"transcript:missing-{label}", case, _show(got), _show([(s, d) for s, d, _ in exp]))
                gs, gd = got[k]
                if label == "nak":
                    if gs != side or gd[:1] != data:
                        return Failure(f"corrupt-block-not-answered-with-nak:{pcls}", case, {"line": _show(got[max(0, k - 3) :]), "result": info["result"]}, "receiver answers NAK (15)")
                    if len(gd) > 1 or len(got) > k + 1:
                        cls.append("after-fault:line-carries-bytes-after-nak")
                    continue
                if gs != side or gd != data:
                    return Failure(f"transcript:expected-{label}", case, {"at": k, "line": _show(got[max(0, k - 2) : k + 2])}, _show([(side, data)]))
            if not here:
                if len(got) > len(exp) or post:
                    return Failure("transcript:bytes-after-last-ack", case, _show(got[len(exp) :] + post), "nothing")
                if info["status"] == "hang":
                    return Failure("send-hangs:after-last-ack", case, {"line": _show(got[-4:]), "blocked": info["blocked"]}, "send call returns")
            if info["error_in_call"]:
                return Failure("send-raises", case, info["error_in_call"], "True/False")
            if here:
                disturbed = True
                failed_sys[r["fields"]["sys"]] = recv
                if info["status"] == "hang":
                    return Failure(f"corrupt-block:send-hangs:{pcls}", case, {"line": _show(got[-4:]), "blocked": info["blocked"]}, "send call reports failure")
                if info["result"] is not False:
                    return Failure("corrupt-block:send-reported-success", case, info["result"], False)
                newrec = [x for x in line.ep(recv).received[n_before[recv] :] if x["sys"] == r["fields"]["sys"]]
                if newrec:
                    return Failure("corrupt-block:message-delivered", case, _rec(newrec[0]), "no message_received for the message")
                if post:
                    cls.append("after-fault:line-carries-bytes-after-nak")
            else:
                if info["result"] is True:
                    expected.append((recv, r["fields"], r["body"], "", idx))
                else:
                    cls.append("clean-send-reported-failure")
                    unconstrained[recv].add(r["fields"]["sys"])
        # ---- deliveries
        line.quiesce()
        for side in ("A", "B"):
            recs = line.ep(side).received
            want = [e for e in expected if e[0] == side]
            for _, fields, body, phase, idx in want:
                if fields["sys"] in unconstrained[side]:
                    continue  # the same system bytes were also used by a send that reported failure: count unconstrained
                # a message sent successfully k times (retry with the same system bytes) arrives k times
                k = sum(1 for e in want if e[1]["sys"] == fields["sys"])
                hits = [x for x in recs if x["sys"] == fields["sys"]]
                retry_of = ref[idx]["retry_of"]
                if len(hits) != k:
                    return Failure(f"{phase}success-but-delivered-{'less' if len(hits) < k else 'more'}-than-once", case, {"successful_sends": k, "delivered": [_rec(x) for x in hits]}, "exactly one message_received per successful send")
                for h in hits:
                    hdr_diff = [f for f in secs1.MSG_FIELDS if h[f] != fields[f]]
                    if hdr_diff:
                        return Failure(f"{phase}delivered-header-differs:{'+'.join(hdr_diff)}", case, _rec(h), fields)
                    if h["body"] != body.hex():
                        if retry_of is not None and fault is not None and retry_of == fault["msg"]:
                            stale = b"".join(secs1.split(body)[: fault["blk"]])
                            if stale and bytes.fromhex(h["body"]) == stale + body:
                                return Failure("after-fault:retry-delivered-with-stale-blocks-of-the-failed-attempt-prepended", case, {"delivered_len": len(h["body"]) // 2, "sent_len": len(body), "stale_blocks": fault["blk"]}, "identical body")
                        return Failure(f"{phase}delivered-body-differs", case, _bodydiff(bytes.fromhex(h["body"]), body), "identical body")
            wanted_sys = {f["sys"] for _, f, _, _, _ in want}
            for x in recs:
                if x["sys"] not in wanted_sys and x["sys"] not in unconstrained[side]:
                    if failed_sys.get(x["sys"]) == side:
                        return Failure("after-fault:failed-message-delivered-later", case, _rec(x), "no delivery of a message whose send failed")
                    return Failure(("after-fault:" if disturbed else "") + "unexpected-delivery", case, _rec(x), "only messages that were sent")
        if w.sim.thread_errors and not disturbed:
            return Failure("thread-exception", case, w.sim.thread_errors[:2], "no uncaught exception")
    return None


def _rec(x):
    return {k: x[k] for k in ("dev", "r", "w", "s", "f", "sys")} | {"body_len": len(x["body"]) // 2}


def _bodydiff(got, exp):
    n = min(len(got), len(exp))
    first = next((i for i in range(n) if got[i] != exp[i]), n)
    return f"delivered {len(got)} bytes, sent {len(exp)}, first difference at offset {first}"


# ---------------------------------------------------------------------------------------------- classification


def classify(case, obs):
    ref = resolve(case)
    cls = list(obs.get("classes", []))
    nblocks = [len(r["frames"]) for r in ref]
    for n in nblocks:
        cls.append("blocks:" + ("1" if n == 1 else "2" if n == 2 else "3" if n == 3 else "4-9" if n < 10 else ">=10"))
    cls.append("substrate:serial-connection" if case.get("serial") else "substrate:secs-i-over-tcp")
    for r in ref:
        sender_is_host = case["a_host"] == (r["m"]["from"] == "A")
        cls.append("dir:host->equipment" if sender_is_host else "dir:equipment->host")
        cls.append("sender:tcp-client" if r["m"]["from"] == "A" else "sender:tcp-server")
        cls.append("via:" + r["m"]["via"])
        n = len(r["body"])
        if n in (0, 1, 243, 244, 245, 488, 489, 2440):
            cls.append(f"body:{n}")
        pl = r["m"].get("plan", {})
        if pl.get("every") == 1:
            cls.append("plan:single-bytes")
        for cl in pl.get("cuts", []):
            for c in cl:
                if c == 1:
                    cls.append("cut:after-length-byte")
                elif 2 <= c <= 10:
                    cls.append("cut:inside-header")
                elif c == 11:
                    cls.append("cut:header/data")
                elif c == -2:
                    cls.append("cut:before-checksum")
                elif c == -1:
                    cls.append("cut:between-checksum-bytes")
        if any(s >= 0 for s in pl.get("steps", [])):
            cls.append("plan:partial-scheduling-between-chunks")
        if pl.get("delays") or pl.get("hs"):
            cls.append("plan:delays")
        if pl.get("extra"):
            cls.append("cut:at-end-of-shortened-frame")
    if len({r["m"]["from"] for r in ref}) == 2:
        cls.append("both-directions-in-one-case")
    if case["sched"].get("seed"):
        cls.append("random-schedule")
    if case["sched"].get("pprob"):
        cls.append("parked-preemptions")
        if case.get("fault") is not None and "excluded" not in obs and "common/block_send_info.py" in case["sched"].get("hot", ()):
            cls.append("parked-preemptions:send-result-hand-over-of-a-corrupted-block")
    if case["sched"].get("syscnt"):
        cls.append("system-counter-wraps")
    if any(r["retry_of"] is not None for r in ref):
        cls.append("retry-after-fault")
    if obs.get("split"):
        cls.append("block-split-on-line")
    nontrivial = bool(max(nblocks) > 1 or obs.get("split") or (case.get("fault") is not None and "excluded" not in obs))
    return nontrivial, sorted(set(cls))


def body_fn(ctx):
    def body(case):
        obs = {}
        f = run_case(case, obs)
        if "excluded" in obs:
            ctx.exclude(obs["excluded"])
            return None
        if obs.get("upward_alternatives"):
            ctx.exclude(UPWARD, obs["upward_alternatives"])
        nt, cls = classify(case, obs)
        ctx.case(case, nt, cls)
        if any(c.startswith("after-fault:send-never-returns") for c in cls):
            ctx.note(
                "observation outside the statement: after a length byte corrupted downwards was answered with NAK, the tail of "
                "that block stays in the receiver's buffer and is read as a new ENQ; both endpoints end up waiting for block "
                "bytes and every later send call blocks forever (no T1/T2 timers); counted in classes after-fault:*"
            )
        return f

    return body


def sweep_cases(size, quick):
    """Systematic fault sweep: EVERY byte position of every block of one message (header, data, checksum positions with
    two xor values; the length byte with every smaller value), followed by one fresh message."""
    base = {"from": "A", "via": "message", "kind": "raw", "n": size, "fill": 0x31, "sf": [1, 1], "dev": 1, "r": 0, "w": 1, "sys": 0x100}
    follow = {"from": "B", "via": "message", "kind": "S2F25", "n": 3, "fill": 7, "dev": 2, "r": 1, "w": 0, "sys": 0x201, "plan": {}}
    plans = [{}, {"every": 1}, {"cuts": [[1, -2, -1]]}, {"every": 5, "steps": [0, 2, 7]}]
    probe = {"a_host": True, "dev": [0, 0], "sched": {"seed": 0}, "msgs": [dict(base, plan={})]}
    frames = resolve(probe)[0]["frames"]
    k = 0
    for blk, fr in enumerate(frames):
        ln = fr[0]
        faults = [{"msg": 0, "blk": blk, "pos": pos, "xor": x} for pos in range(1, ln + 3) for x in ((0x01, 0x80) if quick or ln < 100 else (0x01 if pos % 2 else 0x80,))]
        faults += [{"msg": 0, "blk": blk, "pos": 0, "newlen": nl} for nl in range(0, ln)]
        for flt in faults:
            k += 1
            pl = dict(plans[k % len(plans)])
            if pl.get("every") == 1 and ln > 60:
                pl = {"every": 1, "only": [blk]} if k % 8 == 1 else {"cuts": [[flt["pos"], flt["pos"] + 1]]}
            if flt["pos"] == 0 and k % 3 == 0:
                pl = dict(pl, extra=[[blk, flt["newlen"] + 3]])
            sched = {"seed": 1000 + k, "switch": 0.3} if k % 4 == 0 else {"seed": 2000 + k, "switch": 0.05, "pprob": 0.3, "hot": HOT_RESULT} if k % 4 == 2 else {"seed": 0}
            yield {"a_host": bool(k % 2), "dev": [0, 0], "sched": sched, "msgs": [dict(base, **{"from": "A" if k % 3 else "B"}, plan=pl), dict(follow, **{"from": "B" if k % 5 else "A"})], "fault": flt}


# --------------------------------------------------------------------------------------------
# two application threads of ONE endpoint send at the same time: still only one side transmits, but the blocks of the
# two messages interleave on the line (E4 allows that); both must arrive once and intact (added after a seeded change
# that dropped the partially received message whenever the first block of another message arrived)


@st.composite
def pair_strategy(draw):
    sizes = draw(st.lists(st.sampled_from([0, 1, 243, 244, 245, 488, 489, 700]), min_size=2, max_size=3))
    return {
        "pair": {"from": draw(st.sampled_from(["A", "B"])), "sizes": sizes, "fill": draw(st.integers(0, 255)), "every": draw(st.sampled_from([0, 0, 1, 16, 100]))},
        "a_host": draw(st.booleans()),
        "dev": [draw(st.integers(0, 32767)), draw(st.integers(0, 32767))],
        "sched": draw(st.one_of(st.just({"seed": 0}), st.builds(lambda x, p: {"seed": x, "switch": p}, st.integers(1, 2**31), st.sampled_from([0.1, 0.5])))),
    }


def run_pair(case, obs=None):
    pr = case["pair"]
    sender = pr["from"]
    msgs = [{"from": sender, "via": "message", "kind": "raw", "n": n, "fill": (pr["fill"] + 17 * i) & 0xFF, "sf": [1, 1], "dev": 1, "r": 0, "w": 0, "sys": 0x9000 + i, "plan": {}} for i, n in enumerate(pr["sizes"])]
    ref = resolve({"msgs": msgs, "a_host": case["a_host"], "dev": case["dev"], "sched": case.get("sched", {})})
    with make_world(case.get("sched", {})) as w:
        line = _line_cls(case)(w, a_is_host=bool(case["a_host"]), dev_a=case["dev"][0], dev_b=case["dev"][1])
        if not line.connect():
            return Failure("setup-failed", case, w.sim.blocked_report(), "both endpoints connected to the line")
        ep = line.ep(sender)
        recv = line.other(sender)
        calls = [_build_call(ep, r) for r in ref]
        thr_mod = __import__("secsgem.common.protocol_dispatcher", fromlist=["threading"]).threading
        results = [None] * len(calls)

        def fn():
            ths = []
            for i, c in enumerate(calls):
                def run(i=i, c=c):
                    results[i] = c()

                t = thr_mod.Thread(target=run, name=f"app-sender-{i}")
                t.start()
                ths.append(t)
            for t in ths:
                t.join()
            return list(results)

        info = line.transfer(fn, sender, {"every": pr["every"]})
        line.quiesce()
        if info["status"] != "done":
            return Failure(f"pair:send-{info['status']}", case, {"blocked": info.get("blocked"), "error": info.get("error")}, "both send calls return")
        if info["error_in_call"]:
            return Failure("pair:send-raises", case, info["error_in_call"], "True/False")
        recs = line.ep(recv).received
        multi = sum(1 for r in ref if len(r["frames"]) > 1)
        if obs is not None:
            obs.setdefault("classes", []).append("pair:concurrent-senders")
            if multi:
                obs["classes"].append("pair:multi-block-interleavable")
        for r, ok in zip(ref, info["result"] or []):
            if ok is not True:
                continue
            hits = [x for x in recs if x["sys"] == r["fields"]["sys"]]
            if len(hits) != 1:
                return Failure("pair:success-but-delivered-" + ("less" if not hits else "more") + "-than-once", case, [_rec(x) for x in hits], "exactly one message_received per successful send")
            if hits[0]["body"] != r["body"].hex():
                return Failure("pair:delivered-body-differs", case, _bodydiff(bytes.fromhex(hits[0]["body"]), r["body"]), "identical body")
            hdr_diff = [f for f in secs1.MSG_FIELDS if hits[0][f] != r["fields"][f]]
            if hdr_diff:
                return Failure("pair:delivered-header-differs:" + "+".join(hdr_diff), case, _rec(hits[0]), r["fields"])
    return None


# --------------------------------------------------------------------------------------------
# ONE application thread sends 2-4 messages right behind each other (serialised sends, one side transmits) while
# threads of either endpoint may be parked at a source line for several line round trips: a preempted thread does not
# get the processor back just because a byte crosses the line. `Line.transfer` settles every thread between two line
# events, so a thread parked by a line-level preemption is always resumed before the next byte moves; the carrier below
# keeps parked threads parked for up to `hold` consecutive line rounds as long as the line makes progress without them
# (added after a seeded change that lost the dispatcher wake-up of a block queued while the dispatcher thread was
# between "queue is empty" and clearing its trigger - the message was ACKed, the send call returned True, nothing was
# delivered unless a later block woke the dispatcher again).


def _pump_holding_parked(sim):
    """Run every runnable thread until it blocks, but leave parked threads parked. True if a thread is still parked."""

    def stop():
        parked = False
        for t in sim.threads:
            if t.state in (_kernel.RUNNABLE, _kernel.SPIN):
                return False
            if t.state == _kernel.PARKED:
                parked = True
        return parked

    return sim.pump(stop=stop) == "stop"


def carry_holding(line, thr, every, hold, max_rounds=20000):
    """Carry the line while `thr` (a simulated application thread) sends; whole bursts or uniform chunks of `every` bytes.

    Between two line events every runnable thread runs until it blocks; threads parked by a line-level preemption stay
    parked for at most `hold` consecutive rounds and are released at once when the line stalls without them."""
    sim = line.sim
    t0 = len(line.transcript)
    pending = {"A": [], "B": []}
    info = {"chunks": 0, "held_rounds": 0, "longest_hold": 0}
    held = idle = rounds = 0
    while True:
        rounds += 1
        if rounds > max_rounds:
            info["status"] = "runaway"
            break
        if held < hold:
            still = _pump_holding_parked(sim)
        else:
            sim.settle()
            still = False
        held = held + 1 if still else 0
        if still:
            info["held_rounds"] += 1
            info["longest_hold"] = max(info["longest_hold"], held)
        emitted = list(line._collect())  # noqa: SLF001
        for side, data in emitted:
            dst = line.other(side)
            if len(data) > 1 and every > 0:
                pending[dst] += [data[x : x + every] for x in range(0, len(data), every)]
            else:
                pending[dst].append(data)
        delivered = False
        for side in ("A", "B"):
            if pending[side]:
                chunk = pending[side].pop(0)
                try:
                    line.ep(side).sock.send(chunk)
                except OSError as exc:
                    info["status"] = "line-closed"
                    info["error"] = repr(exc)
                    break
                line.delivered.append((side, chunk, sim.now))
                info["chunks"] += 1
                delivered = True
                break
        if "status" in info:
            break
        if emitted or delivered:
            idle = 0
            continue
        if still:  # the line waits for a parked thread: give it the processor back
            held = hold
            continue
        if thr.state == "DONE":
            info["status"] = "done"
            break
        idle += 1
        if idle > 3:
            info["status"] = "hang"
            break
        sim.advance(1.0)
    info["emitted"] = [(s_, d) for (s_, d, _) in line.transcript[t0:]]
    info["blocked"] = sim.blocked_report() if info["status"] != "done" else []
    return info


@st.composite
def rush_strategy(draw):
    sizes = draw(st.lists(st.sampled_from([0, 0, 1, 7, 244, 245, 489]), min_size=2, max_size=4))
    hot = draw(st.sampled_from([HOT_DISPATCH, HOT_DISPATCH, HOT_DISPATCH + HOT_RESULT, HOT_SETS[3], HOT_SETS[2]]))
    n_blocks = sum(secs1.n_blocks(n) for n in sizes)
    # explicit sites: the k-th line executed inside one of the hand-over functions (counted over both endpoints); a
    # dispatcher pass is about 9 lines, queue_block 2, resolve/wait 2 each
    site = st.one_of(
        st.tuples(st.just("_dispatcher_thread_function"), st.integers(1, 6 + 10 * n_blocks)),
        st.tuples(st.just("_dispatcher_thread_function"), st.integers(1, 6 + 10 * n_blocks)),
        st.tuples(st.sampled_from(["queue_block", "resolve", "wait"]), st.integers(1, 2 * n_blocks)),
        st.tuples(st.just("_process_received_data"), st.integers(1, 14 * n_blocks)),
    )
    sites = draw(st.lists(site, min_size=0, max_size=3, unique=True))
    pprob = draw(st.sampled_from([0.0, 0.0, 0.05, 0.1, 0.2])) if sites else draw(st.sampled_from([0.05, 0.1, 0.2, 0.35]))
    return {
        "rush": {
            "from": draw(st.sampled_from(["A", "B"])),
            "sizes": sizes,
            "fill": draw(st.integers(0, 255)),
            "w": draw(st.integers(0, 1)),
            "every": draw(st.sampled_from([0, 0, 0, 1, 16, 100])),
            "hold": draw(st.sampled_from([0, 3, 6, 12, 40, 40, 100, 100])),
        },
        "a_host": draw(st.booleans()),
        "dev": [draw(st.integers(0, 32767)), draw(st.integers(0, 32767))],
        "sched": {
            "seed": draw(st.integers(1, 2**31)),
            "switch": draw(st.sampled_from([0.0, 0.05, 0.3])),
            "pprob": pprob,
            "hot": list(hot) if pprob else [],
            "sites": [list(x) for x in sites],
        },
    }


def run_rush(case, obs=None):
    ru = case["rush"]
    sender = ru["from"]
    sender_is_host = case["a_host"] == (sender == "A")
    msgs = [
        {"from": sender, "via": "message", "kind": "raw", "n": n, "fill": (ru["fill"] + 29 * i) & 0xFF, "sf": [1, 1], "dev": 1, "r": 0 if sender_is_host else 1, "w": ru.get("w", 0), "sys": 0x9100 + i, "plan": {}}
        for i, n in enumerate(ru["sizes"])
    ]
    ref = resolve({"msgs": msgs, "a_host": case["a_host"], "dev": case["dev"], "sched": case.get("sched", {})})
    cls = obs.setdefault("classes", []) if obs is not None else []
    with make_world(case.get("sched", {})) as w:
        line = _line_cls(case)(w, a_is_host=bool(case["a_host"]), dev_a=case["dev"][0], dev_b=case["dev"][1])
        if not line.connect():
            return Failure("setup-failed", case, w.sim.blocked_report(), "both endpoints connected to the line")
        ep = line.ep(sender)
        recv = line.other(sender)
        calls = [_build_call(ep, r) for r in ref]
        results = []

        def fn():
            for c in calls:
                results.append(c())

        thr = w.sim.spawn(fn, "sender-" + sender)
        info = carry_holding(line, thr, ru["every"], ru["hold"])
        post = line.quiesce()
        n_parks = len(w.sim.preempt_hits)
        if obs is not None:
            obs["parks"] = n_parks
        cls.append("rush:back-to-back-sends")
        cls.append("rush:blocks:" + ("2" if sum(len(r["frames"]) for r in ref) == 2 else "3-4" if sum(len(r["frames"]) for r in ref) <= 4 else ">=5"))
        cls.append("rush:preemptions:" + ("explicit-sites" if case["sched"].get("sites") else "") + ("+" if case["sched"].get("sites") and case["sched"].get("pprob") else "") + ("prng" if case["sched"].get("pprob") else ""))
        cls.append("rush:parks:" + ("0" if not n_parks else "1-3" if n_parks <= 3 else ">=4"))
        cls.append("rush:thread-held-parked-over-line-rounds:" + ("0" if not info["longest_hold"] else "1-3" if info["longest_hold"] <= 3 else ">=4"))
        if any(name == "_dispatcher_thread_function" for name, _, _ in w.sim.preempt_hits) and info["longest_hold"] >= 4:
            cls.append("rush:dispatcher-parked+hold>=4-rounds")
        if info["status"] != "done":
            if info["status"] == "hang":
                return Failure("rush:send-hangs", case, {"line": _show(_merge(info["emitted"])[-4:]), "blocked": info["blocked"], "results": list(results)}, "every send call returns")
            return Failure(f"rush:line-{info['status']}", case, info.get("error"), "line stays open")
        if thr.error is not None:
            return Failure("rush:send-raises", case, repr(thr.error), "True/False")
        if all(r is True for r in results):
            exp = []
            for r in ref:
                for fr in r["frames"]:
                    exp += [(sender, bytes([ENQ]), "enq"), (recv, bytes([EOT]), "eot"), (sender, fr, "block"), (recv, bytes([ACK]), "ack")]
            got = _merge(info["emitted"])
            for k, (side, data, label) in enumerate(exp):
                if k >= len(got):
                    return Failure(f"rush:transcript:missing-{label}", case, _show(got[-4:]), _show([(side, data)]))
                if got[k] != (side, data):
                    return Failure(f"rush:transcript:expected-{label}", case, {"at": k, "line": _show(got[max(0, k - 2) : k + 2])}, _show([(side, data)]))
            if len(got) > len(exp) or post:
                return Failure("rush:transcript:bytes-after-last-ack", case, _show(got[len(exp) :] + post), "nothing")
        else:
            cls.append("clean-send-reported-failure")
        recs = line.ep(recv).received
        ok_sys = set()
        for r, ok in zip(ref, results):
            if ok is not True:
                continue
            ok_sys.add(r["fields"]["sys"])
            hits = [x for x in recs if x["sys"] == r["fields"]["sys"]]
            if len(hits) != 1:
                last = r is ref[-1]
                return Failure(
                    "rush:success-but-delivered-" + ("less" if not hits else "more") + "-than-once",
                    case,
                    {"results": list(results), "message": ref.index(r), "is_last_message": last, "delivered": [_rec(x) for x in recs], "parks": [list(h) for h in w.sim.preempt_hits[-6:]]},
                    "exactly one message_received per successful send",
                )
            hdr_diff = [f for f in secs1.MSG_FIELDS if hits[0][f] != r["fields"][f]]
            if hdr_diff:
                return Failure("rush:delivered-header-differs:" + "+".join(hdr_diff), case, _rec(hits[0]), r["fields"])
            if hits[0]["body"] != r["body"].hex():
                return Failure("rush:delivered-body-differs", case, _bodydiff(bytes.fromhex(hits[0]["body"]), r["body"]), "identical body")
        if all(r is True for r in results):
            extra = [x for x in recs if x["sys"] not in ok_sys] + line.ep(sender).received
            if extra:
                return Failure("rush:unexpected-delivery", case, _rec(extra[0]), "only messages that were sent")
        if w.sim.thread_errors:
            return Failure("rush:thread-exception", case, w.sim.thread_errors[:2], "no uncaught exception")
    return None


# systematic part of the rush family: ONE parked preemption at the k-th executed line of one hand-over function, for every
# k the run reaches, the parked thread held over the following line rounds (hold 100 = until the line stalls or the
# sends are through, hold 4 = about one block; the quick tier uses hold 4 for the dispatcher function only: the line
# needs the threads that run the other five functions, stalls without them and releases them at once whatever the hold)
# - every single place where one of these threads can lose the processor
RUSH_SWEEP_FUNCS = ["_dispatcher_thread_function", "queue_block", "resolve", "wait", "_process_received_data", "_process_send_queue"]
RUSH_SWEEP_SHAPES = [[0, 0], [245], [1, 244, 0]]
RUSH_SWEEP_KMAX = 150


def rush_sweep_case(func, shape, hold, k):
    return {
        "rush": {"from": "A" if k % 2 else "B", "sizes": list(shape), "fill": 0x40 + k, "w": int(k % 3 == 0), "every": 0, "hold": hold},
        "a_host": bool((k // 2) % 2),
        "dev": [0, 0],
        "sched": {"seed": 0, "sites": [[func, k]]},
    }


def plan(tier, seed):
    quick = tier == "quick"
    per = 100 if quick else 1250
    tasks = []  # the systematic sweeps first: they must not be starved when the budget is hit on a loaded machine
    for size in (0, 2) if quick else (245, 244, 0, 2):
        of = 1 if size < 100 else 8
        tasks += [("sweep", {"size": size, "shard": i, "of": of}) for i in range(of)]
    tasks += [("rushsweep", {"func": fn, "shape": sh, "hold": hold}) for fn in RUSH_SWEEP_FUNCS for sh in (RUSH_SWEEP_SHAPES[:2] if quick else RUSH_SWEEP_SHAPES) for hold in ((100, 4) if fn == "_dispatcher_thread_function" or not quick else (100,))]
    tasks += [("gen", {"shard": i, "n": per}) for i in range(16)]
    tasks += [("pair", {"shard": i, "n": 12 if quick else 300}) for i in range(4)]
    tasks += [("rush", {"shard": i, "n": 30 if quick else 700}) for i in range(8)]
    return tasks


def run_task(name, kw, ctx):
    if name == "pair":

        def pbody(case):
            obs = {}
            f = run_pair(case, obs)
            ctx.case(case, True, obs.get("classes", []))
            return f

        ctx.hyp(pair_strategy(), pbody, kw["n"], seed_offset=700 + kw["shard"])
        return
    if name == "rushsweep":
        beyond = 0  # A and B alternate as sender: stop after two consecutive k that no thread reached
        for k in range(1, RUSH_SWEEP_KMAX + 1):
            if ctx.out_of_time() or beyond >= 2:
                break
            case = rush_sweep_case(kw["func"], kw["shape"], kw["hold"], k)
            obs = {}
            f = run_rush(case, obs)
            if not obs.get("parks"):
                beyond += 1
                ctx.exclude("rush sweep: preemption site beyond the last executed line of the function")
                continue
            beyond = 0
            ctx.count("rushsweep")
            ctx.case(case, True, obs.get("classes", []) + [f"rushsweep:{kw['func']}", f"rushsweep:hold:{kw['hold']}"])
            ctx.report(f)
        return
    if name == "rush":

        def rbody(case):
            obs = {}
            f = run_rush(case, obs)
            ctx.case(case, True, obs.get("classes", []))
            return f

        ctx.hyp(rush_strategy(), rbody, kw["n"], seed_offset=800 + kw["shard"])
        return
    body = body_fn(ctx)
    if name == "gen":
        ctx.hyp(case_strategy(), body, kw["n"], seed_offset=kw["shard"])
    else:
        for i, case in enumerate(sweep_cases(kw["size"], ctx.tier == "quick")):
            if i % kw["of"] != kw["shard"]:
                continue
            if ctx.out_of_time():
                break
            ctx.count("sweep")
            ctx.report(body(case))


def replay(case, ctx):
    if "pair" in case:
        return run_pair(case)
    if "rush" in case:
        return run_rush(case)
    return run_case(case)
