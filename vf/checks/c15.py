"""C15 - SML text of any item parses back to the same item; the parser terminates.

Three populations, one oracle each:

(a) round trip: plain item trees (vf.gen.items: all 15 Item types, empty items, nesting up to 30, A/J text over the
    whole byte repertoire with the tokenizer-relevant characters over-represented) are built as secsgem.secs.items
    objects; `Item.from_sml(item.to_sml())` must return the same class structure and the same `encode()` bytes.
    Long items (class family long:*, case form {"k": "rtl", "spec": ...}: a compact pattern/count spec that expand_long
    turns into the explicit tree) make the SML text longer than any buffer a tokenizer could read it through: one A/J
    item of 1 000 .. 98 000 characters (lengths within +-24 of 1024*k, 4096*k, 8192*k, 65536, or anywhere up to 21 000;
    a repeated 1..9 byte pattern of letters, tokenizer-special characters and non-printable bytes, single bytes replaced
    next to multiples of 1024), one numeric/binary/boolean item of 200 .. 9 000 elements, or a list of 60 .. 1 800
    short items, optionally nested 1..5 deep with small siblings. The classes long:lit-straddles-N / long:bare-
    straddles-N / long:quote-next-to-N / long:*-edge-at-N (N = 1024, 4096, 8192, 65536) say what kind of token of the
    produced text lies across / next to a multiple of N. A failure that disappears when the same spec is cut down to
    24 elements gets the bucket prefix `long-text:`.
(b) mutations of valid SML (base text = secsgem's own to_sml output or the text of an independent SML writer in
    several layouts): one closing `>` outside literals deleted; one type name replaced by an unknown identifier;
    the closing quote of one literal dropped (termination only); plus token-level edit noise (delete/insert/
    replace/duplicate/swap/truncate).
(c) random strings over the SML token alphabet.
For (b,c) - and for the parse half of (a) as well - the call must terminate: line events inside secsgem/secs/*.py
are counted with sys.settrace and more than 60*len + 100*tokens + 2000 of them is the violation
"step-bound-exceeded" (measured need is < 27*len + 50*tokens + 200, i.e. linear, so the bound is linear too: under a
quadratic allowance a non-terminating `data += ...` loop copies gigabytes before it is stopped; a wall clock is never
consulted). The call must end with an item or an exception, and it must RAISE whenever vf.ref.smllex says that the
first item of the text has an opening bracket without its closing bracket or that a bare token in type position
(directly after `<`) inside the first item is not one of the 15 type names.

Corrections (things the statement does not demand, so the check does not either)
  * Text after the first complete item (`< U1 1 > junk`, `< U1 1 > < X >`) is not looked at by `from_sml` (it reads
    one item from a token stream by design); brackets and type names are judged inside the first item only.
  * No demand when the first token is not `<`, for an extra `]`, for a non-bare token in type position, for a length
    `[n]` that disagrees with the element count (`< L [0] < U1 1 > >` is accepted; not forbidden by the statement).
  * Type names are compared case-insensitively over ASCII (`< u1 1 >` is accepted by secsgem; letter case is not
    pinned by the statement). A name with a non-ASCII letter is unknown.
  * Rejection is demanded only where lexing is not open to interpretation: never when smllex flags the text
    (unterminated literal, quote inside a bare token, exotic white space) and, for random strings and fuzz input,
    never when the text contains a quote character at all.
  * Design-time observation "a trailing token at end of text is dropped by the tokenizer" (`SMLParser("< U1 1")`
    has no token `1`): it cannot change what `Item.from_sml` returns - an item is only returned from tokens that
    precede the dropped one, and the dropped token never is a closing bracket (operators are emitted at once).
    The statement is about `from_sml` results, so this is recorded as an observation (class
    `info:tokenizer-drops-trailing-token`), not as a violation.
  * inf/NaN floats cannot be put into ItemF4/ItemF8 at all (constructor range check) - excluded by construction.
  * An item whose own `encode()` differs from the E5 reference is C14's business: excluded and counted.

Root-cause buckets. Existing defects have a trigger that can be read off the input, so the generators produce
"clean" populations without the trigger by construction (classes trig:none / dot:no) next to "raw" ones, and a
failing tree is attributed leaf by leaf (generic causes first), so that registering a bucket as known leaves the
rest of the space searched.

Failing cases are reduced by the check itself (minimise_tree / minimise_text: greedy, bounded by evaluation and step
counts, bucket-preserving) and ctx.hyp is called with shrink=False: the runner's Hypothesis shrink phase is bounded by
wall clock and ends in a Flaky error when it runs out on 30-deep trees on a loaded machine.
"""

from __future__ import annotations

import json
import os
import random
import shutil
import subprocess
import sys
import tempfile

from hypothesis import strategies as st

from vf.gen import items as gi
from vf.ref import e5, smllex
from vf.run import Failure

PROPERTY = "C15"
LEVEL = "exploration"
TECHNIQUE = (
    "property-based testing (Hypothesis) of the SML round trip against the E5 reference bytes, mutation/grammar-noise "
    "and random-token-string testing of the parser against an independent lexer (vf/ref/smllex.py) with a "
    "deterministic step bound, exhaustive byte and type-name enumerations, coverage-guided fuzzing (atheris) in the "
    "thorough tier"
)
RULE = (
    "(a) item trees -> Item objects; from_sml(to_sml()) must have the same classes and encode() bytes (which must equal "
    "the independent E5 encoding of the tree); plus long items (one text item of 1k..98k characters around multiples of "
    "1024/4096/8192/65536, one numeric item of 200..9000 elements, lists of 60..1800 short items) whose SML text puts "
    "literals, bare tokens and brackets across and next to buffer-size offsets. (b) valid SML (secsgem to_sml or an independent writer, 5 layouts) with "
    "one closing '>' deleted / one type name replaced by an unknown identifier / one closing quote dropped / 1-4 token "
    "edits; (c) random token strings. Oracle (b,c): line-event count inside secsgem/secs <= 60n+100*tokens+2000, result is "
    "an Item or an exception, exception required when ref.smllex finds the first item unbalanced or a type name "
    "unknown (only for text whose lexing is unambiguous; random strings: only without quote characters). "
    "Non-trivial = A/J text containing a tokenizer-special character (<>[]'\". or white space/control), or nesting "
    ">= 3, or a mutation removing exactly one bracket, or (random/edited strings) a text in which smllex finds an "
    "item start and a demand to reject; distinct by hash of the plain case."
)
ASSUMPTIONS = [
    "vf/ref/e5.py is a correct E5 encoder (hand-computed vectors)",
    "SML lexical conventions as written in vf/ref/smllex.py: blank/tab/CR/LF separate tokens, <>[] are single tokens, "
    "a literal runs from a token-initial quote to the next identical quote; type names are the 15 ASCII names, "
    "case-insensitive",
    "termination is judged by a step bound that is 2.3x-3.5x the measured worst case (27 line events per character "
    "+ 50 per token) on 0..1200 character inputs; class info:steps-over-half-of-bound counts calls that came near it",
]
BUDGET_S = {"quick": 110, "thorough": 900}

SEC_PATH = os.sep + os.path.join("secsgem", "secs") + os.sep

# bytes whose character interacts with the tokenizer / the printable-run logic of ItemStr.to_sml
SPECIAL_BYTES = sorted(
    set(b"<>[]'\".\\~ \t\n\r\x0b\x0c\x00\x01\x1f\x7f0x") | {0x80, 0xA0, 0xA1, 0xA5, 0xB1, 0xDF, 0xE0, 0xFF}
)
TOKENIZER_SPECIAL = set(b"<>[]'\". \t\n\r\x0b\x0c") | set(range(0, 32)) | {0x7F}
JIS_MAPPED = {0x5C, 0x7E} | set(range(0xA1, 0xE0))  # bytes whose JIS-8 character is not chr(byte)
DQUOTE = 0x22

B_DQUOTE = "str-dquote-in-literal"
B_JIS = "jis8-codepoint-not-byte"
B_DOT = "list-dot-terminator"
B_STEPS = "step-bound-exceeded"
B_MISSING = "accepts-missing-closing-bracket"
B_UNKNOWN = "accepts-unknown-type-name"
B_CASEFOLD = "type-name-nonascii-casefold"


def step_bound(n, ntokens):
    """Allowed line events inside secsgem/secs for a text of n characters and ntokens (reference lexer) tokens.

    Measured need: tokenizer <= 27 per character, parser <= 50 per token, < 200 fixed (error message included).
    Linear on purpose: the loops that can fail to terminate accumulate (`data += ...`), a generous quadratic
    allowance lets them copy gigabytes before they are stopped. secsgem never sees more tokens than the reference
    lexer (it only merges more text into literals), so the token term cannot be too small.
    """
    return 60 * n + 100 * ntokens + 2000


# --------------------------------------------------------------------------------------------
# running secsgem under the step bound


class _StepLimit(BaseException):
    pass


STEPS_USED = [0]  # line events spent so far in this process (budget for the minimisers)
NEAR_BOUND = [0]  # calls that ended normally but used more than half of their allowance (margin monitor)


class Outcome:
    __slots__ = ("kind", "value", "steps")

    def __init__(self, kind, value, steps):
        self.kind = kind  # "item" | "raise" | "steps"
        self.value = value
        self.steps = steps


def bounded_from_sml(text, ntokens=None):
    """Item.from_sml(text) with a bound on line events inside secsgem/secs. Deterministic."""
    from secsgem.secs.items import Item

    if ntokens is None:
        ntokens = len(smllex.lex(text)[0])
    limit = step_bound(len(text), ntokens)
    n = [0]

    def local(frame, event, arg):
        if event == "line":
            n[0] += 1
            if n[0] > limit:
                raise _StepLimit()
        return local

    def glob(frame, event, arg):
        if SEC_PATH in frame.f_code.co_filename:
            return local
        return None

    old = sys.gettrace()
    sys.settrace(glob)
    try:
        try:
            value = Item.from_sml(text)
        finally:
            sys.settrace(old)
            STEPS_USED[0] += n[0]
    except _StepLimit:
        return Outcome("steps", None, n[0])
    except Exception as exc:  # any exception is a rejection
        NEAR_BOUND[0] += 2 * n[0] > limit
        return Outcome("raise", exc, n[0])
    NEAR_BOUND[0] += 2 * n[0] > limit
    return Outcome("item", value, n[0])


def _exc(e):
    return f"{type(e).__name__}: {str(e)[:200]}"


# --------------------------------------------------------------------------------------------
# plain tree -> secsgem Item


def build(node):
    from secsgem.secs import items as si

    f = node["f"]
    if f == "L":
        return si.ItemL([build(c) for c in node["v"]])
    v = node["v"]
    if f == "A":
        return si.ItemA(bytes(v))
    if f == "J":
        return si.ItemJ(bytes(v))
    if f == "B":
        return si.ItemB(bytes(v))
    if f == "BOOLEAN":
        return si.ItemBOOLEAN([bool(x) for x in v])
    cls = getattr(si, "Item" + f)
    if f in e5.FLOATS:
        return cls([e5.bits_float(f, b) for b in v])
    return cls([int(x) for x in v])


def same_classes(a, b):
    if type(a) is not type(b):
        return False
    if type(a).__name__ == "ItemL":
        va, vb = a._value, b._value
        return len(va) == len(vb) and all(same_classes(x, y) for x, y in zip(va, vb))
    return True


def _rt_item(item):
    """-> None (round trip holds) or (kind, observed, sml)."""
    try:
        sml = item.to_sml()
    except Exception as exc:
        return ("to_sml-raises", _exc(exc), "")
    out = bounded_from_sml(sml)
    if out.kind == "steps":
        return ("steps", f"> {out.steps - 1} line events for {len(sml)} characters", sml)
    if out.kind == "raise":
        return ("rejected", _exc(out.value), sml)
    r = out.value
    if not same_classes(r, item):
        return ("type", f"{type(r).__name__}: {_safe_sml(r)}", sml)
    try:
        enc = r.encode()
    except Exception as exc:
        return ("reencode-raises", _exc(exc), sml)
    if enc != item.encode():
        return ("value", enc[:64].hex(), sml)
    return None


def _safe_sml(item):
    try:
        return item.to_sml()[:200]
    except Exception as exc:
        return f"<to_sml raises {_exc(exc)}>"


def sanitize_leaf(leaf, dquote=True, jis=True):
    """The same leaf without the trigger bytes of the two known string defects."""
    f = leaf["f"]
    if f not in ("A", "J"):
        return leaf
    out = []
    for b in leaf["v"]:
        if dquote and b == DQUOTE:
            b = 0x27
        if jis and f == "J" and b in JIS_MAPPED:
            b = 0x2F if b == 0x5C else 0x2D if b == 0x7E else 0xE0 + (b & 0x1F)
        out.append(b)
    return {"f": f, "v": out}


def sanitize(tree):
    if tree["f"] == "L":
        return {"f": "L", "v": [sanitize(c) for c in tree["v"]]}
    return sanitize_leaf(tree)


def triggers(tree):
    t = set()
    for lf in gi.leaves_of(tree):
        if lf["f"] in ("A", "J") and DQUOTE in lf["v"]:
            t.add("dquote")
        if lf["f"] == "J" and any(b in JIS_MAPPED for b in lf["v"]):
            t.add("jis8")
    return t


def _group(f):
    return "str" if f in ("A", "J") else "int" if f in e5.INTS else "float" if f in e5.FLOATS else f


def _leaf_causes(leaf):
    """Root causes for a leaf whose own round trip fails."""
    r = _rt_item(build(leaf))
    if r is None:
        return []
    f = leaf["f"]
    generic = f"leaf-roundtrip:{_group(f)}"
    if f not in ("A", "J"):
        return [generic]
    has_dq = DQUOTE in leaf["v"]
    has_jis = f == "J" and any(b in JIS_MAPPED for b in leaf["v"])
    if not (has_dq or has_jis):
        return [generic]
    clean = sanitize_leaf(leaf)
    r_clean = _rt_item(build(clean))
    if r_clean is not None:
        return ["leaf-roundtrip:str"]  # fails without any known trigger
    causes = []
    if has_jis and _rt_item(build(sanitize_leaf(leaf, dquote=True, jis=False))) is not None:
        causes.append(B_JIS)
    if has_dq and _rt_item(build(sanitize_leaf(leaf, dquote=False, jis=True))) is not None:
        causes.append(B_DQUOTE)
    return causes or [generic]


_PRIORITY = {B_JIS: 1, B_DQUOTE: 2}


def check_roundtrip(tree):
    """-> Failure | None | "excluded"."""
    item = build(tree)
    expect = e5.encode(gi.to_ref(tree))
    if item.encode() != expect:
        return "excluded"
    r = _rt_item(item)
    if r is None:
        return None
    kind, observed, sml = r
    causes = []
    if tree["f"] == "L":
        for lf in gi.leaves_of(tree):
            for c in _leaf_causes(lf):
                if c not in causes:
                    causes.append(c)
        if not causes:
            causes = ["tree-roundtrip"]
    else:
        causes = _leaf_causes(tree) or [f"leaf-roundtrip:{_group(tree['f'])}"]
    causes.sort(key=lambda c: (_PRIORITY.get(c, 0), c))
    return Failure(
        causes[0],
        {"k": "rt", "item": tree},
        f"{kind}: {observed} | sml={sml[:300]!r}",
        f"from_sml(to_sml()) is the same item, encode()={expect[:64].hex()}",
    )


# --------------------------------------------------------------------------------------------
# text oracle (termination + rejection)


def check_text(text, strict_quotes=False, demand=True, info=None):
    """Failure | None. info (dict) receives what was decided, for class statistics."""
    from secsgem.secs.items import Item

    toks, amb = smllex.lex(text)
    a = smllex.analyse(toks)
    quotes = ("'" in text) or ('"' in text)
    must = demand and a.must_reject and not amb and not (strict_quotes and quotes)
    out = bounded_from_sml(text, len(toks))
    if info is not None:
        info.update(
            has_item=a.has_item,
            must=must,
            amb=bool(amb),
            outcome=out.kind,
            depth=a.depth,
            missing=a.missing_closer,
            unknown=bool(a.unknown_types),
            dot=any(t.kind == "bare" and t.text == "." for t in toks),
        )
    case = {"k": "text", "text": text, "strict": bool(strict_quotes), "demand": bool(demand)}
    if out.kind == "steps":
        return Failure(B_STEPS, case, f"more than {step_bound(len(text), len(toks))} line events for {len(text)} characters / {len(toks)} tokens", "terminates within the bound")
    if out.kind == "raise":
        return None
    r = out.value
    if not isinstance(r, Item):
        return Failure("returns-non-item", case, repr(r)[:200], "an Item or an exception")
    if not must:
        return None
    relaxed = smllex.analyse(toks, dot_closes_list=True)
    if not relaxed.must_reject:
        bucket = B_DOT
    elif a.missing_closer:
        bucket = B_MISSING
    elif any((not n.isascii()) and n.upper() in smllex.KNOWN_TYPES for n in a.unknown_types):
        bucket = B_CASEFOLD
    else:
        bucket = B_UNKNOWN
    why = "closing bracket missing in the first item" if a.missing_closer else f"unknown type name {a.unknown_types[:3]}"
    return Failure(bucket, case, f"returned {type(r).__name__} {_safe_sml(r)!r}", f"an exception ({why})")


# --------------------------------------------------------------------------------------------
# independent SML writer (valid SML in several layouts) -> token list

LAYOUTS = ["spaced", "lines", "tabs", "compact", "wide"]


def _str_tokens(f, data, mode):
    """Tokens for the bytes of an A/J item: literal runs of plain ASCII + numeric codes."""
    toks = []
    run = ""
    for b in data:
        plain = 0x20 <= b <= 0x7E and b != DQUOTE and not (f == "J" and b in (0x5C, 0x7E))
        if plain and mode == 0:
            run += chr(b)
            continue
        if run:
            toks.append('"' + run + '"')
            run = ""
        toks.append(hex(b) if mode != 2 else str(b))
    if run:
        toks.append('"' + run + '"')
    return toks


def sml_tokens(tree, style):
    f = tree["f"]
    name = f.lower() if style.get("lower") else f
    toks = ["<", name]
    if f == "L":
        if style.get("count") and tree["v"]:
            toks += ["[", str(len(tree["v"])), "]"]
        for c in tree["v"]:
            toks += sml_tokens(c, style)
    elif f in ("A", "J"):
        toks += _str_tokens(f, tree["v"], style.get("strmode", 0))
    elif f == "B":
        toks += [hex(b) if style.get("hex", 1) else str(b) for b in tree["v"]]
    elif f == "BOOLEAN":
        toks += [("0x1" if b else "0x0") if style.get("hex", 1) else str(int(bool(b))) for b in tree["v"]]
    elif f in e5.FLOATS:
        toks += [repr(e5.bits_float(f, b)) for b in tree["v"]]
    else:
        toks += [str(int(x)) for x in tree["v"]]
    toks.append(">")
    return toks


def join_tokens(toks, layout):
    if layout == "compact":
        out = ""
        prev_op = True
        for t in toks:
            op = t in ("<", ">", "[", "]")
            if not op and not prev_op:
                out += " "
            out += t
            prev_op = op
        return out
    sep = {"spaced": " ", "lines": "\n", "tabs": "\t", "wide": " \r\n"}[layout]
    return sep.join(toks) + ("" if layout == "spaced" else sep)


# --------------------------------------------------------------------------------------------
# strategies (plain data)


def text_leaf(max_n=10):
    @st.composite
    def _s(draw):
        f = draw(st.sampled_from(["A", "A", "J"]))
        n = draw(st.one_of(st.sampled_from([0, 1, 2, 3]), st.integers(0, max_n)))
        el = st.one_of(st.sampled_from(SPECIAL_BYTES), st.sampled_from(list(b"ab 0x1")), st.integers(0, 255))
        return {"f": f, "v": draw(st.lists(el, min_size=n, max_size=n))}

    return _s()


def any_leaf(max_n=8):
    return st.one_of(gi.leaf(max_n=max_n), text_leaf(max_n))


def rt_trees(deep_max=30):
    small = st.one_of(gi.leaf(max_n=3), text_leaf(4))
    return st.one_of(
        any_leaf(12),
        text_leaf(12),
        gi.tree(max_depth=2, max_width=4, leaves=any_leaf(6)),
        gi.tree(max_depth=4, max_width=3, leaves=any_leaf(4)),
        gi.deep_tree(st.integers(3, deep_max), leaves=small),
    )


def base_trees():
    """Smaller trees for the text populations."""
    small = st.one_of(gi.leaf(max_n=3), text_leaf(4))
    as_list = lambda t: t if t["f"] == "L" else {"f": "L", "v": [t, t]}  # noqa: E731
    return st.one_of(
        any_leaf(5),
        gi.tree(max_depth=2, max_width=3, leaves=any_leaf(4)).map(as_list),
        gi.tree(max_depth=4, max_width=2, leaves=small).map(as_list),
        gi.deep_tree(st.integers(3, 8), leaves=st.one_of(gi.leaf(max_n=2), text_leaf(3))),
    )


STYLE = st.fixed_dictionaries(
    {
        "src": st.sampled_from(["writer", "writer", "secsgem"]),
        "layout": st.sampled_from(LAYOUTS),
        "lower": st.sampled_from([0, 0, 1]),
        "count": st.sampled_from([0, 1, 1]),
        "strmode": st.sampled_from([0, 0, 1, 2]),
        "hex": st.sampled_from([0, 1]),
    }
)

UNKNOWN_NAMES = ["X", "LIST", "U3", "I16", "F2", "AA", "BOOL", "BOOLEANS", "L1", "N", "ASCII", "U", "1", "0x1", "UL", "l0", "É", "U1x", "_", "A.", "-"]

TYPE_TOKENS = list(smllex.KNOWN_TYPES) + ["l", "u1", "a", "Boolean", "L", "L", "L", "U1", "A"]
NUMBER_TOKENS = ["0", "1", "2", "-1", "255", "256", "0x1f", "0x0", "1.5", "1e3", "-0.0", "nan", "65536", "0b1", "1_0"]
LITERAL_TOKENS = ['"abc"', '""', '"a b"', '"<>"', "'x'", '"."', '"[1]"', "'\"'"]
OPS = ["<", ">", "[", "]"]


def alphabet_token(dot=True, quotes=True):
    groups = [
        st.sampled_from(OPS),
        st.sampled_from(OPS),
        st.sampled_from(TYPE_TOKENS),
        st.sampled_from(NUMBER_TOKENS),
        st.sampled_from(UNKNOWN_NAMES[:12]),
    ]
    if dot:
        groups.append(st.just("."))
    if quotes:
        groups.append(st.sampled_from(LITERAL_TOKENS))
    return st.one_of(*groups)


SEPS = st.sampled_from([" ", " ", " ", "\n", "\t", "", "  "])


def random_text(dot, quotes, max_tokens=40):
    @st.composite
    def _s(draw):
        n = draw(st.integers(0, max_tokens))
        parts = ["<", draw(SEPS)] if draw(st.integers(0, 9)) < 6 else []
        for _ in range(n):
            parts.append(draw(alphabet_token(dot, quotes)))
            parts.append(draw(SEPS))
        return "".join(parts)

    return _s()


def structured_random(dot, max_tokens=40):
    """Random token strings from a loose item grammar (so that the parser gets beyond the first tokens)."""

    @st.composite
    def _s(draw):
        budget = [draw(st.integers(1, max_tokens))]

        def item(depth):
            budget[0] -= 2
            out = ["<", draw(st.sampled_from(TYPE_TOKENS if draw(st.integers(0, 9)) else UNKNOWN_NAMES[:12]))]
            is_list = out[1].upper() == "L"
            if is_list and draw(st.integers(0, 3)) == 0:
                out += ["[", draw(st.sampled_from(NUMBER_TOKENS[:6])), "]"]
            k = draw(st.integers(0, 3))
            for _ in range(k):
                if budget[0] <= 0:
                    break
                if is_list and depth < 6 and draw(st.integers(0, 5)):
                    out += item(depth + 1)
                else:
                    budget[0] -= 1
                    out.append(draw(alphabet_token(dot, False)))
            r = draw(st.integers(0, 11))
            if r >= 2:
                out.append(">")
            elif r == 1:
                out.append(draw(alphabet_token(dot, False)))
            return out

        toks = item(0)
        if draw(st.integers(0, 4)) == 0:
            toks += [draw(alphabet_token(dot, False))]
        sep = draw(st.sampled_from([" ", " ", "\n", ""]))
        if sep == "":
            return join_tokens(toks, "compact")
        return sep.join(toks) + draw(st.sampled_from(["", " "]))

    return _s()


# --------------------------------------------------------------------------------------------
# long SML texts (population a, class family long:*): the statement quantifies over all items, so also over items whose
# SML text is longer than any buffer a tokenizer might read it through. Compact plain specs (pattern + count), expanded
# to an explicit tree by expand_long; lengths sit around multiples of the usual buffer sizes (1024 .. 65536) and
# anywhere in between, so that literals, bare tokens and operators fall on / next to / across such offsets.

LONG_BASES = [1024, 2048, 3072, 4096, 4096, 4096, 8192, 8192, 12288, 16384, 20480, 32768, 65536]
LONG_BOUNDARIES = (1024, 4096, 8192, 65536)  # class statistics only
PLAIN_TEXT_BYTES = list(b"abcdeXYZ0189")
PUNCT_TEXT_BYTES = list(b" <>[]'.,x0-")


def _pat_byte():
    return st.one_of(
        st.sampled_from(PLAIN_TEXT_BYTES),
        st.sampled_from(PLAIN_TEXT_BYTES),
        st.sampled_from(PUNCT_TEXT_BYTES),
        st.sampled_from(SPECIAL_BYTES),
        st.integers(0, 255),
    )


def long_specs(max_base=65536):
    small_text = text_leaf(6)
    small_any = st.one_of(gi.leaf(max_n=4), text_leaf(6))

    @st.composite
    def _s(draw):
        shape = draw(st.sampled_from(["text", "text", "text", "num", "many", "many"]))
        spec = {"shape": shape, "clean": draw(st.sampled_from([1, 1, 1, 0])), "wrap": draw(st.sampled_from([0, 0, 1, 2, 5]))}
        if shape == "text":
            base = draw(st.sampled_from([b for b in LONG_BASES if b <= max_base]))
            n = draw(st.one_of(st.integers(base - 24, base + 24), st.integers(base, base + base // 2), st.integers(1000, 21000)))
            if base >= 32768:  # one very long printable run (the tokenizer keeps the current line: cost grows with the square)
                pat = draw(st.lists(st.sampled_from(PLAIN_TEXT_BYTES + PUNCT_TEXT_BYTES), min_size=1, max_size=9))
            else:
                pat = draw(st.lists(_pat_byte(), min_size=1, max_size=9))
            ins = draw(st.lists(st.tuples(st.integers(1, 64), st.integers(-12, 12), _pat_byte()).map(list), max_size=4))
            spec.update(f=draw(st.sampled_from(["A", "A", "J"])), n=n, pat=pat, ins=ins)
            spec["pre"] = draw(st.lists(small_any, max_size=2))
            spec["post"] = draw(st.lists(small_any, max_size=2))
        elif shape == "num":
            f = draw(st.sampled_from([x for x in gi.SCALARS if x not in ("A", "J")]))
            spec.update(f=f, n=draw(st.one_of(st.integers(200, 2500), st.integers(2500, 9000))), pat=draw(st.lists(gi.elems(f), min_size=1, max_size=5)), ins=[])
            spec["pre"] = draw(st.lists(small_any, max_size=2))
            spec["post"] = draw(st.lists(small_any, max_size=2))
        else:
            spec["count"] = draw(st.one_of(st.integers(60, 700), st.integers(700, 1800)))
            spec["elems"] = draw(st.lists(st.one_of(small_text, small_text, small_any), min_size=1, max_size=5))
        return spec

    return _s()


def expand_long(spec):
    """Compact long-item spec -> explicit plain tree."""
    if spec["shape"] == "many":
        el = spec["elems"]
        node = {"f": "L", "v": [el[i % len(el)] for i in range(spec["count"])]}
    else:
        pat, n = spec["pat"], spec["n"]
        v = (pat * (n // len(pat) + 1))[:n]
        for k, off, b in spec.get("ins", []):
            pos = k * 1024 + off - 5  # `< A "` precedes the text of a top-level item
            if 0 <= pos < n:
                v[pos] = b
        node = {"f": spec["f"], "v": v}
        if spec.get("pre") or spec.get("post"):
            node = {"f": "L", "v": list(spec.get("pre", [])) + [node] + list(spec.get("post", []))}
    for _ in range(spec.get("wrap", 0)):
        node = {"f": "L", "v": [node]}
    return sanitize(node) if spec.get("clean") else node


def shorten_long(spec, limit=24):
    """The same spec with the repetition count cut down (attribution: does the failure need the length?)."""
    s = dict(spec)
    if s["shape"] == "many":
        s["count"] = min(s["count"], limit)
    else:
        s["n"] = min(s["n"], limit)
    return s


def long_classes(tree, spec):
    """Where tokens of the SML text lie relative to multiples of the usual buffer sizes (generator measurement)."""
    out = ["rt:long", f"long:shape:{spec['shape']}", "long:clean" if spec.get("clean") else "long:raw"]
    try:
        sml = build(tree).to_sml()
    except Exception:
        return out + ["long:to_sml-raises"]
    n = len(sml)
    out.append("long:sml-len:" + ("<1k" if n < 1024 else "1k-4k" if n < 4096 else "4k-8k" if n < 8192 else "8k-20k" if n < 20480 else "20k-64k" if n < 65536 else "64k+"))
    toks, _ = smllex.lex(sml)
    starts = [t.pos for t in toks]
    import bisect

    for b in LONG_BOUNDARIES:
        for m in range(b, n, b):
            i = bisect.bisect_right(starts, m) - 1
            t = toks[i] if i >= 0 else None
            if t is not None and t.pos < m < t.end:
                out.append(f"long:{t.kind}-straddles-{b}")
                if t.kind == "lit" and (m == t.pos + 1 or m == t.end - 1):
                    out.append(f"long:quote-next-to-{b}")
            elif t is not None and (t.pos == m or t.end == m):
                out.append(f"long:{t.kind}-edge-at-{b}")
            else:
                out.append(f"long:blank-at-{b}")
    return sorted(set(out))


def check_long(spec):
    """Round trip of the expanded item -> Failure | None | "excluded". The failure carries the compact spec."""
    f = check_roundtrip(expand_long(spec))
    if not isinstance(f, Failure):
        return f
    short = check_roundtrip(expand_long(shorten_long(spec)))
    bucket = f.bucket
    if not (isinstance(short, Failure) and short.bucket == f.bucket):
        bucket = "long-text:" + f.bucket  # the short form of the same item round-trips: the length is what matters
    return Failure(bucket, {"k": "rtl", "spec": spec}, f.observed, f.expected)


def run_long(spec, ctx):
    tree = expand_long(spec)
    ctx.case({"k": "rtl", "spec": spec}, True, long_classes(tree, spec))
    f = check_long(spec)
    if f == "excluded":
        ctx.exclude("item.encode() differs from the E5 reference (C14 territory)")
        return None
    return f


def minimise_long(spec, bucket, max_evals=60):
    """Smaller spec with the same bucket: simpler pattern, no extras, then the smallest count found by bisection."""
    stop_at = STEPS_USED[0] + 4 * MINIMISE_STEPS
    evals = [0]

    def fails(s):
        evals[0] += 1
        if evals[0] > max_evals or STEPS_USED[0] > stop_at:
            return False
        f = check_long(s)
        return isinstance(f, Failure) and f.bucket == bucket

    best = spec
    simpler = [{"wrap": 0}, {"pre": [], "post": []}, {"ins": []}, {"clean": 1}]
    if spec["shape"] == "many":
        simpler += [{"elems": [e]} for e in spec["elems"][:2]] + [{"elems": [{"f": "A", "v": [0x61]}]}]
    elif spec["shape"] == "text":
        simpler += [{"pat": [0x61]}, {"f": "A"}]
    else:
        simpler += [{"pat": spec["pat"][:1]}]
    for change in simpler:
        if all(k in best for k in change) and any(best[k] != v for k, v in change.items()):
            cand = dict(best, **change)
            if fails(cand):
                best = cand
    key = "count" if best["shape"] == "many" else "n"
    lo, hi = 0, best[key]  # invariant: hi fails; lo is not known to fail
    while hi - lo > 1 and evals[0] < max_evals:
        mid = (lo + hi) // 2
        if fails(dict(best, **{key: mid})):
            hi = mid
        else:
            lo = mid
    return dict(best, **{key: hi})


# --------------------------------------------------------------------------------------------
# case evaluation


def special_text(tree):
    for lf in gi.leaves_of(tree):
        if lf["f"] in ("A", "J") and any(b in TOKENIZER_SPECIAL or b >= 0x7F for b in lf["v"]):
            return True
    return False


def rt_classes(tree, mode):
    out = [f"rt:{mode}"]
    fm = set()
    for lf in gi.leaves_of(tree):
        fm.add(lf["f"])
        if len(lf["v"]) == 0:
            out.append(f"empty:{lf['f']}")
    out += [f"fmt:{f}" for f in sorted(fm)]
    d = gi.depth(tree)
    out.append("depth:" + (str(d) if d < 3 else "3-9" if d < 10 else "10-19" if d < 20 else "20+"))
    if tree["f"] == "L" and not tree["v"]:
        out.append("empty:L")
    t = triggers(tree)
    out += [f"trig:{x}" for x in sorted(t)] or ["trig:none"]
    for lf in gi.leaves_of(tree):
        if lf["f"] in ("A", "J"):
            v = lf["v"]
            for name, pred in _TEXT_CLASSES:
                if any(pred(b) for b in v):
                    out.append(f"text:{name}")
    return sorted(set(out))


_TEXT_CLASSES = [
    ("angle", lambda b: b in (0x3C, 0x3E)),
    ("square", lambda b: b in (0x5B, 0x5D)),
    ("squote", lambda b: b == 0x27),
    ("dquote", lambda b: b == 0x22),
    ("dot", lambda b: b == 0x2E),
    ("space", lambda b: b in (0x20, 0x09, 0x0B, 0x0C)),
    ("newline", lambda b: b in (0x0A, 0x0D)),
    ("control", lambda b: b < 0x20 or b == 0x7F),
    ("high", lambda b: b >= 0x80),
]


def run_rt(tree, mode, ctx):
    ctx.case({"k": "rt", "item": tree}, special_text(tree) or gi.depth(tree) >= 3, rt_classes(tree, mode))
    f = check_roundtrip(tree)
    if f == "excluded":
        ctx.exclude("item.encode() differs from the E5 reference (C14 territory)")
        return None
    return f


def make_base(tree, style):
    """Valid SML text for the tree -> (text, source)."""
    if style["src"] == "secsgem":
        return build(tree).to_sml(), "secsgem"
    return join_tokens(sml_tokens(tree, style), style["layout"]), "writer"


def mutate(base, mut, src="secsgem"):
    """-> (text, kind, removes_one_bracket, demand) or None if the mutation does not apply."""
    toks, amb = smllex.lex(base)
    a = smllex.analyse(toks)
    kind = mut["kind"]
    if src == "writer" and (amb or a.must_reject or not a.has_item or a.end != len(toks) - 1):
        raise AssertionError(f"harness: the independent writer produced text the reference lexer does not accept: {base!r}")
    if kind == "drop-quote":
        lits = [t for t in toks if t.kind == "lit" and len(t.text) >= 2 and t.text[-1] == t.text[0]]
        if not lits:
            return None
        t = lits[mut["idx"] % len(lits)]
        return base[: t.end - 1] + base[t.end :], kind, False, False
    if amb or a.must_reject or not a.has_item or a.end != len(toks) - 1:
        # secsgem's own text is not one cleanly lexable item (string defects of to_sml): nothing is derived from it
        return None
    if kind == "del-closer":
        i = a.closers[mut["idx"] % len(a.closers)]
        p = toks[i].pos
        text = base[:p] + base[p + 1 :]
    elif kind == "bad-type":
        i = a.type_positions[mut["idx"] % len(a.type_positions)]
        t = toks[i]
        text = base[: t.pos] + UNKNOWN_NAMES[mut["name"] % len(UNKNOWN_NAMES)] + base[t.end :]
    else:
        raise ValueError(kind)
    t2, amb2 = smllex.lex(text)
    if src == "writer" and (amb2 or not smllex.analyse(t2).must_reject):
        raise AssertionError(f"harness: mutation {mut} of {base!r} is not rejected by the reference lexer: {text!r}")
    return text, kind, kind == "del-closer", True


def edit_tokens(base, edits, dot):
    """Token-level noise on valid SML -> list of token texts (joined by the caller)."""
    toks, _ = smllex.lex(base)
    parts = [t.text for t in toks]
    alpha = OPS + OPS + TYPE_TOKENS + NUMBER_TOKENS + UNKNOWN_NAMES[:12] + LITERAL_TOKENS + (["."] * 4 if dot else [])
    for e in edits:
        if not parts:
            break
        i = e["at"] % len(parts)
        op = e["op"]
        new = alpha[e["tok"] % len(alpha)]
        if op == "delete":
            del parts[i]
        elif op == "insert":
            parts.insert(i, new)
        elif op == "replace":
            parts[i] = new
        elif op == "dup":
            parts.insert(i, parts[i])
        elif op == "swap" and i + 1 < len(parts):
            parts[i], parts[i + 1] = parts[i + 1], parts[i]
        elif op == "truncate":
            parts = parts[: i + 1]
        elif op == "swap-op":
            ops = [k for k, p in enumerate(parts) if p in OPS]
            if ops:
                k = ops[e["at"] % len(ops)]
                parts[k] = OPS[e["tok"] % 4]
    return parts


EDIT = st.fixed_dictionaries(
    {
        "op": st.sampled_from(["delete", "insert", "replace", "dup", "swap", "truncate", "swap-op", "swap-op", "delete"]),
        "at": st.integers(0, 400),
        "tok": st.integers(0, 400),
    }
)


def text_classes(origin, info, extra=()):
    out = [f"text:{origin}", f"outcome:{info['outcome']}"]
    out.append("demand:reject" if info["must"] else "demand:none")
    if info["amb"]:
        out.append("lex:ambiguous")
    if not info["has_item"]:
        out.append("lex:no-item-start")
    out.append("dot:yes" if info["dot"] else "dot:no")
    if info["must"]:
        out.append("reject-because:" + ("missing-closer" if info["missing"] else "unknown-type"))
    d = info["depth"]
    out.append("textdepth:" + (str(d) if d < 3 else "3+"))
    out += list(extra)
    return out


def run_text(case_for_stats, text, origin, ctx, strict=False, demand=True, nontrivial=None, extra=()):
    info = {}
    f = check_text(text, strict_quotes=strict, demand=demand, info=info)
    nt = nontrivial if nontrivial is not None else (info["has_item"] and info["must"])
    ctx.case(case_for_stats, nt, text_classes(origin, info, extra))
    return f


# --------------------------------------------------------------------------------------------
# deterministic minimisation of failing cases (bounded by evaluation count, not by time). The runner's Hypothesis
# shrink phase is bounded by wall clock; on a loaded machine it can run out on 30-deep trees, so the check passes
# shrink=False and reduces the recorded case itself, keeping the root-cause bucket.


def _tree_candidates(tree):
    """Smaller variants of a tree, most aggressive first."""
    if tree["f"] == "L":
        for c in tree["v"]:
            yield c  # hoist a child
        v = tree["v"]
        for i in range(len(v)):
            yield {"f": "L", "v": v[:i] + v[i + 1 :]}
        for i, c in enumerate(v):
            for c2 in _tree_candidates(c):
                yield {"f": "L", "v": v[:i] + [c2] + v[i + 1 :]}
    else:
        v = tree["v"]
        if len(v) > 1:
            yield {"f": tree["f"], "v": v[: len(v) // 2]}
            yield {"f": tree["f"], "v": v[len(v) // 2 :]}
        for i in range(len(v)):
            yield {"f": tree["f"], "v": v[:i] + v[i + 1 :]}
        simple = 0x61 if tree["f"] in ("A", "J") else 0
        for i, x in enumerate(v):
            if x != simple:
                yield {"f": tree["f"], "v": v[:i] + [simple] + v[i + 1 :]}


MINIMISE_STEPS = 4_000_000  # line events per minimised failure


def minimise_tree(tree, bucket, max_evals=1500):
    evals = 0
    best = tree
    improved = True
    stop_at = STEPS_USED[0] + MINIMISE_STEPS
    while improved and evals < max_evals:
        improved = False
        for cand in _tree_candidates(best):
            evals += 1
            if evals > max_evals or STEPS_USED[0] > stop_at:
                break
            f = check_roundtrip(cand)
            if isinstance(f, Failure) and f.bucket == bucket:
                best = cand
                improved = True
                break
    return best


def minimise_text(text, bucket, strict, demand, max_evals=1500):
    evals = 0
    best = text

    def fails(t):
        f = check_text(t, strict_quotes=strict, demand=demand)
        return f is not None and f.bucket == bucket

    chunk = max(1, len(best) // 2)
    stop_at = STEPS_USED[0] + MINIMISE_STEPS
    while chunk >= 1 and evals < max_evals and STEPS_USED[0] <= stop_at:
        i = 0
        progressed = False
        while i < len(best) and evals < max_evals and STEPS_USED[0] <= stop_at:
            cand = best[:i] + best[i + chunk :]
            evals += 1
            if cand != best and fails(cand):
                best = cand
                progressed = True
            else:
                i += chunk
        if not progressed:
            chunk //= 2
    return best


def minimise_failures(ctx, start=0):
    """Reduce the cases of failures recorded since index `start` (same bucket, smaller witness)."""
    for f in ctx.failures[start:]:
        case = f.case
        if not isinstance(case, dict):
            continue
        if case.get("k") == "rt":
            small = minimise_tree(case["item"], f.bucket)
            g = check_roundtrip(small)
        elif case.get("k") == "rtl":
            g = check_long(minimise_long(case["spec"], f.bucket))
        elif case.get("k") == "text":
            small = minimise_text(case["text"], f.bucket, case.get("strict", False), case.get("demand", True))
            g = check_text(small, strict_quotes=case.get("strict", False), demand=case.get("demand", True))
        else:
            continue
        if isinstance(g, Failure) and g.bucket == f.bucket:
            f.case, f.observed, f.expected = g.case, g.observed, g.expected


def hyp(ctx, strategy, body, n, seed_offset):
    start = len(ctx.failures)
    ctx.hyp(strategy, body, n, seed_offset=seed_offset, shrink=False)
    minimise_failures(ctx, start)


# --------------------------------------------------------------------------------------------
# tasks


def plan(tier, seed):
    """quick: 23 tasks. thorough: the same populations in shards of <= 1500 examples (a shard that is running when
    the budget ends still has to let Hypothesis generate its remaining examples; small shards keep that short)."""
    q = tier == "quick"
    tasks = [("enum", {}), ("enum_long", {}), ("names", {})]
    n_clean, n_raw, n_mut, n_rand = (6, 2, 4, 4) if q else (96, 48, 64, 96)
    per_rt = 520 if q else 1500
    per_mut = 520 if q else 1500
    per_rand = 800 if q else 1500
    n_long, per_long = (4, 60) if q else (32, 400)
    for i in range(n_clean):
        tasks.append(("rt", {"mode": "clean", "shard": i, "n": per_rt}))
    for i in range(n_raw):
        tasks.append(("rt", {"mode": "raw", "shard": 1000 + i, "n": per_rt}))
    for i in range(n_long):
        tasks.append(("long", {"shard": 4000 + i, "n": per_long}))
    for i in range(n_mut):
        tasks.append(("mut", {"shard": 2000 + i, "n": per_mut}))
    for i in range(n_rand):
        tasks.append(("rand", {"dot": (i % 4 == 3), "shard": 3000 + i, "n": per_rand}))
    if not q:  # last: the generated populations are the core, the fuzzer takes what is left of the budget
        for i in range(16):
            tasks.append(("fuzz", {"shard": i, "runs": 1000000}))
    return tasks


def run_task(name, kw, ctx):
    if name == "rt":
        mode = kw["mode"]
        strat = rt_trees(30)
        if mode == "clean":
            strat = strat.map(sanitize)
        hyp(ctx, strat, lambda tree: run_rt(tree, mode, ctx), kw["n"], kw["shard"])
    elif name == "long":
        hyp(ctx, long_specs(), lambda spec: run_long(spec, ctx), kw["n"], kw["shard"])
    elif name == "enum":
        _enum_task(ctx)
    elif name == "enum_long":
        _enum_long_task(ctx)
    elif name == "names":
        _names_task(ctx)
    elif name == "mut":
        _mut_task(kw, ctx)
    elif name == "rand":
        _rand_task(kw, ctx)
    elif name == "fuzz":
        _fuzz_task(kw, ctx)
    else:
        raise ValueError(name)
    if NEAR_BOUND[0]:
        ctx.count("info:steps-over-half-of-bound", NEAR_BOUND[0])
        NEAR_BOUND[0] = 0


def _enum_task(ctx):
    """Every byte value in A and J text in several contexts; every type empty; empty/nested lists; witnesses."""
    trees = []
    for f in ("A", "J"):
        for b in range(256):
            for v in ([b], [b, b], [0x61, b, 0x62], [0x20, b], [b, 0x20], [0, b, 0], [b, 0x27, b]):
                trees.append({"f": f, "v": v})
            trees.append({"f": "L", "v": [{"f": f, "v": [b, 0x41]}, {"f": "U1", "v": [1]}]})
    for f in gi.SCALARS:
        trees.append({"f": f, "v": []})
        trees.append({"f": "L", "v": [{"f": f, "v": []}]})
        trees.append({"f": "L", "v": [{"f": f, "v": []}, {"f": "L", "v": []}, {"f": f, "v": []}]})
    trees.append({"f": "L", "v": []})
    node = {"f": "L", "v": []}
    for d in range(1, 31):
        node = {"f": "L", "v": [node]}
        trees.append(node)
    for f in e5.INTS:
        lo, hi = e5.int_range(f)
        trees.append({"f": f, "v": [lo, hi, 0]})
    trees.append({"f": "F4", "v": [0x7F7FFFFF, 0xFF7FFFFF, 1, 0x80000000, 0x00800000, 0x3DCCCCCD]})
    trees.append({"f": "F8", "v": [0x7FEFFFFFFFFFFFFF, 0xFFEFFFFFFFFFFFFF, 1, 0x8000000000000000, 0x3FB999999999999A]})
    trees.append({"f": "BOOLEAN", "v": [1, 0, 1, 1]})
    trees.append({"f": "B", "v": list(range(256))})
    for t in trees:
        ctx.report(run_rt(t, "enum", ctx))
    _enum_texts(ctx)


def _enum_long_task(ctx):
    """Fixed long items (own task: they cost as much as the rest of the enumeration together)."""
    start = len(ctx.failures)
    # long texts: one printable run / one long list whose SML text ends just before, on and after multiples of the usual
    # buffer sizes (the closing quote, the closing bracket and the last characters each sit on the offset once)
    for base in (1024, 2048, 4096, 8192, 12288, 16384, 20480, 65536):
        for d in range(-9, 3) if base < 65536 else (-7, -6, -1, 0):
            for f in ("A", "J") if base <= 8192 else ("A",):
                spec = {"shape": "text", "clean": 1, "wrap": 0, "f": f, "n": base + d, "pat": [0x61 + (d % 3), 0x20, 0x3E][: 1 + (d % 3)], "ins": [], "pre": [], "post": []}
                ctx.report(run_long(spec, ctx))
    for count in (90, 350, 700, 1400):
        for el in ([{"f": "A", "v": [0x61, 0x62, 0x63]}], [{"f": "A", "v": [0x61, 0x20, 0x3C]}, {"f": "U1", "v": [1, 2, 3]}, {"f": "J", "v": [0x27, 0x41]}]):
            ctx.report(run_long({"shape": "many", "clean": 1, "wrap": 0, "count": count, "elems": el}, ctx))
    minimise_failures(ctx, start)


def _enum_texts(ctx):
    # fixed texts of the rejection half (documented examples and the design-time observations)
    texts = [
        "< L . ",
        "< L < U1 1 > . ",
        "< L [1] < U1 1 > ",
        "< U1 1 ",
        "< U1 1",
        "<",
        "",
        "< X 1 >",
        "< L < X > >",
        "< L [2] < U1 1 > < A \"x\" > >",
        "< L [1 < U1 1 > >",
    ]
    for tx in texts:
        ctx.report(run_text({"k": "text", "text": tx}, tx, "fixed", ctx, extra=["fixed"]))
    # observation only (see module docstring): the tokenizer drops a trailing bare token
    from secsgem.secs.sml import SMLParser

    try:
        got = [t.value for t in SMLParser("< U1 1")._tokens]
    except Exception:
        got = None
    if got == ["<", "U1"]:
        ctx.count("info:tokenizer-drops-trailing-token")
        ctx.note(
            "observation (not a C15 violation): SMLParser('< U1 1') yields tokens ['<','U1'] - a trailing bare token "
            "is dropped at end of text; Item.from_sml results are unaffected (an unclosed item raises either way)"
        )


def name_variants():
    out = []
    for n in smllex.KNOWN_TYPES:
        out += [n, n.lower(), n.capitalize(), n + "X", "X" + n, n + "0", n[:-1] or "Q", n + ".", "_" + n]
    out += ["ı1", "ı2", "ı4", "ı8", "İ", "Ｌ", "Ｕ１", "U١", "А", "В", "K", "BOOLÉAN", "ſ", "ß"]
    out += UNKNOWN_NAMES
    seen = []
    for n in out:
        if n and n not in seen and not any(c in smllex.WHITESPACE + smllex.OPERATORS + smllex.QUOTES for c in n):
            seen.append(n)
    return seen


def _names_task(ctx):
    for n in name_variants():
        for tx in (f"< {n} >", f"<{n}>", f"< L < {n} > >", f"< L [1] < U1 1 > < {n} > >"):
            known = smllex.is_known_type(n)
            ctx.report(run_text({"k": "text", "text": tx}, tx, "names", ctx, nontrivial=not known, extra=["name:known" if known else "name:unknown"]))


def _mut_task(kw, ctx):
    trees = st.one_of(base_trees().map(sanitize), base_trees().map(sanitize), base_trees())
    mut = st.fixed_dictionaries(
        {
            "kind": st.sampled_from(["del-closer", "del-closer", "bad-type", "bad-type", "drop-quote", "edit", "edit", "edit"]),
            "idx": st.integers(0, 60),
            "name": st.integers(0, len(UNKNOWN_NAMES) - 1),
            "edits": st.lists(EDIT, min_size=1, max_size=4),
            "dot": st.sampled_from([0, 0, 0, 1]),
            "sep": st.sampled_from([" ", " ", "\n", ""]),
        }
    )
    strat = st.tuples(trees, STYLE, mut)

    def body(c):
        tree, style, m = c
        stats = {"k": "mut", "item": tree, "style": style, "mut": m}
        base, src = make_base(tree, style)
        extra = [f"base:{src}", f"mut:{m['kind']}"] + ([f"layout:{style['layout']}"] if src == "writer" else [])
        if src == "writer" and m["kind"] == "edit":
            # informational: how secsgem reads the independent writer's valid SML (not part of the verdict)
            o = bounded_from_sml(base)
            if o.kind == "item":
                try:
                    same = o.value.encode() == e5.encode(gi.to_ref(tree))
                except Exception:
                    same = False
                extra.append("info:writer-text-parsed-equal" if same else "info:writer-text-parsed-differs")
            else:
                extra.append("info:writer-text-" + ("rejected" if o.kind == "raise" else "steps"))
        if m["kind"] == "edit":
            parts = edit_tokens(base, m["edits"], m["dot"])
            text = join_tokens(parts, "compact") if m["sep"] == "" else m["sep"].join(parts)
            return run_text(stats, text, "edit", ctx, extra=extra)
        r = mutate(base, m, src)
        if r is None:
            # base not cleanly lexable (string defects) or nothing to mutate: still a termination case
            return run_text(stats, base, "base-unmutated", ctx, demand=False, nontrivial=False, extra=extra)
        text, kind, one_bracket, demand = r
        return run_text(stats, text, "mut", ctx, demand=demand, nontrivial=one_bracket or None, extra=extra)

    hyp(ctx, strat, body, kw["n"], kw["shard"])


def _rand_task(kw, ctx):
    dot = kw["dot"]
    strat = st.one_of(
        structured_random(dot),
        structured_random(dot),
        random_text(dot, quotes=False),
        random_text(dot, quotes=True, max_tokens=25),
    )

    def body(text):
        return run_text({"k": "text", "text": text}, text, "rand", ctx, strict=True)

    hyp(ctx, strat, body, kw["n"], kw["shard"])


# --------------------------------------------------------------------------------------------
# coverage-guided fuzzing (thorough tier)


def _fuzz_task(kw, ctx):
    try:
        import atheris  # noqa: F401
    except Exception as exc:  # not installed: say so, never a verdict
        ctx.note(f"atheris not importable ({type(exc).__name__}); fz_sml skipped - run `bash /verif/setup.sh`")
        ctx.count("fuzz:skipped")
        return
    left = ctx.time_left()
    if left < 90:
        ctx.budget_hit = True
        ctx.note("fz_sml shard not started: budget used up")
        ctx.count("fuzz:not-started")
        return
    tmp = tempfile.mkdtemp(prefix="vf_c15_fz_")
    try:
        corpus = os.path.join(tmp, "corpus")
        out = os.path.join(tmp, "out")
        os.makedirs(corpus)
        os.makedirs(out)
        rnd = random.Random(ctx.seed * 7919 + kw["shard"])
        seeds = ["< L [2] < U1 1 > < A \"x\" > >", "< L >", "<L<L<L>>>", "< B 0x1 0x2 >", "< BOOLEAN 0x1 >", "< F4 1.5 >", "< J \"a\" 0x0 >", "< I8 -1 >"]
        rnd.shuffle(seeds)
        for i, s in enumerate(seeds):
            with open(os.path.join(corpus, f"s{i}"), "wb") as fh:
                fh.write(s.encode("latin-1"))
        with open(os.path.join(tmp, "dict"), "w") as fh:
            for t in list(smllex.KNOWN_TYPES) + ["<", ">", "[", "]", ".", "0x", " "]:
                fh.write('"' + t + '"\n')
        import vf

        root = os.path.dirname(os.path.dirname(os.path.abspath(vf.__file__)))
        env = dict(os.environ, VF_FZ_OUT=out, VF_FZ_KNOWN=json.dumps(sorted(ctx.known_keys)))
        env["PYTHONPATH"] = os.pathsep.join([root, os.path.join(root, ".deps")] + ([env["PYTHONPATH"]] if env.get("PYTHONPATH") else []))
        cmd = [
            sys.executable,
            "-m",
            "vf.fuzz.fz_sml",
            corpus,
            f"-runs={kw['runs']}",
            f"-seed={ctx.seed * 1000 + kw['shard'] + 1}",
            "-max_len=120",
            f"-dict={os.path.join(tmp, 'dict')}",
            "-print_final_stats=1",
            "-verbosity=0",
            f"-max_total_time={int(min(360, left - 45))}",
        ]
        r = subprocess.run(cmd, env=env, capture_output=True, text=True, cwd=tmp)
        stats_path = os.path.join(out, "stats.json")
        if not os.path.exists(stats_path):
            raise RuntimeError(f"fz_sml did not finish cleanly (rc={r.returncode}): {r.stderr[-1500:]}")
        stats = json.load(open(stats_path))
        for line in r.stderr.splitlines():  # the target's own counters are flushed every 2000 executions only
            if line.startswith("stat::number_of_executed_units:"):
                stats["execs"] = max(stats["execs"], int(line.split(":")[-1]))
        ctx.evals += stats["execs"]
        ctx.count("fuzz:execs", stats["execs"])
        ctx.count("fuzz:demand-reject", stats["must"])
        ctx.count("fuzz:returned-item", stats["items"])
        if stats["execs"] < kw["runs"]:
            ctx.budget_hit = True
            ctx.note("fz_sml stopped by the time budget before its run count (fewer executions, same verdict rule)")
        for k, v in sorted(stats["known"].items()):
            ctx.known_hits[k] += v
        for fn in sorted(os.listdir(out)):
            if fn.startswith("finding-"):
                d = json.load(open(os.path.join(out, fn)))
                f = check_text(d["text"], strict_quotes=True)  # re-judged in this process
                if f is None:
                    raise RuntimeError(f"fz_sml finding does not reproduce: {d}")
                ctx.report(f)
        minimise_failures(ctx)
    finally:
        shutil.rmtree(tmp, ignore_errors=True)


# --------------------------------------------------------------------------------------------


def replay(case, ctx):
    if case.get("k") == "rt":
        f = check_roundtrip(case["item"])
        return None if f == "excluded" else f
    if case.get("k") == "rtl":
        f = check_long(case["spec"])
        return None if f == "excluded" else f
    if case.get("k") == "text":
        return check_text(case["text"], strict_quotes=case.get("strict", False), demand=case.get("demand", True))
    raise ValueError(f"unknown case form: {case}")
